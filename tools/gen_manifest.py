#!/usr/bin/env python3
"""Regenerates /verif/MANIFEST.json from the table below (kept in one place so the manifest stays valid)."""
import json, os, subprocess

HERE = os.path.dirname(os.path.dirname(os.path.abspath(__file__)))

# id -> (technique, level text, level note, design ref)
CHECKS = {
    "C01": (
        "reference-model monitor: executable reference interpreter (irexec) over the typed IR of the source vs. the re-read emitted HLSL, on generated programs and argument vectors",
        "Every function of thousands of generated, type-checked programs (plus a directed operator-pair / unary-chain table) is executed by an "
        "independent reference interpreter on the source IR (left-to-right and right-to-left; undefined or order-dependent samples discarded) "
        "and on the emitted DirectX and Vulkan HLSL read back through the front end; return value, out/inout parameters and static globals "
        "must be bit identical. Exploration: held on the samples compared, which the evidence counts per feature.",
        "Trusts the interpreter's semantics (DESIGN appendix A) and uses rssl's own front end to read the emitted text (oracle iii): faults the "
        "front end repeats symmetrically are covered by C09/C04, not here. Shared transcendental kernels: only which intrinsic/arguments is checked.",
        "DESIGN.md §5 C01, appendix A",
    ),
    "C02": (
        "reference-model monitor: C-like reference interpreter (MSL dialect) over the Metal syntax tree from the exporter hook vs. irexec on the source IR; structural monitor of global threading",
        "Every function of thousands of generated programs (no double; namespaces with globals, nested namespaces, computed subscripts) and of directed call-graph / aliasing / scoping programs is executed on the "
        "source IR and on the Metal syntax tree the generator hands to the formatter (references, metal:: builtins, trampolines, threaded "
        "globals bound to harness storage): results, out/inout values and static/groupshared storage must be bit identical; the extra "
        "parameters of every emitted function must equal the globals it transitively needs (independent IR walk), by reference; a metamorphic "
        "table checks that const / row_major / column_major on a value that is only read never changes whether the Metal exporter accepts the function.",
        "No Metal compiler in the sandbox: the pre-print tree is interpreted. metal:: semantics from the MSL specification; cases where HLSL and Metal differ on NaN / zero sign are discarded.",
        "DESIGN.md §5 C02, appendix A",
    ),
    "C03": (
        "invariant monitor on returned state: independent re-typing of every accepted IR module + single-fault injection table",
        "Every module the type checker accepts (unit-test snippets, corpus, thousands of generated programs) is re-typed expression by "
        "expression by an independent checker written from the property, and the IR's own typing function is called on every expression "
        "under panic capture; so is whatever the type checker accepts of a conversion table (33 numeric types squared x in/out/inout argument, "
        "return, initialiser, assignment); a complete table of ~4000 programs carrying exactly one violation of the five named classes (each "
        "with an accepted twin; repeated swizzles also non-adjacent) must be rejected. Exploration; the negative table is enumerated completely in both tiers.",
        "Rules are the property's (with the documented untyped-literal relaxation); an ill-typed program outside the five classes is not detected.",
        "DESIGN.md §5 C03",
    ),
    "C04": (
        "differential monitor: second-generation compile of the emitted DirectX HLSL compared byte for byte and slot by slot",
        "For every accepted input (tests/ corpus entry files, all unit-test snippets, generated executable and declaration programs) the "
        "emitted DirectX HLSL is compiled again: it must be accepted, reproduce itself byte for byte and keep every resource on the same "
        "(group, slot, count). Exploration over the inputs counted in the evidence; three recorded findings are tolerated by narrow signatures.",
        "Only rssl's own front end reads the text back (no DXC in the sandbox). Known findings: known_findings.d/C04.json.",
        "DESIGN.md §5 C04",
    ),
    "C08": (
        "process-level runtime monitor: supervised child processes, panic/abort/step-budget classification over hostile generated inputs",
        "Every compile() execution of a large hostile workload (byte/token/structured soups, mutated unit-test snippets and corpus files, "
        "unsupported constructs, directed stress families, grammar-generated programs valid and with exactly one structural or token "
        "mutation, unfinished constructs and multi-byte characters at end of file) is observed in a child process built with overflow checks and debug assertions: "
        "outcome must be Ok or a non-empty rendered diagnostic within a polynomial logical-step budget. Held = no unlisted panic site, abort, "
        "budget overrun or watchdog on the executions observed; it is exploration, not proof.",
        "Trusts: tick sites cover all input-dependent loops (others only by the wall-clock watchdog); instrumented build behaves like release; "
        "known findings are keyed on (file, message) / input-shape signatures listed in known_findings.d/C08.json.",
        "DESIGN.md §5 C08, §2.2, §2.4",
    ),
}

CHECKS["C19"] = (
    "reference-model monitor: independent HLSL/Metal struct layout calculator vs. the verdict and message of layout validation",
    "For all flat structs with <= 3 members (10% slice in quick, all in thorough) and ~60k/1M random nested structs used as buffer element "
    "types, an independent layout calculator (cross-checked against clang on 3000 structs) decides whether HLSL and Metal layouts agree "
    "(size and every field offset): acceptance of an inconsistent layout, or a rejection reporting wrong sizes, is a violation.",
    "Trusts the reference layout rules (unpacked Metal vectors, re-checked on emitted MSL for 1 case in 8). Matrices/bool members not generated.",
    "DESIGN.md §5 C19",
)

CHECKS["C06"] = (
    "reference-model monitor: bump-allocator model of slot assignment + model-free invariants (disjoint, gap-free, declaration order) on assign_api_bindings and compile() metadata",
    "Every declaration sequence of length <= 2 over 356 options (10% in quick, all 127k in thorough) and thousands of random sequences of "
    "length 3-12, x 4 target configurations x default group 0..2 (+ no pipeline), is pushed through type_check + assign_api_bindings and "
    "(1 case in 8) the full compile(); slots, counts, groups and inline-constant blocks must equal an independent allocator model and "
    "satisfy overlap/gap/order invariants.",
    "Path (a) trusts the harness copy of the per-target binding parameters; the real mapping in compile.rs is exercised on path (b) only. Groups stay in 0..2.",
    "DESIGN.md §5 C06",
)
CHECKS["C11"] = (
    "reference-model monitor: independent C preprocessor automaton + u64 condition evaluator vs. the surviving token stream",
    "All directive sequences of length <= 5 (quick) / <= 6 (thorough) over the property's 12-symbol alphabet are enumerated exhaustively, plus "
    "random sequences of length 7-9, nested programs to depth 8 and random condition expressions to depth 5; the tokens that survive "
    "preprocessing (every text line carries an id and a macro use) must equal the reference, broken chains must be rejected.",
    "Trusts the reference preprocessor (self-checked against direct evaluation at start-up). Sequences C forbids have no reference value and are skipped.",
    "DESIGN.md §5 C11",
)

CHECKS["C16"] = (
    "invariant + differential monitor on the chosen FunctionId: order independence under all permutations, exact-match and non-domination against an independent rank table",
    "For ~24k (quick) / 120k (thorough) generated candidate sets of 2-5 overloads x argument tuples (plus 631 directed cases) the call is "
    "type-checked under permutations of the declaration order (all of them in thorough) and the selected candidate is read from the IR "
    "(second observation: assert_type): the outcome must not depend on order, a unique exact match must win, and the winner must not be "
    "dominated under a rank table written from the documented priority order (component-wise, and under the compiler's own numeric-before-shape "
    "order); a quarter of the cases declare the candidates as struct methods, and the same call made earlier in the file must not change the outcome.",
    "Viability of conversions is learned from casting.rs (documented in the check); rank trade-offs the documentation does not order are treated as incomparable.",
    "DESIGN.md §5 C16",
)

CHECKS["C05"] = (
    "invariant monitor relating returned metadata to the emitted source: independent scan of declarations/annotations and of call-graph reachability",
    "For thousands of generated resource/pipeline programs (plus corpus and unit-test snippets) x 4 targets x {no pipeline, all, each named "
    "pipeline}, every metadata binding is matched against the register / vk::binding / [[id(n)]] annotation, declared type, array length "
    "and bindless attribute of the declaration of that name in the emitted tree and text; stages (written in any order in the pipeline) "
    "must name the function the pipeline names for that stage, defined in the output with the reported thread-group size; is_used is compared with an independent reachability walk.",
    "Reachability is syntactic (certain / possible sets; undecided bindings are skipped). HLSL reports every binding used, so only 'reachable => used' is tested there.",
    "DESIGN.md §5 C05",
)
CHECKS["C07"] = (
    "differential monitor over repeated executions: 8 fresh threads + 3 child processes per input and target (fresh HashMap seeds)",
    "Each input of a workload built to put >= 4 elements into every hash-ordered container (name scopes, usage sets, implicit Metal "
    "parameters, inline constant blocks, argument buffers, include graphs) is compiled 11 times per target; sources, metadata, stages, "
    "pipeline state and diagnostics must be byte identical. A run whose container sizes stay small is inconclusive.",
    "An unsorted iteration over k >= 4 elements escapes 11 runs with probability < (1/24)^10. One defensive sort (argument buffer) is an equivalent mutant and cannot be observed.",
    "DESIGN.md §5 C07",
)
CHECKS["C09"] = (
    "differential monitor: print -> parse -> structural tree comparison (astcmp) over enumerated and random syntax trees, exporter trees and parser trees",
    "All (outer slot, inner operator) pairs, all unary/cast/postfix chains of depth 3 and (thorough) all 316k depth-3 nestings are enumerated, "
    "plus random expressions to depth 6, statements, declarations and literal sweeps, printed for the Rssl/Hlsl/Msl targets and read back; "
    "the exporters' own trees for the corpus and ~5700 parser-produced definitions are round-tripped too.",
    "Uses rssl's parser to read the text back; one recorded finding (template-call reading of `a < b > (c)`) is tolerated by a line-shape signature.",
    "DESIGN.md §5 C09",
)
CHECKS["C10"] = (
    "reference-model monitor: span tiling invariant, exact literal reference (big-integer decimal conversion) and output-value monitor",
    "640k (quick) / 8M (thorough) generated cases: texts over every token kind with trivia and both line endings must tile exactly and "
    "unlex back; integer spellings to 25 digits and float spellings to 20 significant digits / exponents -330..310 must produce exactly the "
    "reference value (or be rejected when >= 2^64); literals placed in programs must print a literal denoting the same value.",
    "Rust's float parser is cross-checked by an independent big-integer conversion on every generated float. Output leg: scalar contexts, DirectX only.",
    "DESIGN.md §5 C10",
)
CHECKS["C12"] = (
    "reference-model monitor: independent C99 6.10.3 macro expander (two rescanning models side by side) and textual-paste include model vs. the preprocessor's token stream",
    "60k macro programs, 20k include graphs and all splits of define lists between compile() arguments and #define lines per quick run: the "
    "token stream after preprocessing must equal the reference wherever the two reference models agree; API defines must behave like #define lines.",
    "Regions where C is unspecified or rssl documents its own behaviour are answered 'undecided' and skipped (counted).",
    "DESIGN.md §5 C12",
)
CHECKS["C13"] = (
    "reference-model monitor: independent constant evaluator vs. values observed in seven constant-demanding positions (assert_eval, static const, array size, enum value, case label, template argument, numthreads)",
    "The complete operator x boundary-operand table (70k cases quick, 167k thorough) and random constant trees to depth 5 are placed in the "
    "positions that demand a constant; the folded value must equal the reference (wrapping 32-bit int/uint, exact literals, masked shifts), "
    "division by zero must be 'not constant', nothing may panic.",
    "Cases HLSL leaves undefined (INT_MIN / -1, out-of-range float->int, half precision) have no reference value and are only required not to panic.",
    "DESIGN.md §5 C13",
)
CHECKS["C14"] = (
    "differential monitor: trivia insertion at token boundaries (own lexer) and line-shift tracking of diagnostics",
    "Thousands of base programs (unit-test snippets, tests/basic, generated macro/include programs) x trivia variants (also comments and "
    "splices in front of a directive's #, comment texts beginning with / or *) must give the same "
    "verdict and payload; programs with one injected error (28 kinds, also inside included files) x k in 0..50 inserted lines must report "
    "the same message, file and column with the line moved by exactly k.",
    "Token boundaries come from the harness's own conservative lexer (unsure runs are merged, so some boundaries are never exercised).",
    "DESIGN.md §5 C14",
)
CHECKS["C17"] = (
    "differential monitor: whole file vs. by name vs. file with the other pipelines blanked, per target",
    "Generated files with 0-4 pipelines (compute, vertex+pixel, mesh+pixel, task+mesh+pixel) sharing entry points, helpers, globals and "
    "resources are compiled in all modes on 4 targets: result count and order, equality of everything observable between All / Named / "
    "alone, clean errors for unknown names and pipeline-less files, exactly one result in no-pipeline mode, and that result unchanged when every "
    "pipeline definition is blanked out.",
    "Backend rejections (e.g. mesh intrinsics on Metal) are compared as outcomes, not excluded.",
    "DESIGN.md §5 C17",
)

CHECKS["C15"] = (
    "differential monitor over injective renamings + invariant monitors on the emitted declarations (independent reserved-name lists, scope clashes) + execution of the renamed program",
    "Generated programs with identifier placeholders are rendered under a neutral and a second injective naming (fresh, or adversarial: "
    "reserved words / built-in names of both targets, <name>_N forms, the exporters' own generated names, coordinated pairs of a renamed "
    "global and locals spelled like its generated names, names shared between namespaces, locals and globals): for fresh names the HLSL and "
    "Metal outputs must be identical up to the renaming; no emitted declaration may carry a reserved name (oracle's own lists), no two "
    "entities of a scope may share a name, fresh unique names must be kept verbatim, and the renamed program must still compute the same (C01/C02 oracles).",
    "Reserved lists were written for the oracle from the language references. Recorded findings (members / enumerators are never protected; a generated name clashing with an enumerator; Metal passes mutable globals as parameters named by their leaf name) are tolerated by mechanism-level signatures; executions of Metal output are skipped where that last finding applies.",
    "DESIGN.md §5 C15",
)
CHECKS["C18"] = (
    "differential monitor across the four target configurations (front-end diagnostics, DX/VK verdicts, token-level source comparison after stripping binding annotations, reported stages/state/binding sets)",
    "~25k generated programs (a quarter broken on purpose; resources also declared through typedefs of object and array types) plus corpus and unit-test snippets that do not mention RSSL_TARGET_* are compiled "
    "for all four configurations: a front-end rejection must be the identical diagnostic everywhere, DirectX and Vulkan succeed or fail "
    "together and differ only in binding/attribute annotations and buffer-address lowering, and stages, thread-group sizes, pipeline state "
    "and the set of (binding name, kind, count) agree.",
    "Metal is excluded for programs its backend rejects with a diagnostic. One recorded finding (per-target renaming of a reserved binding name) conflicts with C05's requirement and stays open.",
    "DESIGN.md §5 C18",
)

NOT_YET = {}

def main():
    props = [json.loads(l) for l in open(os.path.join(HERE, "properties.jsonl"))]
    try:
        commits = subprocess.check_output(["git", "-C", "/repo", "log", "--format=%H %s"], text=True).splitlines()
    except Exception:
        commits = []
    hook_commits = [c.split()[0] for c in commits if "verif-hooks" in c]
    checks = []
    na = []
    for p in props:
        pid = p["id"]
        if pid in CHECKS:
            tech, text, note, ref = CHECKS[pid]
            checks.append({
                "property_id": pid,
                "quick_cmd": f"./check {pid} quick",
                "thorough_cmd": f"./check {pid} thorough",
                "evidence_file": f"/verif/evidence/{pid}.json",
                "replay_cmd_template": f"./check {pid} --replay {{path}}",
                "engine": "verif-harness",
                "level_claimed": {"category": "exploration", "text": text, "design_ref": ref},
                "level_note": note,
                "technique": tech,
            })
        else:
            na.append({"property_id": pid, "reason": NOT_YET.get(pid, "check not built yet in this round; nothing is claimed for this property")})
    manifest = {
        "version": 1,
        "setup_cmd": "./setup.sh",
        "hooks": {
            "guard": "cargo feature verif-hooks (crates rssl, rssl-text, rssl-preprocess, rssl-parser, rssl-typer, rssl-ir, rssl-hlsl, rssl-msl)",
            "enable": "the harness crate depends on rssl = { path = \"/repo\", features = [\"verif-hooks\"] }; ./check rebuilds it from /repo's working tree",
            "baseline_off_cmd": "cd /repo && cargo test --workspace --no-fail-fast --offline",
            "source_commits": hook_commits,
            "add_only": True,
        },
        "engines": [{
            "name": "verif-harness",
            "path": "/verif/harness",
            "serves_properties": sorted(CHECKS.keys()),
            "kind_free_text": "Rust binary linking the real rssl crates (instrumented profile: overflow checks + debug assertions, feature verif-hooks); "
                              "workload generators, reference-model / invariant / differential monitors, child-process monitor; writes evidence/<id>.json",
        }],
        "checks": checks,
        "not_applicable": na,
        "notes": "Runtime monitoring: every verdict is 'held on the executions observed'. Exit 2 + INCONCLUSIVE is used when a run observed too little or the harness could not build. "
                 "Known findings and fixes: /verif/known_findings.d/<property>.json (open findings with witnesses; repaired ones carry the record \"fixed: property=<id> <commit> <what failed>\"). See DESIGN.md 9.4 / 9.5.",
    }
    with open(os.path.join(HERE, "MANIFEST.json"), "w") as f:
        json.dump(manifest, f, indent=1)
        f.write("\n")

if __name__ == "__main__":
    main()
