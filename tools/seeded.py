#!/usr/bin/env python3
"""Confirm an independently seeded change and run the checks against it.

usage: tools/seeded.py <PROPERTY_ID> <dir with patch.diff, demo.rs, notes.md> [--checks C01,C04] [--tier quick]

1. scratch worktree of /repo (outside /repo and /verif): the demonstration passes on the unchanged tree,
   fails with the patch; the repository's own test suite still passes with the patch.
2. apply the patch to /repo, run the owning check (and any extra checks), undo it straight afterwards.
3. store patch, demonstration and meta.json under /verif/seeded/<name>/ ; remove the worktree.
"""
import json, os, shutil, subprocess, sys, time

def sh(cmd, cwd=None, timeout=3600):
    p = subprocess.run(cmd, shell=True, cwd=cwd, stdout=subprocess.PIPE, stderr=subprocess.STDOUT, text=True, timeout=timeout)
    return p.returncode, p.stdout

def test_counts(out):
    passed = failed = 0
    for line in out.splitlines():
        if line.startswith("test result:"):
            parts = line.split()
            passed += int(parts[3]); failed += int(parts[5])
    return passed, failed

def main():
    pid = sys.argv[1]
    src = sys.argv[2]
    checks = [pid]
    tier = "quick"
    name = pid
    phase = "both"
    args = sys.argv[3:]
    while args:
        a = args.pop(0)
        if a == "--checks": checks = args.pop(0).split(",")
        elif a == "--tier": tier = args.pop(0)
        elif a == "--name": name = args.pop(0)
        elif a == "--phase": phase = args.pop(0)   # confirm | check | both (the confirm phases of several changes can run side by side)
    patch = os.path.abspath(os.path.join(src, "patch.diff"))
    demo = os.path.join(src, "demo.rs")
    meta = {"property": pid, "source_dir": src, "when": time.strftime("%Y-%m-%d %H:%M:%S")}
    dst = os.path.join("/verif/seeded", name)
    if phase == "check":
        meta = json.load(open(os.path.join(dst, "meta.json")))
    wt = "/tmp/sv-%s" % name.lower()
    if phase != "check":
      sh("git -C /repo worktree remove --force %s" % wt)
      rc, out = sh("git -C /repo worktree add %s HEAD" % wt)
      if rc != 0:
        print(out); sys.exit(2)
      try:
        shutil.copy(demo, os.path.join(wt, "tests", "seed_demo.rs"))
        rc0, out0 = sh("cargo test --offline --test seed_demo 2>&1 | tail -15", cwd=wt)
        p0, f0 = test_counts(out0)
        meta["demo_unchanged"] = {"passed": p0, "failed": f0}
        rc, out = sh("git apply %s" % patch, cwd=wt)
        if rc != 0:
            meta["error"] = "patch does not apply: " + out[-300:]
            print(json.dumps(meta, indent=1)); return
        rc1, out1 = sh("cargo test --offline --test seed_demo 2>&1 | tail -25", cwd=wt)
        p1, f1 = test_counts(out1)
        if f1 == 0 and ("process didn't exit successfully" in out1 or "SIGABRT" in out1 or "overflowed its stack" in out1):
            f1 = 1  # the demonstration aborted the test process (stack overflow, abort): it did fail
        meta["demo_with_patch"] = {"passed": p1, "failed": f1, "tail": out1[-600:]}
        os.remove(os.path.join(wt, "tests", "seed_demo.rs"))
        rc2, out2 = sh("cargo test --workspace --no-fail-fast --offline 2>&1", cwd=wt)
        p2, f2 = test_counts(out2)
        meta["suite_with_patch"] = {"passed": p2, "failed": f2}
        meta["confirmed"] = bool(p0 > 0 and f0 == 0 and f1 > 0 and p2 == 382 and f2 == 0)
      finally:
        sh("git -C /repo worktree remove --force %s" % wt)
    # run the checks against /repo with the patch applied
    results = {}
    rc, out = sh("git -C /repo status --porcelain")
    if phase == "confirm":
        results = meta.get("checks", {})
    elif out.strip():
        meta["error"] = "/repo has uncommitted changes; refusing to apply"
    else:
        # the checks run from a snapshot of /verif (own build directory), so that work on the harness can go on meanwhile
        snap = "/tmp/verif-snapshot"
        sh("mkdir -p %s && rsync -a --delete --exclude target --exclude replays --exclude .git /verif/ %s/" % (snap, snap))
        rc, out = sh("git -C /repo apply %s" % patch)
        try:
            for c in checks:
                t0 = time.time()
                rc, out = sh("./check %s %s" % (c, tier), cwd=snap, timeout=7200)
                lines = [l for l in out.splitlines() if l.startswith(("VIOLATION", "HELD", "INCONCLUSIVE")) or l.startswith("  [")]
                results[c] = {"exit": rc, "seconds": round(time.time() - t0, 1), "lines": lines[:12]}
        finally:
            sh("git -C /repo checkout -- .")
            sh("git -C /repo status --porcelain")
    meta["checks"] = results
    meta["detected_by"] = [c for c, r in results.items() if r["exit"] == 1]
    dst = os.path.join("/verif/seeded", name)
    os.makedirs(dst, exist_ok=True)
    shutil.copy(patch, os.path.join(dst, "patch.diff"))
    shutil.copy(demo, os.path.join(dst, "demo.rs"))
    notes = os.path.join(src, "notes.md")
    if os.path.exists(notes):
        shutil.copy(notes, os.path.join(dst, "notes.md"))
        meta["needs_to_manifest"] = open(notes).read()[:1500]
    meta["what_was_run"] = "scratch worktree: demo without/with patch, repository suite with patch; then `git -C /repo apply patch.diff`, `./check <id> %s` for %s, `git -C /repo checkout -- .`" % (tier, ",".join(checks))
    json.dump(meta, open(os.path.join(dst, "meta.json"), "w"), indent=1)
    print(json.dumps({k: meta[k] for k in ("property", "confirmed", "detected_by", "checks") if k in meta}, indent=1))

if __name__ == "__main__":
    main()
