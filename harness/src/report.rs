//! What a check run observed: counts, distinct cases, samples, violations; merge across workers;
//! final verdict (three valued), known-finding handling and the evidence file.

use crate::json::Json;
use std::collections::{BTreeMap, HashSet};

#[derive(Clone, Copy, PartialEq, Eq, Debug)]
pub enum Tier {
    Quick,
    Thorough,
}

impl Tier {
    pub fn name(self) -> &'static str {
        match self {
            Tier::Quick => "quick",
            Tier::Thorough => "thorough",
        }
    }
    /// Pick a count by tier
    pub fn pick(self, quick: u64, thorough: u64) -> u64 {
        match self {
            Tier::Quick => quick,
            Tier::Thorough => thorough,
        }
    }
}

/// Run context of a check
#[derive(Clone, Debug)]
pub struct Ctx {
    pub tier: Tier,
    pub seed: u64,
    pub threads: usize,
    /// Workload deadline (seconds since start of the check); workers stop taking new cases after it
    pub deadline_s: f64,
    pub start: std::time::Instant,
}

impl Ctx {
    pub fn expired(&self) -> bool {
        self.start.elapsed().as_secs_f64() > self.deadline_s
    }
}

#[derive(Clone, Debug)]
pub struct Violation {
    /// Stable class of the failure - known findings are keyed on this
    pub signature: String,
    /// One line for humans
    pub summary: String,
    /// Everything needed to replay: the exact input, configuration, and what the monitor saw
    pub witness: Json,
}

#[derive(Default)]
pub struct Report {
    /// Executions of the real code that a monitor observed
    pub evaluations: u64,
    /// Content hashes of distinct non trivial cases (rule is stated per check)
    pub distinct: HashSet<u64>,
    /// A few cases written out in full
    pub samples: Vec<Json>,
    /// Feature histograms: what the monitors actually saw
    pub counters: BTreeMap<String, u64>,
    pub violations: Vec<Violation>,
    /// Number of violations per signature (violations itself is capped per signature)
    pub violation_counts: BTreeMap<String, u64>,
    /// Reasons the run cannot be called "held"
    pub inconclusive: Vec<String>,
    /// Part of the space that was enumerated completely (if any)
    pub exhaustive: Option<bool>,
    pub notes: Vec<String>,
}

pub const MAX_SAMPLES: usize = 5;
pub const MAX_VIOLATIONS_PER_SIGNATURE: u64 = 3;

impl Report {
    pub fn new() -> Report {
        Report::default()
    }

    pub fn count(&mut self, key: &str) {
        *self.counters.entry(key.to_string()).or_insert(0) += 1;
    }

    pub fn count_n(&mut self, key: &str, n: u64) {
        *self.counters.entry(key.to_string()).or_insert(0) += n;
    }

    /// Record a maximum under a key
    pub fn max(&mut self, key: &str, v: u64) {
        let e = self.counters.entry(key.to_string()).or_insert(0);
        if v > *e {
            *e = v;
        }
    }

    pub fn sample(&mut self, s: Json) {
        if self.samples.len() < MAX_SAMPLES {
            self.samples.push(s);
        }
    }

    pub fn want_sample(&self) -> bool {
        self.samples.len() < MAX_SAMPLES
    }

    pub fn distinct(&mut self, hash: u64) {
        self.distinct.insert(hash);
    }

    pub fn violation(&mut self, signature: &str, summary: &str, witness: Json) {
        let n = self.violation_counts.entry(signature.to_string()).or_insert(0);
        *n += 1;
        if *n <= MAX_VIOLATIONS_PER_SIGNATURE {
            self.violations.push(Violation {
                signature: signature.to_string(),
                summary: summary.to_string(),
                witness,
            });
        }
    }

    pub fn inconclusive(&mut self, reason: &str) {
        if self.inconclusive.len() < 20 && !self.inconclusive.iter().any(|r| r == reason) {
            self.inconclusive.push(reason.to_string());
        }
    }

    pub fn merge(&mut self, other: Report) {
        self.evaluations += other.evaluations;
        self.distinct.extend(other.distinct);
        for s in other.samples {
            self.sample(s);
        }
        for (k, v) in other.counters {
            if k.starts_with("max:") {
                let e = self.counters.entry(k).or_insert(0);
                if v > *e {
                    *e = v;
                }
            } else {
                *self.counters.entry(k).or_insert(0) += v;
            }
        }
        for (k, v) in other.violation_counts {
            *self.violation_counts.entry(k).or_insert(0) += v;
        }
        for v in other.violations {
            let kept = self.violations.iter().filter(|x| x.signature == v.signature).count() as u64;
            if kept < MAX_VIOLATIONS_PER_SIGNATURE {
                self.violations.push(v);
            }
        }
        for r in other.inconclusive {
            self.inconclusive(&r);
        }
        if let Some(e) = other.exhaustive {
            self.exhaustive = Some(self.exhaustive.unwrap_or(true) && e);
        }
        for n in other.notes {
            if self.notes.len() < 20 && !self.notes.contains(&n) {
                self.notes.push(n);
            }
        }
    }
}
