//! Worker pool over case indices, and panic capture.
//!
//! rssl is single threaded and has no shared mutable state (the tick counter and the syntax tree
//! recorder of the hooks are thread local), so independent cases run on independent threads.

use crate::report::{Ctx, Report};
use std::cell::RefCell;
use std::sync::atomic::{AtomicU64, Ordering};

pub const WORKER_STACK: usize = 256 << 20;

thread_local! {
    static LAST_PANIC: RefCell<Option<(String, String)>> = const { RefCell::new(None) };
    static QUIET: RefCell<bool> = const { RefCell::new(false) };
}

/// Install a panic hook which records (location, message) per thread and prints nothing while a guard is active
pub fn install_panic_hook() {
    let default = std::panic::take_hook();
    std::panic::set_hook(Box::new(move |info| {
        let loc = match info.location() {
            Some(l) => format!("{}:{}", l.file(), l.line()),
            None => "unknown".to_string(),
        };
        let msg = if let Some(s) = info.payload().downcast_ref::<&str>() {
            s.to_string()
        } else if let Some(s) = info.payload().downcast_ref::<String>() {
            s.clone()
        } else if let Some(b) = info.payload().downcast_ref::<rssl::text::verif::BudgetExceeded>() {
            format!("BudgetExceeded site={} ticks={}", b.site, b.ticks)
        } else {
            "non-string panic payload".to_string()
        };
        LAST_PANIC.with(|p| *p.borrow_mut() = Some((loc, msg)));
        if !QUIET.with(|q| *q.borrow()) {
            default(info);
        }
    }));
}

#[derive(Clone, Debug, PartialEq)]
pub struct Caught {
    /// file:line of the panic
    pub location: String,
    pub message: String,
    /// Set when the panic was the tick budget
    pub budget_site: Option<u32>,
}

impl Caught {
    /// (file basename, message with digits normalised): the key used to tell panic sites apart
    pub fn signature(&self) -> String {
        let file = self.location.rsplit('/').next().unwrap_or(&self.location);
        let file = file.split(':').next().unwrap_or(file);
        let mut msg = String::new();
        let mut last_digit = false;
        for c in self.message.chars().take(120) {
            if c.is_ascii_digit() {
                if !last_digit {
                    msg.push('N');
                }
                last_digit = true;
            } else {
                last_digit = false;
                msg.push(if c == '\n' { ' ' } else { c });
            }
        }
        format!("{}: {}", file, msg)
    }
}

/// Run f, turning a panic into a value. Panics are silent while the guard is active.
pub fn guard<T>(f: impl FnOnce() -> T) -> Result<T, Caught> {
    let was_quiet = QUIET.with(|q| std::mem::replace(&mut *q.borrow_mut(), true));
    LAST_PANIC.with(|p| *p.borrow_mut() = None);
    let r = std::panic::catch_unwind(std::panic::AssertUnwindSafe(f));
    QUIET.with(|q| *q.borrow_mut() = was_quiet);
    match r {
        Ok(v) => Ok(v),
        Err(payload) => {
            let budget_site = payload.downcast_ref::<rssl::text::verif::BudgetExceeded>().map(|b| b.site);
            let (location, message) = LAST_PANIC.with(|p| p.borrow_mut().take()).unwrap_or(("unknown".into(), "unknown".into()));
            Err(Caught {
                location,
                message,
                budget_site,
            })
        }
    }
}

/// Run `f(index, &mut report)` for index in 0..n on ctx.threads workers (big stacks) and merge the reports.
/// Workers stop taking new indices once the deadline has passed; the number actually run is in
/// counter "cases_run" and a shortened run is noted.
/// A panic escaping `f` is a harness problem (rssl calls are wrapped with `guard` by the checks) and
/// makes the run inconclusive.
pub fn run_cases<F>(ctx: &Ctx, n: u64, f: F) -> Report
where
    F: Fn(u64, &mut Report) + Sync,
{
    let next = AtomicU64::new(0);
    let mut total = Report::new();
    let threads = ctx.threads.max(1);
    let chunk: u64 = if n / (threads as u64) > 64 { 8 } else { 1 };
    std::thread::scope(|scope| {
        let mut handles = Vec::new();
        for _ in 0..threads {
            let next = &next;
            let f = &f;
            let h = std::thread::Builder::new()
                .stack_size(WORKER_STACK)
                .spawn_scoped(scope, move || {
                    let mut report = Report::new();
                    loop {
                        if ctx.expired() {
                            break;
                        }
                        let start = next.fetch_add(chunk, Ordering::Relaxed);
                        if start >= n {
                            break;
                        }
                        for index in start..(start + chunk).min(n) {
                            match guard(|| f(index, &mut report)) {
                                Ok(()) => {}
                                Err(c) => {
                                    report.inconclusive(&format!("harness panic in case {}: {} at {}", index, c.message, c.location));
                                }
                            }
                            report.count("cases_run");
                        }
                    }
                    report
                })
                .expect("spawn worker");
            handles.push(h);
        }
        for h in handles {
            match h.join() {
                Ok(r) => total.merge(r),
                Err(_) => total.inconclusive("worker thread died"),
            }
        }
    });
    let run = total.counters.get("cases_run").copied().unwrap_or(0);
    if run < n {
        total.notes.push(format!("deadline reached: ran {} of {} planned cases", run, n));
        if total.exhaustive == Some(true) {
            total.exhaustive = Some(false);
        }
    }
    total
}
