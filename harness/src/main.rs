//! Driver of the runtime-monitoring checks for Trark/rssl. See /verif/DESIGN.md.
//!
//! usage: verif-harness <ID> quick|thorough
//!        verif-harness <ID> --replay <witness.json>
//! exit 0 = held on everything explored, 1 = VIOLATION, 2 = INCONCLUSIVE

#![allow(clippy::all)]
#![allow(dead_code)]

mod checks;
mod corpus;
mod gen;
mod json;
mod oracle;
mod par;
mod report;
mod rng;
mod rs;

use json::Json;
use report::{Ctx, Report, Tier};

pub struct CheckDef {
    pub id: &'static str,
    /// Salt mixed into VERIF_SEED
    pub salt: u64,
    pub rule: &'static str,
    pub assumptions: &'static [&'static str],
    /// Fewer distinct non trivial cases than this (quick, thorough) makes the run inconclusive
    pub min_distinct: (u64, u64),
    /// Workload deadline in seconds (quick, thorough)
    pub deadline_s: (f64, f64),
    pub run: fn(&Ctx) -> Report,
    /// Re-examine one recorded witness with the same monitors
    pub replay: fn(&Ctx, &Json) -> Report,
}

pub fn verif_dir() -> std::path::PathBuf {
    if let Ok(d) = std::env::var("VERIF_DIR") {
        return d.into();
    }
    // harness binary lives in <verif>/harness/target/release
    let exe = std::env::current_exe().unwrap_or_default();
    let mut p = exe.clone();
    for _ in 0..4 {
        p.pop();
    }
    if p.join("known_findings.json").exists() {
        p
    } else {
        "/verif".into()
    }
}

fn main() {
    let args: Vec<String> = std::env::args().collect();
    if args.len() >= 3 && args[1] == "worker" && args[2] == "c07" {
        // child process mode of the determinism monitor (C07)
        checks::c07::worker_main(&args[3..]);
        return;
    }
    if args.len() >= 2 && args[1] == "worker" {
        // child process mode used by the process monitor (C08)
        checks::c08::worker_main(&args[2..]);
        return;
    }
    if args.len() >= 3 && args[1] == "c08min" {
        checks::c08::minimize_main(&args[2..]);
        return;
    }
    if args.len() >= 4 && args[1] == "genprog" {
        let (t, f) = checks::c01::generated_program(args[2].parse().unwrap_or(1), args[3].parse().unwrap_or(0));
        println!("// features: {:?}\n{}", f, t);
        return;
    }
    if args.len() >= 3 && args[1] == "dumpnames" {
        let list = if args[2] == "msl" { oracle::names::msl_reserved() } else { oracle::names::hlsl_reserved() };
        for n in list {
            println!("{}", n);
        }
        return;
    }
    if args.len() >= 4 && args[1] == "dumptree" {
        par::install_panic_hook();
        let text = std::fs::read_to_string(&args[3]).expect("read");
        let t = rs::Tgt::from_name(&args[2]);
        match rs::compile_text(&text, &rs::Opts::new(t, rs::Mode::NoPipeline)) {
            rs::Outcome::Ok(p) => println!("{:#?}", p[0].tree),
            o => println!("{}", o.brief()),
        }
        return;
    }
    if args.len() >= 3 && args[1] == "dump" {
        dump(&args[2]);
        return;
    }
    if args.len() < 3 {
        eprintln!("usage: verif-harness <ID> quick|thorough | <ID> --replay <path>");
        std::process::exit(2);
    }
    par::install_panic_hook();
    let id = args[1].to_uppercase();
    let Some(def) = checks::all().into_iter().find(|d| d.id == id) else {
        eprintln!("unknown check {}", id);
        std::process::exit(2);
    };
    let seed: u64 = std::env::var("VERIF_SEED").ok().and_then(|s| s.trim().parse::<i64>().ok()).map(|v| v as u64).unwrap_or(1);
    let threads: usize = std::env::var("VERIF_THREADS")
        .ok()
        .and_then(|s| s.parse().ok())
        .unwrap_or_else(|| std::thread::available_parallelism().map(|n| n.get()).unwrap_or(8).min(16));

    let replay_path = if args[2] == "--replay" { args.get(3).cloned() } else { None };
    let tier = if args[2] == "thorough" { Tier::Thorough } else { Tier::Quick };
    let scale: f64 = std::env::var("VERIF_DEADLINE_SCALE").ok().and_then(|s| s.parse().ok()).unwrap_or(1.0);
    let ctx = Ctx {
        tier,
        seed: seed ^ def.salt,
        threads,
        deadline_s: scale * if tier == Tier::Quick { def.deadline_s.0 } else { def.deadline_s.1 },
        start: std::time::Instant::now(),
    };

    if let Some(path) = replay_path {
        let text = std::fs::read_to_string(&path).unwrap_or_else(|e| {
            eprintln!("cannot read {}: {}", path, e);
            std::process::exit(2)
        });
        let j = json::parse(&text).unwrap_or_else(|e| {
            eprintln!("cannot parse {}: {}", path, e);
            std::process::exit(2)
        });
        let witness = j.get("witness").cloned().unwrap_or(j);
        let report = (def.replay)(&ctx, &witness);
        if report.violations.is_empty() {
            println!("replay: no violation observed ({} evaluations)", report.evaluations);
            for r in &report.inconclusive {
                println!("INCONCLUSIVE property={} reason={}", def.id, r);
            }
            std::process::exit(if report.inconclusive.is_empty() { 0 } else { 2 });
        }
        for v in &report.violations {
            println!("replay: [{}] {}", v.signature, v.summary);
        }
        println!("VIOLATION property={} replay={}", def.id, path);
        std::process::exit(1);
    }

    let mut report = (def.run)(&ctx);
    let wall = ctx.start.elapsed().as_secs_f64();
    let vdir = verif_dir();

    // ---- known findings ------------------------------------------------------------------
    let known = load_known(&vdir, def.id);
    let mut open_signatures: Vec<String> = Vec::new();
    let mut known_lines: Vec<String> = Vec::new();
    for kf in &known {
        let status = kf.get_str("status").unwrap_or("");
        let sig = kf.get_str("signature").unwrap_or("").to_string();
        let what = kf.get_str("what").unwrap_or("");
        let kid = kf.get_str("id").unwrap_or("KF");
        let Some(witness) = kf.get("witness") else { continue };
        let replay_ctx = Ctx {
            start: std::time::Instant::now(),
            deadline_s: 600.0,
            ..ctx.clone()
        };
        let r = (def.replay)(&replay_ctx, witness);
        let reproduced = r.violations.iter().any(|v| v.signature == sig);
        if status == "open" {
            open_signatures.push(sig.clone());
            if reproduced {
                known_lines.push(format!("KNOWN-FINDING: property={} {} {}", def.id, kid, what));
            } else {
                println!("NOTE: known finding {} ({}) did not reproduce on this tree", kid, sig);
            }
            // any *other* violation while replaying the witness is a different problem
            for v in r.violations {
                if v.signature != sig {
                    report.violation(&v.signature, &v.summary, v.witness);
                }
            }
        } else if status == "fixed" {
            report.count("fixed_findings_replayed");
            // regression: a fixed finding suppresses nothing
            for v in r.violations {
                report.violation(&v.signature, &format!("regression of fixed finding {}: {}", kid, v.summary), v.witness);
            }
        }
        for i in r.inconclusive {
            report.inconclusive(&format!("while replaying {}: {}", kid, i));
        }
    }

    let mut fresh: Vec<&report::Violation> = Vec::new();
    let mut known_hits: std::collections::BTreeMap<String, u64> = Default::default();
    for v in &report.violations {
        if open_signatures.iter().any(|s| s == &v.signature) {
            *known_hits.entry(v.signature.clone()).or_insert(0) += 1;
        } else {
            fresh.push(v);
        }
    }

    // ---- verdict ---------------------------------------------------------------------------
    let min_distinct = if tier == Tier::Quick { def.min_distinct.0 } else { def.min_distinct.1 };
    let distinct = report.distinct.len() as u64;
    let mut inconclusive = report.inconclusive.clone();
    if distinct < min_distinct {
        inconclusive.push(format!("observed only {} distinct non-trivial cases (need {})", distinct, min_distinct));
    }

    let replay_dir = vdir.join("replays");
    let _ = std::fs::create_dir_all(&replay_dir);
    let mut violation_lines = Vec::new();
    let mut seen_sig: Vec<&str> = Vec::new();
    for (n, v) in fresh.iter().enumerate() {
        let path = replay_dir.join(format!("{}-{}-{}-{}.json", def.id, tier.name(), seed, n));
        let j = Json::obj()
            .set("property", def.id)
            .set("signature", &v.signature)
            .set("summary", &v.summary)
            .set("seed", seed)
            .set("witness", v.witness.clone());
        let _ = std::fs::write(&path, j.to_string_pretty());
        if !seen_sig.contains(&v.signature.as_str()) {
            seen_sig.push(&v.signature);
            println!("  [{}] {}", v.signature, v.summary);
            violation_lines.push(format!("VIOLATION property={} replay={}", def.id, path.display()));
        }
    }

    // ---- evidence --------------------------------------------------------------------------
    let mut coverage = Json::obj()
        .set("evaluations", report.evaluations)
        .set("distinct_nontrivial", distinct)
        .set("rule", def.rule)
        .set("samples", Json::Arr(report.samples.clone()))
        .set("observed", Json::from(&report.counters));
    if let Some(e) = report.exhaustive {
        coverage.put("exhaustive", e);
    }
    coverage.put("notes", Json::from(report.notes.clone()));
    coverage.put("inconclusive_reasons", Json::from(inconclusive.clone()));
    coverage.put("known_findings_reported", Json::from(known_lines.clone()));
    coverage.put("violation_signatures", Json::from(&report.violation_counts));
    coverage.put("threads", threads);
    let evidence = Json::obj()
        .set("property_id", def.id)
        .set("tier", tier.name())
        .set("seed", Json::Int(seed as i64))
        .set("level", "exploration")
        .set("coverage", coverage)
        .set("assumptions", Json::Arr(def.assumptions.iter().map(|s| Json::str(s)).collect()))
        .set("wall_s", (wall * 100.0).round() / 100.0)
        .set("violations", fresh.len());
    let edir = vdir.join("evidence");
    let _ = std::fs::create_dir_all(&edir);
    let epath = edir.join(format!("{}.json", def.id));
    if let Err(e) = std::fs::write(&epath, evidence.to_string_pretty()) {
        eprintln!("cannot write evidence {}: {}", epath.display(), e);
    }

    println!(
        "{} {} seed={} evaluations={} distinct={} wall={:.1}s",
        def.id,
        tier.name(),
        seed,
        report.evaluations,
        distinct,
        wall
    );
    for n in &report.notes {
        println!("NOTE: {}", n);
    }
    for l in &known_lines {
        println!("{}", l);
    }
    if !violation_lines.is_empty() {
        for l in &violation_lines {
            println!("{}", l);
        }
        std::process::exit(1);
    }
    if !inconclusive.is_empty() {
        for r in &inconclusive {
            println!("INCONCLUSIVE property={} reason={}", def.id, r);
        }
        std::process::exit(2);
    }
    println!("HELD property={} on everything explored", def.id);
}

fn load_known(vdir: &std::path::Path, id: &str) -> Vec<Json> {
    // /verif/known_findings.json plus one optional file per property under /verif/known_findings.d/
    let mut paths = vec![vdir.join("known_findings.json")];
    paths.push(vdir.join("known_findings.d").join(format!("{}.json", id)));
    let mut out = Vec::new();
    for path in paths {
        let Ok(text) = std::fs::read_to_string(&path) else { continue };
        let j = match json::parse(&text) {
            Ok(j) => j,
            Err(e) => {
                eprintln!("{} does not parse: {}", path.display(), e);
                println!("INCONCLUSIVE property={} reason=known findings file does not parse", id);
                std::process::exit(2);
            }
        };
        if let Some(list) = j.get("findings").and_then(|f| f.as_arr()) {
            for f in list {
                if f.get_str("property") == Some(id) {
                    out.push(f.clone());
                }
            }
        }
    }
    out
}

/// Developer aid: print what rssl makes of a file (IR of every function, HLSL and MSL output)
fn dump(path: &str) {
    par::install_panic_hook();
    let text = std::fs::read_to_string(path).expect("read");
    match rs::front_text(&text, true) {
        rs::Front::Ok((_ast, Some(ir))) => {
            for id in ir.function_registry.iter() {
                if let Some(imp) = ir.function_registry.get_function_implementation(id) {
                    println!("== fn {} {:?}", ir.function_registry.get_function_name(id), ir.function_registry.get_function_signature(id));
                    for p in &imp.params {
                        println!("   param {:?}", p);
                    }
                    for st in &imp.scope_block.0 {
                        println!("   {:?}", st.kind);
                    }
                }
            }
            for (i, g) in ir.global_registry.iter().enumerate() {
                if !g.is_intrinsic {
                    println!("== global {} {} : {} init={:?} constexpr={:?}", i, g.name.node, ir.get_type_name_short(g.type_id), g.init, g.constexpr_value);
                }
            }
        }
        rs::Front::Ok(_) => {}
        rs::Front::Diag(d) => println!("front end: {}", d),
        rs::Front::Panic(c) => println!("front end PANIC {:?}", c),
    }
    for t in if std::env::var("DUMP_ALL").is_ok() { vec![rs::Tgt::Dx, rs::Tgt::Vk, rs::Tgt::VkBa, rs::Tgt::Msl] } else { vec![rs::Tgt::Dx, rs::Tgt::Msl] } {
        let o = rs::compile_text(&text, &rs::Opts::new(t, rs::Mode::NoPipeline));
        match &o {
            rs::Outcome::Ok(p) => println!("---- {} ----\n{}", t.name(), p[0].source),
            _ => println!("---- {} ---- {}", t.name(), o.brief()),
        }
    }
}
