//! Minimal JSON value, writer and parser (no external crates are available).

use std::collections::BTreeMap;
use std::fmt::Write;

#[derive(Clone, Debug, PartialEq)]
pub enum Json {
    Null,
    Bool(bool),
    Int(i64),
    Num(f64),
    Str(String),
    Arr(Vec<Json>),
    Obj(Vec<(String, Json)>),
}

impl Json {
    pub fn obj() -> Json {
        Json::Obj(Vec::new())
    }

    pub fn str<S: AsRef<str>>(s: S) -> Json {
        Json::Str(s.as_ref().to_string())
    }

    pub fn set<V: Into<Json>>(mut self, key: &str, value: V) -> Json {
        self.put(key, value);
        self
    }

    pub fn put<V: Into<Json>>(&mut self, key: &str, value: V) {
        if let Json::Obj(items) = self {
            let value = value.into();
            for item in items.iter_mut() {
                if item.0 == key {
                    item.1 = value;
                    return;
                }
            }
            items.push((key.to_string(), value));
        } else {
            panic!("Json::put on non-object");
        }
    }

    pub fn get(&self, key: &str) -> Option<&Json> {
        match self {
            Json::Obj(items) => items.iter().find(|(k, _)| k == key).map(|(_, v)| v),
            _ => None,
        }
    }

    pub fn as_str(&self) -> Option<&str> {
        match self {
            Json::Str(s) => Some(s),
            _ => None,
        }
    }

    pub fn as_i64(&self) -> Option<i64> {
        match self {
            Json::Int(i) => Some(*i),
            Json::Num(f) => Some(*f as i64),
            _ => None,
        }
    }

    pub fn as_bool(&self) -> Option<bool> {
        match self {
            Json::Bool(b) => Some(*b),
            _ => None,
        }
    }

    pub fn as_arr(&self) -> Option<&[Json]> {
        match self {
            Json::Arr(a) => Some(a),
            _ => None,
        }
    }

    pub fn get_str(&self, key: &str) -> Option<&str> {
        self.get(key).and_then(|v| v.as_str())
    }

    pub fn to_string_pretty(&self) -> String {
        let mut out = String::new();
        self.write(&mut out, 0, true);
        out.push('\n');
        out
    }

    pub fn to_string_compact(&self) -> String {
        let mut out = String::new();
        self.write(&mut out, 0, false);
        out
    }

    fn write(&self, out: &mut String, indent: usize, pretty: bool) {
        match self {
            Json::Null => out.push_str("null"),
            Json::Bool(b) => out.push_str(if *b { "true" } else { "false" }),
            Json::Int(i) => {
                let _ = write!(out, "{}", i);
            }
            Json::Num(f) => {
                if f.is_finite() {
                    let _ = write!(out, "{}", f);
                } else {
                    out.push_str("null");
                }
            }
            Json::Str(s) => write_str(out, s),
            Json::Arr(items) => {
                if items.is_empty() {
                    out.push_str("[]");
                    return;
                }
                out.push('[');
                for (i, item) in items.iter().enumerate() {
                    if i > 0 {
                        out.push(',');
                    }
                    if pretty {
                        out.push('\n');
                        push_indent(out, indent + 1);
                    }
                    item.write(out, indent + 1, pretty);
                }
                if pretty {
                    out.push('\n');
                    push_indent(out, indent);
                }
                out.push(']');
            }
            Json::Obj(items) => {
                if items.is_empty() {
                    out.push_str("{}");
                    return;
                }
                out.push('{');
                for (i, (k, v)) in items.iter().enumerate() {
                    if i > 0 {
                        out.push(',');
                    }
                    if pretty {
                        out.push('\n');
                        push_indent(out, indent + 1);
                    }
                    write_str(out, k);
                    out.push(':');
                    if pretty {
                        out.push(' ');
                    }
                    v.write(out, indent + 1, pretty);
                }
                if pretty {
                    out.push('\n');
                    push_indent(out, indent);
                }
                out.push('}');
            }
        }
    }
}

fn push_indent(out: &mut String, n: usize) {
    for _ in 0..n {
        out.push(' ');
    }
}

fn write_str(out: &mut String, s: &str) {
    out.push('"');
    for c in s.chars() {
        match c {
            '"' => out.push_str("\\\""),
            '\\' => out.push_str("\\\\"),
            '\n' => out.push_str("\\n"),
            '\r' => out.push_str("\\r"),
            '\t' => out.push_str("\\t"),
            c if (c as u32) < 0x20 => {
                let _ = write!(out, "\\u{:04x}", c as u32);
            }
            c => out.push(c),
        }
    }
    out.push('"');
}

impl From<&str> for Json {
    fn from(s: &str) -> Json {
        Json::Str(s.to_string())
    }
}
impl From<String> for Json {
    fn from(s: String) -> Json {
        Json::Str(s)
    }
}
impl From<&String> for Json {
    fn from(s: &String) -> Json {
        Json::Str(s.clone())
    }
}
impl From<bool> for Json {
    fn from(b: bool) -> Json {
        Json::Bool(b)
    }
}
impl From<i64> for Json {
    fn from(i: i64) -> Json {
        Json::Int(i)
    }
}
impl From<i32> for Json {
    fn from(i: i32) -> Json {
        Json::Int(i as i64)
    }
}
impl From<u32> for Json {
    fn from(i: u32) -> Json {
        Json::Int(i as i64)
    }
}
impl From<u64> for Json {
    fn from(i: u64) -> Json {
        if i <= i64::MAX as u64 {
            Json::Int(i as i64)
        } else {
            Json::Str(i.to_string())
        }
    }
}
impl From<usize> for Json {
    fn from(i: usize) -> Json {
        Json::Int(i as i64)
    }
}
impl From<f64> for Json {
    fn from(f: f64) -> Json {
        Json::Num(f)
    }
}
impl From<Vec<Json>> for Json {
    fn from(v: Vec<Json>) -> Json {
        Json::Arr(v)
    }
}
impl From<Vec<String>> for Json {
    fn from(v: Vec<String>) -> Json {
        Json::Arr(v.into_iter().map(Json::Str).collect())
    }
}
impl From<&BTreeMap<String, u64>> for Json {
    fn from(m: &BTreeMap<String, u64>) -> Json {
        Json::Obj(m.iter().map(|(k, v)| (k.clone(), Json::from(*v))).collect())
    }
}

// ---------------------------------------------------------------------------------------------
// Parser
// ---------------------------------------------------------------------------------------------

pub fn parse(text: &str) -> Result<Json, String> {
    let mut p = Parser {
        b: text.as_bytes(),
        i: 0,
    };
    p.ws();
    let v = p.value()?;
    p.ws();
    if p.i != p.b.len() {
        return Err(format!("trailing characters at {}", p.i));
    }
    Ok(v)
}

struct Parser<'a> {
    b: &'a [u8],
    i: usize,
}

impl Parser<'_> {
    fn ws(&mut self) {
        while self.i < self.b.len() && matches!(self.b[self.i], b' ' | b'\n' | b'\r' | b'\t') {
            self.i += 1;
        }
    }

    fn value(&mut self) -> Result<Json, String> {
        if self.i >= self.b.len() {
            return Err("unexpected end".into());
        }
        match self.b[self.i] {
            b'{' => {
                self.i += 1;
                let mut items = Vec::new();
                self.ws();
                if self.peek() == Some(b'}') {
                    self.i += 1;
                    return Ok(Json::Obj(items));
                }
                loop {
                    self.ws();
                    let k = match self.value()? {
                        Json::Str(s) => s,
                        _ => return Err("object key must be string".into()),
                    };
                    self.ws();
                    if self.peek() != Some(b':') {
                        return Err(format!("expected : at {}", self.i));
                    }
                    self.i += 1;
                    self.ws();
                    let v = self.value()?;
                    items.push((k, v));
                    self.ws();
                    match self.peek() {
                        Some(b',') => self.i += 1,
                        Some(b'}') => {
                            self.i += 1;
                            return Ok(Json::Obj(items));
                        }
                        _ => return Err(format!("expected , or }} at {}", self.i)),
                    }
                }
            }
            b'[' => {
                self.i += 1;
                let mut items = Vec::new();
                self.ws();
                if self.peek() == Some(b']') {
                    self.i += 1;
                    return Ok(Json::Arr(items));
                }
                loop {
                    self.ws();
                    items.push(self.value()?);
                    self.ws();
                    match self.peek() {
                        Some(b',') => self.i += 1,
                        Some(b']') => {
                            self.i += 1;
                            return Ok(Json::Arr(items));
                        }
                        _ => return Err(format!("expected , or ] at {}", self.i)),
                    }
                }
            }
            b'"' => {
                self.i += 1;
                let mut s: Vec<u8> = Vec::new();
                loop {
                    if self.i >= self.b.len() {
                        return Err("unterminated string".into());
                    }
                    let c = self.b[self.i];
                    self.i += 1;
                    match c {
                        b'"' => break,
                        b'\\' => {
                            let e = *self.b.get(self.i).ok_or("bad escape")?;
                            self.i += 1;
                            match e {
                                b'n' => s.push(b'\n'),
                                b'r' => s.push(b'\r'),
                                b't' => s.push(b'\t'),
                                b'b' => s.push(8),
                                b'f' => s.push(12),
                                b'u' => {
                                    let hex = std::str::from_utf8(&self.b[self.i..self.i + 4]).map_err(|e| e.to_string())?;
                                    let cp = u32::from_str_radix(hex, 16).map_err(|e| e.to_string())?;
                                    self.i += 4;
                                    let ch = char::from_u32(cp).unwrap_or('?');
                                    let mut buf = [0u8; 4];
                                    s.extend_from_slice(ch.encode_utf8(&mut buf).as_bytes());
                                }
                                other => s.push(other),
                            }
                        }
                        c => s.push(c),
                    }
                }
                Ok(Json::Str(String::from_utf8_lossy(&s).to_string()))
            }
            b't' if self.b[self.i..].starts_with(b"true") => {
                self.i += 4;
                Ok(Json::Bool(true))
            }
            b'f' if self.b[self.i..].starts_with(b"false") => {
                self.i += 5;
                Ok(Json::Bool(false))
            }
            b'n' if self.b[self.i..].starts_with(b"null") => {
                self.i += 4;
                Ok(Json::Null)
            }
            _ => {
                let start = self.i;
                while self.i < self.b.len() && matches!(self.b[self.i], b'-' | b'+' | b'.' | b'e' | b'E' | b'0'..=b'9') {
                    self.i += 1;
                }
                let t = std::str::from_utf8(&self.b[start..self.i]).unwrap();
                if let Ok(i) = t.parse::<i64>() {
                    Ok(Json::Int(i))
                } else if let Ok(f) = t.parse::<f64>() {
                    Ok(Json::Num(f))
                } else {
                    Err(format!("bad token at {}", start))
                }
            }
        }
    }

    fn peek(&self) -> Option<u8> {
        self.b.get(self.i).copied()
    }
}
