//! Reference interpreter for the typed IR (`rssl::ir::Module`): RSSL's typed semantics.
//! Written from the language rules (DESIGN.md appendix A), not from the exporters.
//! Anything undefined/unspecified traps; unknown constructs make the sample unsupported.

use super::val::*;
use rssl::ir;
use std::collections::HashMap;

#[derive(Clone, Debug)]
enum Root {
    Local(u32),
    Global(u32),
    /// `this` of the current method
    This,
    /// an rvalue held in the frame's temporary table
    Temp(usize),
}

#[derive(Clone, Debug)]
enum Proj {
    Field(usize),
    Index(usize),
    Swizzle(Vec<usize>),
}

#[derive(Clone, Debug)]
pub struct Place {
    root: Root,
    path: Vec<Proj>,
}

enum Flow {
    Normal,
    Break,
    Continue,
    Return(Value),
    Discard,
}

struct Frame {
    locals: HashMap<u32, Value>,
    temps: Vec<Value>,
    /// object a method was called on: a place in the caller's frame is copied in and out
    this: Option<Value>,
}

pub struct Exec<'m> {
    pub m: &'m ir::Module,
    /// static / groupshared globals (by GlobalId)
    pub globals: HashMap<u32, Value>,
    /// function-local statics (by VariableId)
    pub static_locals: HashMap<u32, Value>,
    pub steps: u64,
    pub max_steps: u64,
    depth: u32,
    /// evaluate operands right to left (used to detect order-of-evaluation dependence)
    pub rtl: bool,
    frames: Vec<Frame>,
}

pub struct CallResult {
    pub ret: Value,
    /// values of out/inout parameters after the call, by parameter index
    pub outs: Vec<(usize, Value)>,
}

fn unsup<T>(what: impl Into<String>) -> R<T> {
    Err(Trap::Unsupported(what.into()))
}

fn kind_of(st: ir::ScalarType) -> Kind {
    match st {
        ir::ScalarType::Bool => Kind::Bool,
        ir::ScalarType::IntLiteral => Kind::LitInt,
        ir::ScalarType::Int32 => Kind::Int,
        ir::ScalarType::UInt32 => Kind::UInt,
        ir::ScalarType::FloatLiteral => Kind::LitFloat,
        ir::ScalarType::Float16 => Kind::Half,
        ir::ScalarType::Float32 => Kind::Float,
        ir::ScalarType::Float64 => Kind::Double,
    }
}

impl<'m> Exec<'m> {
    pub fn new(m: &'m ir::Module) -> R<Exec<'m>> {
        let mut e = Exec {
            m,
            globals: HashMap::new(),
            static_locals: HashMap::new(),
            steps: 0,
            max_steps: 1_000_000,
            depth: 0,
            rtl: false,
            frames: Vec::new(),
        };
        e.init_globals()?;
        Ok(e)
    }

    fn layer(&self, ty: ir::TypeId) -> ir::TypeLayer {
        let ty = self.m.type_registry.remove_modifier(ty);
        self.m.type_registry.get_type_layer(ty)
    }

    /// (scalar kind, lanes, is_vector) of a numeric type
    pub fn numeric(&self, ty: ir::TypeId) -> Option<(Kind, usize, bool)> {
        match self.layer(ty) {
            ir::TypeLayer::Scalar(s) => Some((kind_of(s), 1, false)),
            ir::TypeLayer::Vector(inner, n) => match self.layer(inner) {
                ir::TypeLayer::Scalar(s) => Some((kind_of(s), n as usize, true)),
                _ => None,
            },
            _ => None,
        }
    }

    /// A value of the given type with every scalar undefined
    pub fn undef(&self, ty: ir::TypeId) -> R<Value> {
        Ok(match self.layer(ty) {
            ir::TypeLayer::Void => Value::Void,
            ir::TypeLayer::Scalar(s) => Value::S(Scalar::Undef(kind_of(s))),
            ir::TypeLayer::Vector(inner, n) => match self.layer(inner) {
                ir::TypeLayer::Scalar(s) => Value::V(vec![Scalar::Undef(kind_of(s)); n as usize]),
                _ => return unsup("vector of non scalar"),
            },
            ir::TypeLayer::Struct(id) => {
                let def = &self.m.struct_registry[id.0 as usize];
                let mut fields = Vec::new();
                for mem in &def.members {
                    fields.push(self.undef(mem.type_id)?);
                }
                Value::Struct(id.0, fields)
            }
            ir::TypeLayer::Enum(_) => Value::S(Scalar::Undef(Kind::Int)),
            ir::TypeLayer::Array(inner, Some(n)) => {
                if n > 4096 {
                    return unsup("large array");
                }
                let e = self.undef(inner)?;
                Value::Array(vec![e; n as usize])
            }
            other => return unsup(format!("type {:?}", std::mem::discriminant(&other))),
        })
    }

    /// Zero value of a type (static storage without initialiser)
    pub fn zero(&self, ty: ir::TypeId) -> R<Value> {
        fn z(v: Value) -> Value {
            match v {
                Value::S(Scalar::Undef(k)) => Value::S(Scalar::zero(k)),
                Value::V(l) => Value::V(l.into_iter().map(|s| Scalar::zero(s.kind())).collect()),
                Value::Struct(id, f) => Value::Struct(id, f.into_iter().map(z).collect()),
                Value::Array(a) => Value::Array(a.into_iter().map(z).collect()),
                other => other,
            }
        }
        Ok(z(self.undef(ty)?))
    }

    /// Make a value fit a declared type: only untyped literals are converted implicitly, everything else must
    /// already have been made explicit by the type checker (a mismatch is an ill typed module)
    pub fn coerce(&self, v: Value, ty: ir::TypeId) -> R<Value> {
        match self.layer(ty) {
            ir::TypeLayer::Scalar(_) | ir::TypeLayer::Vector(_, _) => {
                let (kind, n, is_vec) = self.numeric(ty).ok_or_else(|| Trap::Unsupported("numeric".into()))?;
                let lanes = match &v {
                    Value::Enum(_, x) => vec![Scalar::Int(*x as i32)],
                    _ => v.lanes()?,
                };
                if lanes.len() != n {
                    return Err(Trap::IllTyped(format!("value with {} lanes where {} expected", lanes.len(), n)));
                }
                let mut out = Vec::with_capacity(n);
                for l in lanes {
                    if l.kind() == kind {
                        out.push(l);
                    } else if matches!(l.kind(), Kind::LitInt | Kind::LitFloat) && !l.is_undef() {
                        out.push(convert(&l, kind)?);
                    } else {
                        return Err(Trap::IllTyped(format!("{} value where {} expected", l.kind().name(), kind.name())));
                    }
                }
                Ok(Value::from_lanes(out, is_vec))
            }
            ir::TypeLayer::Enum(id) => match v {
                Value::Enum(..) => Ok(v),
                Value::S(s) if !s.is_undef() => Ok(Value::Enum(id.0, convert(&s, Kind::Int)?.as_f64()? as i64)),
                other => Ok(other),
            },
            _ => Ok(v),
        }
    }

    fn tick(&mut self) -> R<()> {
        self.steps += 1;
        if self.steps > self.max_steps {
            Err(Trap::Steps)
        } else {
            Ok(())
        }
    }

    // --------------------------------------------------------------------------------------------
    // globals
    // --------------------------------------------------------------------------------------------

    fn init_globals(&mut self) -> R<()> {
        self.frames.push(Frame {
            locals: HashMap::new(),
            temps: Vec::new(),
            this: None,
        });
        let m = self.m;
        let mut result = Ok(());
        for (i, g) in m.global_registry.iter().enumerate() {
            if g.is_intrinsic {
                continue;
            }
            let is_object = matches!(self.layer(g.type_id), ir::TypeLayer::Object(_));
            if is_object {
                continue;
            }
            let v = match &g.init {
                Some(init) => self.eval_initializer(init, g.type_id),
                None => match g.storage_class {
                    // uninitialised statics are zero initialised in HLSL? Not guaranteed: treat as undefined
                    _ => self.undef(g.type_id),
                },
            };
            match v {
                Ok(v) => {
                    self.globals.insert(i as u32, v);
                }
                Err(Trap::Unsupported(_)) => {
                    // unsupported global: leave it out; a function touching it becomes unsupported
                }
                Err(e) => {
                    result = Err(e);
                    break;
                }
            }
        }
        self.frames.pop();
        result
    }

    fn eval_initializer(&mut self, init: &ir::Initializer, ty: ir::TypeId) -> R<Value> {
        match init {
            ir::Initializer::Expression(e) => {
                let v = self.eval(e)?;
                self.coerce(v, ty)
            }
            ir::Initializer::Aggregate(items) => {
                // aggregate initialisation: elements fill the flattened leaves in order? The type checker builds a tree
                // that mirrors the type, so follow the type structure.
                match self.layer(ty) {
                    ir::TypeLayer::Array(inner, Some(n)) => {
                        if items.len() != n as usize {
                            return unsup("aggregate initialiser with different length");
                        }
                        let mut out = Vec::new();
                        let order: Vec<usize> = if self.rtl { (0..items.len()).rev().collect() } else { (0..items.len()).collect() };
                        let mut tmp: Vec<Option<Value>> = vec![None; items.len()];
                        for i in order {
                            tmp[i] = Some(self.eval_initializer(&items[i], inner)?);
                        }
                        for t in tmp {
                            out.push(t.unwrap());
                        }
                        Ok(Value::Array(out))
                    }
                    ir::TypeLayer::Struct(id) => {
                        let def = &self.m.struct_registry[id.0 as usize];
                        if items.len() != def.members.len() {
                            return unsup("aggregate initialiser with different member count");
                        }
                        let mut out = Vec::new();
                        for (item, mem) in items.iter().zip(&def.members) {
                            out.push(self.eval_initializer(item, mem.type_id)?);
                        }
                        Ok(Value::Struct(id.0, out))
                    }
                    ir::TypeLayer::Vector(inner, n) => {
                        if items.len() != n as usize {
                            return unsup("aggregate initialiser for vector with different length");
                        }
                        let mut lanes = Vec::new();
                        for item in items {
                            lanes.push(self.eval_initializer(item, inner)?.scalar()?);
                        }
                        Ok(Value::V(lanes))
                    }
                    ir::TypeLayer::Scalar(_) if items.len() == 1 => self.eval_initializer(&items[0], ty),
                    _ => unsup("aggregate initialiser for this type"),
                }
            }
        }
    }

    // --------------------------------------------------------------------------------------------
    // places
    // --------------------------------------------------------------------------------------------

    fn frame(&mut self) -> &mut Frame {
        self.frames.last_mut().unwrap()
    }

    fn root_value(&mut self, root: &Root) -> R<&mut Value> {
        match root {
            Root::Local(id) => {
                if self.static_locals.contains_key(id) {
                    return Ok(self.static_locals.get_mut(id).unwrap());
                }
                self.frames.last_mut().unwrap().locals.get_mut(id).ok_or_else(|| Trap::IllTyped(format!("local variable {} used outside its scope", id)))
            }
            Root::Global(id) => self.globals.get_mut(id).ok_or_else(|| Trap::Unsupported("global without interpreter storage".into())),
            Root::This => self.frames.last_mut().unwrap().this.as_mut().ok_or_else(|| Trap::IllTyped("member access outside of a method".into())),
            Root::Temp(i) => Ok(&mut self.frames.last_mut().unwrap().temps[*i]),
        }
    }

    fn load(&mut self, place: &Place) -> R<Value> {
        let mut cur: Value = self.root_value(&place.root)?.clone();
        for p in &place.path {
            cur = match (p, cur) {
                (Proj::Field(i), Value::Struct(_, f)) => f.get(*i).cloned().ok_or(Trap::OutOfBounds)?,
                (Proj::Index(i), Value::Array(a)) => a.get(*i).cloned().ok_or(Trap::OutOfBounds)?,
                (Proj::Index(i), Value::V(l)) => Value::S(*l.get(*i).ok_or(Trap::OutOfBounds)?),
                (Proj::Index(i), Value::S(s)) if *i == 0 => Value::S(s),
                (Proj::Swizzle(sw), v) => {
                    let lanes = v.lanes()?;
                    let mut out = Vec::new();
                    for i in sw {
                        out.push(*lanes.get(*i).ok_or(Trap::OutOfBounds)?);
                    }
                    if out.len() == 1 {
                        Value::S(out[0])
                    } else {
                        Value::V(out)
                    }
                }
                (p, v) => return Err(Trap::IllTyped(format!("projection {:?} on {}", p, v))),
            };
        }
        Ok(cur)
    }

    fn store(&mut self, place: &Place, value: Value) -> R<()> {
        fn go(cur: &mut Value, path: &[Proj], value: Value) -> R<()> {
            let Some((p, rest)) = path.split_first() else {
                // keep vector-ness of the destination
                match (&*cur, &value) {
                    (Value::V(d), Value::S(s)) if d.len() == 1 => *cur = Value::V(vec![*s]),
                    (Value::S(_), Value::V(s)) if s.len() == 1 => *cur = Value::S(s[0]),
                    _ => *cur = value,
                }
                return Ok(());
            };
            match (p, cur) {
                (Proj::Field(i), Value::Struct(_, f)) => go(f.get_mut(*i).ok_or(Trap::OutOfBounds)?, rest, value),
                (Proj::Index(i), Value::Array(a)) => go(a.get_mut(*i).ok_or(Trap::OutOfBounds)?, rest, value),
                (Proj::Index(i), Value::V(l)) => {
                    if !rest.is_empty() {
                        return Err(Trap::IllTyped("projection below a vector lane".into()));
                    }
                    let s = value.scalar()?;
                    *l.get_mut(*i).ok_or(Trap::OutOfBounds)? = s;
                    Ok(())
                }
                (Proj::Index(0), c @ Value::S(_)) if rest.is_empty() => {
                    *c = Value::S(value.scalar()?);
                    Ok(())
                }
                (Proj::Swizzle(sw), c) => {
                    if !rest.is_empty() {
                        return Err(Trap::Unsupported("projection below a swizzle".into()));
                    }
                    let src = value.lanes()?;
                    if src.len() != sw.len() {
                        return Err(Trap::IllTyped("swizzle store with wrong lane count".into()));
                    }
                    match c {
                        Value::V(l) => {
                            for (k, i) in sw.iter().enumerate() {
                                *l.get_mut(*i).ok_or(Trap::OutOfBounds)? = src[k];
                            }
                        }
                        Value::S(s) => {
                            if sw.len() != 1 || sw[0] != 0 {
                                return Err(Trap::OutOfBounds);
                            }
                            *s = src[0];
                        }
                        other => return Err(Trap::IllTyped(format!("swizzle store into {}", other))),
                    }
                    Ok(())
                }
                (p, c) => Err(Trap::IllTyped(format!("store projection {:?} on {}", p, c))),
            }
        }
        let path = place.path.clone();
        let root = self.root_value(&place.root)?;
        go(root, &path, value)
    }

    /// Evaluate an expression that must designate storage
    fn eval_place(&mut self, e: &ir::Expression) -> R<Place> {
        self.tick()?;
        match e {
            ir::Expression::Variable(id) => Ok(Place {
                root: Root::Local(id.0),
                path: Vec::new(),
            }),
            ir::Expression::Global(id) => Ok(Place {
                root: Root::Global(id.0),
                path: Vec::new(),
            }),
            ir::Expression::MemberVariable(_, idx) => Ok(Place {
                root: Root::This,
                path: vec![Proj::Field(*idx as usize)],
            }),
            ir::Expression::StructMember(inner, _, idx) => {
                let mut p = self.eval_place(inner)?;
                p.path.push(Proj::Field(*idx as usize));
                Ok(p)
            }
            ir::Expression::ArraySubscript(arr, index) => {
                let (mut p, i) = if self.rtl {
                    let i = self.eval(index)?;
                    (self.eval_place(arr)?, i)
                } else {
                    let p = self.eval_place(arr)?;
                    (p, self.eval(index)?)
                };
                let i = match i.scalar()? {
                    Scalar::Int(v) if v >= 0 => v as usize,
                    Scalar::UInt(v) => v as usize,
                    Scalar::LitInt(v) if v >= 0 => v as usize,
                    Scalar::Undef(_) => return Err(Trap::Uninit),
                    _ => return Err(Trap::OutOfBounds),
                };
                // bounds are checked when loading/storing; check here too so that an out of range index traps even if unused
                let len = match self.load(&p)? {
                    Value::Array(a) => a.len(),
                    Value::V(l) => l.len(),
                    Value::S(_) => 1,
                    other => return Err(Trap::IllTyped(format!("subscript on {}", other))),
                };
                if i >= len {
                    return Err(Trap::OutOfBounds);
                }
                p.path.push(Proj::Index(i));
                Ok(p)
            }
            ir::Expression::Swizzle(inner, slots) => {
                let mut p = self.eval_place(inner)?;
                let sw: Vec<usize> = slots
                    .iter()
                    .map(|s| match s {
                        ir::SwizzleSlot::X => 0,
                        ir::SwizzleSlot::Y => 1,
                        ir::SwizzleSlot::Z => 2,
                        ir::SwizzleSlot::W => 3,
                    })
                    .collect();
                // compose with a previous swizzle
                if let Some(Proj::Swizzle(prev)) = p.path.last().cloned() {
                    let mut composed = Vec::new();
                    for i in &sw {
                        composed.push(*prev.get(*i).ok_or(Trap::OutOfBounds)?);
                    }
                    p.path.pop();
                    p.path.push(Proj::Swizzle(composed));
                } else {
                    p.path.push(Proj::Swizzle(sw));
                }
                Ok(p)
            }
            // lvalue producing operators
            ir::Expression::IntrinsicOp(op, args)
                if matches!(
                    op,
                    ir::IntrinsicOp::Assignment
                        | ir::IntrinsicOp::SumAssignment
                        | ir::IntrinsicOp::DifferenceAssignment
                        | ir::IntrinsicOp::ProductAssignment
                        | ir::IntrinsicOp::QuotientAssignment
                        | ir::IntrinsicOp::RemainderAssignment
                        | ir::IntrinsicOp::LeftShiftAssignment
                        | ir::IntrinsicOp::RightShiftAssignment
                        | ir::IntrinsicOp::BitwiseAndAssignment
                        | ir::IntrinsicOp::BitwiseOrAssignment
                        | ir::IntrinsicOp::BitwiseXorAssignment
                        | ir::IntrinsicOp::PrefixIncrement
                        | ir::IntrinsicOp::PrefixDecrement
                ) =>
            {
                let (place, _) = self.eval_assign_like(op, args)?;
                Ok(place)
            }
            ir::Expression::Sequence(items) => {
                let (last, rest) = items.split_last().ok_or_else(|| Trap::IllTyped("empty sequence".into()))?;
                for it in rest {
                    self.eval(it)?;
                }
                self.eval_place(last)
            }
            other => {
                // rvalue used where storage is needed (e.g. method call on a temporary): materialise it
                let v = self.eval(other)?;
                let f = self.frame();
                f.temps.push(v);
                Ok(Place {
                    root: Root::Temp(f.temps.len() - 1),
                    path: Vec::new(),
                })
            }
        }
    }

    // --------------------------------------------------------------------------------------------
    // expressions
    // --------------------------------------------------------------------------------------------

    fn literal(&self, c: &ir::Constant) -> R<Value> {
        Ok(match c {
            ir::Constant::Bool(b) => Value::S(Scalar::Bool(*b)),
            ir::Constant::IntLiteral(v) => Value::S(Scalar::LitInt(*v)),
            ir::Constant::Int32(v) => Value::S(Scalar::Int(*v)),
            ir::Constant::UInt32(v) => Value::S(Scalar::UInt(*v)),
            ir::Constant::FloatLiteral(v) => Value::S(Scalar::LitFloat(*v)),
            ir::Constant::Float16(v) => Value::S(Scalar::Half(round_f16(*v))),
            ir::Constant::Float32(v) => Value::S(Scalar::Float(*v)),
            ir::Constant::Float64(v) => Value::S(Scalar::Double(*v)),
            ir::Constant::Enum(id, inner) => {
                let v = self.literal(inner)?.scalar()?;
                Value::Enum(id.0, convert(&v, Kind::LitInt)?.as_f64()? as i64)
            }
            ir::Constant::Int64(_) | ir::Constant::UInt64(_) => return unsup("64 bit integer literal"),
            ir::Constant::String(_) => return unsup("string literal"),
        })
    }

    /// Evaluate several operand expressions in the configured order, returning values in source order
    fn eval_all(&mut self, exprs: &[ir::Expression]) -> R<Vec<Value>> {
        let mut out: Vec<Option<Value>> = vec![None; exprs.len()];
        let order: Vec<usize> = if self.rtl { (0..exprs.len()).rev().collect() } else { (0..exprs.len()).collect() };
        for i in order {
            out[i] = Some(self.eval(&exprs[i])?);
        }
        Ok(out.into_iter().map(|v| v.unwrap()).collect())
    }

    pub fn eval(&mut self, e: &ir::Expression) -> R<Value> {
        self.tick()?;
        match e {
            ir::Expression::Literal(c) => self.literal(c),
            ir::Expression::Variable(_)
            | ir::Expression::Global(_)
            | ir::Expression::MemberVariable(..)
            | ir::Expression::StructMember(..)
            | ir::Expression::ArraySubscript(..)
            | ir::Expression::Swizzle(..) => {
                let p = self.eval_place(e)?;
                self.load(&p)
            }
            ir::Expression::ConstantVariable(_) => unsup("constant buffer member"),
            ir::Expression::EnumValue(id) => {
                let ev = self.m.enum_registry.get_enum_value(*id);
                let v = self.literal(&ev.value)?;
                let s = match v {
                    Value::Enum(_, x) => x,
                    other => convert(&other.scalar()?, Kind::LitInt)?.as_f64()? as i64,
                };
                Ok(Value::Enum(ev.enum_id.0, s))
            }
            ir::Expression::TernaryConditional(c, a, b) => {
                let cv = self.eval(c)?;
                match cv {
                    Value::V(lanes) if lanes.len() > 1 => {
                        // vector condition: component-wise select, both sides evaluated
                        let (av, bv) = (self.eval(a)?, self.eval(b)?);
                        let (al, bl) = (av.lanes()?, bv.lanes()?);
                        if al.len() != lanes.len() || bl.len() != lanes.len() {
                            return unsup("vector ternary with mixed sizes");
                        }
                        let mut out = Vec::new();
                        for i in 0..lanes.len() {
                            out.push(if lanes[i].truthy()? { al[i] } else { bl[i] });
                        }
                        Ok(Value::V(out))
                    }
                    other => {
                        if other.scalar()?.truthy()? {
                            self.eval(a)
                        } else {
                            self.eval(b)
                        }
                    }
                }
            }
            ir::Expression::Sequence(items) => {
                let mut last = Value::Void;
                for it in items {
                    last = self.eval(it)?;
                }
                Ok(last)
            }
            ir::Expression::MatrixSwizzle(..) => unsup("matrix swizzle"),
            ir::Expression::ObjectMember(..) => unsup("object member"),
            ir::Expression::SizeOf(_) => unsup("sizeof"),
            ir::Expression::Constructor(ty, slots) => {
                let (kind, n, is_vec) = self.numeric(*ty).ok_or_else(|| Trap::Unsupported("non numeric constructor".into()))?;
                let exprs: Vec<ir::Expression> = slots.iter().map(|s| s.expr.clone()).collect();
                let vals = self.eval_all(&exprs)?;
                let mut lanes = Vec::new();
                for (v, slot) in vals.iter().zip(slots) {
                    let l = v.lanes()?;
                    if l.len() != slot.arity as usize {
                        return Err(Trap::IllTyped(format!("constructor slot arity {} but value has {} lanes", slot.arity, l.len())));
                    }
                    for s in l {
                        if s.kind() != kind {
                            if matches!(s.kind(), Kind::LitInt | Kind::LitFloat) {
                                lanes.push(convert(&s, kind)?);
                                continue;
                            }
                            return Err(Trap::IllTyped(format!("constructor of {} given {}", kind.name(), s.kind().name())));
                        }
                        lanes.push(s);
                    }
                }
                if lanes.len() != n {
                    return Err(Trap::IllTyped(format!("constructor with {} components for a type with {}", lanes.len(), n)));
                }
                Ok(Value::from_lanes(lanes, is_vec))
            }
            ir::Expression::Cast(ty, inner) => {
                let v = self.eval(inner)?;
                self.cast(v, *ty)
            }
            ir::Expression::Call(id, call_type, args) => self.call_expr(*id, call_type, args),
            ir::Expression::IntrinsicOp(op, args) => self.intrinsic_op(op, args),
        }
    }

    pub fn cast(&self, v: Value, ty: ir::TypeId) -> R<Value> {
        match self.layer(ty) {
            ir::TypeLayer::Scalar(_) | ir::TypeLayer::Vector(_, _) => {
                let (kind, n, is_vec) = self.numeric(ty).ok_or_else(|| Trap::Unsupported("cast".into()))?;
                let lanes = match &v {
                    Value::Enum(_, x) => vec![Scalar::Int(*x as i32)],
                    other => other.lanes()?,
                };
                let lanes: Vec<Scalar> = if lanes.len() == n {
                    lanes
                } else if lanes.len() == 1 {
                    vec![lanes[0]; n]
                } else if lanes.len() > n {
                    lanes[..n].to_vec()
                } else {
                    return Err(Trap::IllTyped(format!("cast from {} lanes to {}", lanes.len(), n)));
                };
                let mut out = Vec::with_capacity(n);
                for l in lanes {
                    out.push(convert(&l, kind)?);
                }
                Ok(Value::from_lanes(out, is_vec))
            }
            ir::TypeLayer::Enum(id) => match v {
                Value::Enum(_, x) => Ok(Value::Enum(id.0, x)),
                other => {
                    let s = convert(&other.scalar()?, Kind::Int)?;
                    Ok(Value::Enum(id.0, s.as_f64()? as i64))
                }
            },
            ir::TypeLayer::Struct(id) => match v {
                Value::Struct(sid, f) if sid == id.0 => Ok(Value::Struct(sid, f)),
                // a scalar cast to a struct gives every (nested) member the value, converted to the member's type;
                // the operand has been evaluated once
                Value::S(_) => {
                    let def = &self.m.struct_registry[id.0 as usize];
                    let mut fields = Vec::new();
                    for mem in &def.members {
                        let mty = self.m.type_registry.remove_modifier(mem.type_id);
                        fields.push(self.cast(v.clone(), mty)?);
                    }
                    Ok(Value::Struct(id.0, fields))
                }
                _ => unsup("cast to struct"),
            },
            ir::TypeLayer::Array(inner, len) => match v {
                Value::Array(a) => Ok(Value::Array(a)),
                Value::S(_) => {
                    let Some(n) = len else { return unsup("cast to unsized array") };
                    let ety = self.m.type_registry.remove_modifier(inner);
                    let mut out = Vec::new();
                    for _ in 0..n {
                        out.push(self.cast(v.clone(), ety)?);
                    }
                    Ok(Value::Array(out))
                }
                _ => unsup("cast to array"),
            },
            ir::TypeLayer::Void => Ok(Value::Void),
            _ => unsup("cast to this type"),
        }
    }

    fn lanewise2(&self, a: &Value, b: &Value, f: impl Fn(&Scalar, &Scalar) -> R<Scalar>) -> R<Value> {
        let (al, bl) = (a.lanes()?, b.lanes()?);
        if al.len() != bl.len() {
            return Err(Trap::IllTyped(format!("binary operation on {} and {} lanes", al.len(), bl.len())));
        }
        let mut out = Vec::with_capacity(al.len());
        for (x, y) in al.iter().zip(&bl) {
            // untyped literal next to a typed operand adopts its kind
            let (x, y) = match (x.kind(), y.kind()) {
                (ka, kb) if ka == kb => (*x, *y),
                (Kind::LitInt | Kind::LitFloat, kb) if !matches!(kb, Kind::LitInt | Kind::LitFloat) => (convert(x, kb)?, *y),
                (ka, Kind::LitInt | Kind::LitFloat) if !matches!(ka, Kind::LitInt | Kind::LitFloat) => (*x, convert(y, ka)?),
                (Kind::LitInt, Kind::LitFloat) => (convert(x, Kind::LitFloat)?, *y),
                (Kind::LitFloat, Kind::LitInt) => (*x, convert(y, Kind::LitFloat)?),
                _ => (*x, *y),
            };
            out.push(f(&x, &y)?);
        }
        Ok(Value::from_lanes(out, a.is_vector() || b.is_vector()))
    }

    fn bin_of(op: &ir::IntrinsicOp) -> Option<Bin> {
        use ir::IntrinsicOp::*;
        Some(match op {
            Add | SumAssignment => Bin::Add,
            Subtract | DifferenceAssignment => Bin::Sub,
            Multiply | ProductAssignment => Bin::Mul,
            Divide | QuotientAssignment => Bin::Div,
            Modulus | RemainderAssignment => Bin::Mod,
            LeftShift | LeftShiftAssignment => Bin::Shl,
            RightShift | RightShiftAssignment => Bin::Shr,
            BitwiseAnd | BitwiseAndAssignment => Bin::And,
            BitwiseOr | BitwiseOrAssignment => Bin::Or,
            BitwiseXor | BitwiseXorAssignment => Bin::Xor,
            LessThan => Bin::Lt,
            LessEqual => Bin::Le,
            GreaterThan => Bin::Gt,
            GreaterEqual => Bin::Ge,
            Equality => Bin::Eq,
            Inequality => Bin::Ne,
            _ => return None,
        })
    }

    /// Assignment, compound assignment, prefix increment/decrement: returns the place and the stored value
    fn eval_assign_like(&mut self, op: &ir::IntrinsicOp, args: &[ir::Expression]) -> R<(Place, Value)> {
        use ir::IntrinsicOp::*;
        match op {
            PrefixIncrement | PrefixDecrement => {
                let place = self.eval_place(&args[0])?;
                let old = self.load(&place)?;
                let new = self.step_value(&old, matches!(op, PrefixIncrement))?;
                self.store(&place, new.clone())?;
                Ok((place, new))
            }
            _ => {
                if args.len() != 2 {
                    return Err(Trap::IllTyped("assignment arity".into()));
                }
                let (place, rhs) = if self.rtl {
                    let rhs = self.eval(&args[1])?;
                    (self.eval_place(&args[0])?, rhs)
                } else {
                    let place = self.eval_place(&args[0])?;
                    (place, self.eval(&args[1])?)
                };
                let new = if matches!(op, Assignment) {
                    let old = self.load(&place)?;
                    self.adapt_to(&old, rhs)?
                } else {
                    let old = self.load(&place)?;
                    let bin = Self::bin_of(op).ok_or_else(|| Trap::Unsupported("assignment operator".into()))?;
                    let r = self.lanewise2(&old, &rhs, |x, y| binop(bin, x, y))?;
                    self.adapt_to(&old, r)?
                };
                self.store(&place, new.clone())?;
                Ok((place, new))
            }
        }
    }

    /// Give `v` the static shape of the destination `old` (only untyped literals convert; scalar/1-vector equivalence)
    fn adapt_to(&self, old: &Value, v: Value) -> R<Value> {
        match (old, &v) {
            (Value::S(_), _) | (Value::V(_), _) => {
                let kind = match old {
                    Value::S(o2) => o2.kind(),
                    Value::V(l) => l[0].kind(),
                    _ => unreachable!(),
                };
                let n = match old {
                    Value::V(l) => l.len(),
                    _ => 1,
                };
                let lanes = match &v {
                    Value::Enum(_, x) => vec![Scalar::Int(*x as i32)],
                    other => other.lanes()?,
                };
                if lanes.len() != n {
                    return Err(Trap::IllTyped(format!("assignment of {} lanes to {} lanes", lanes.len(), n)));
                }
                let mut out = Vec::new();
                for l in lanes {
                    if l.kind() == kind {
                        out.push(l);
                    } else if matches!(l.kind(), Kind::LitInt | Kind::LitFloat) && !l.is_undef() {
                        out.push(convert(&l, kind)?);
                    } else {
                        return Err(Trap::IllTyped(format!("assignment of {} to {}", l.kind().name(), kind.name())));
                    }
                }
                Ok(Value::from_lanes(out, matches!(old, Value::V(_))))
            }
            _ => Ok(v),
        }
    }

    fn step_value(&self, old: &Value, up: bool) -> R<Value> {
        let lanes = old.lanes()?;
        let mut out = Vec::new();
        for l in lanes {
            if l.is_undef() {
                return Err(Trap::Uninit);
            }
            let one = convert(&Scalar::LitInt(1), l.kind())?;
            if l.kind() == Kind::Bool {
                return Err(Trap::IllTyped("increment of bool".into()));
            }
            out.push(binop(if up { Bin::Add } else { Bin::Sub }, &l, &one)?);
        }
        Ok(Value::from_lanes(out, old.is_vector()))
    }

    fn intrinsic_op(&mut self, op: &ir::IntrinsicOp, args: &[ir::Expression]) -> R<Value> {
        use ir::IntrinsicOp::*;
        match op {
            Assignment | SumAssignment | DifferenceAssignment | ProductAssignment | QuotientAssignment | RemainderAssignment | LeftShiftAssignment
            | RightShiftAssignment | BitwiseAndAssignment | BitwiseOrAssignment | BitwiseXorAssignment | PrefixIncrement | PrefixDecrement => {
                let (_, v) = self.eval_assign_like(op, args)?;
                Ok(v)
            }
            PostfixIncrement | PostfixDecrement => {
                let place = self.eval_place(&args[0])?;
                let old = self.load(&place)?;
                let new = self.step_value(&old, matches!(op, PostfixIncrement))?;
                self.store(&place, new)?;
                Ok(old)
            }
            Plus | Minus | LogicalNot | BitwiseNot => {
                let v = self.eval(&args[0])?;
                let un = match op {
                    Plus => Un::Plus,
                    Minus => Un::Neg,
                    LogicalNot => Un::Not,
                    _ => Un::BitNot,
                };
                let lanes = match &v {
                    Value::Enum(_, x) => vec![Scalar::Int(*x as i32)],
                    other => other.lanes()?,
                };
                let mut out = Vec::new();
                for l in lanes {
                    out.push(unop(un, &l)?);
                }
                Ok(Value::from_lanes(out, v.is_vector()))
            }
            BooleanAnd | BooleanOr => {
                // HLSL 2021: short circuit on scalars
                let a = self.eval(&args[0])?;
                if a.is_vector() && a.lanes()?.len() > 1 {
                    return unsup("logical operator on vectors");
                }
                let at = a.scalar()?.truthy()?;
                if matches!(op, BooleanAnd) {
                    if !at {
                        return Ok(Value::S(Scalar::Bool(false)));
                    }
                } else if at {
                    return Ok(Value::S(Scalar::Bool(true)));
                }
                let b = self.eval(&args[1])?;
                Ok(Value::S(Scalar::Bool(b.scalar()?.truthy()?)))
            }
            Add | Subtract | Multiply | Divide | Modulus | LeftShift | RightShift | BitwiseAnd | BitwiseOr | BitwiseXor | LessThan | LessEqual | GreaterThan
            | GreaterEqual | Equality | Inequality => {
                let bin = Self::bin_of(op).unwrap();
                let vals = self.eval_all(args)?;
                if vals.len() != 2 {
                    return Err(Trap::IllTyped("binary operator arity".into()));
                }
                let (a, b) = (&vals[0], &vals[1]);
                // enums compare by value
                let a2 = match a {
                    Value::Enum(_, x) => Value::S(Scalar::Int(*x as i32)),
                    o => o.clone(),
                };
                let b2 = match b {
                    Value::Enum(_, x) => Value::S(Scalar::Int(*x as i32)),
                    o => o.clone(),
                };
                self.lanewise2(&a2, &b2, |x, y| binop(bin, x, y))
            }
            _ => unsup(format!("intrinsic operator {:?}", op)),
        }
    }

    // --------------------------------------------------------------------------------------------
    // calls
    // --------------------------------------------------------------------------------------------

    fn call_expr(&mut self, id: ir::FunctionId, call_type: &ir::CallType, args: &[ir::Expression]) -> R<Value> {
        if let Some(intrinsic) = self.m.function_registry.get_intrinsic_data(id) {
            let intrinsic = intrinsic.clone();
            return self.intrinsic_call(&intrinsic, id, args);
        }
        let m = self.m;
        let Some(imp) = m.function_registry.get_function_implementation(id).as_ref() else { return unsup("call of a function without body") };
        let sig = m.function_registry.get_function_signature(id);
        let (this_arg, rest): (Option<&ir::Expression>, &[ir::Expression]) = match call_type {
            ir::CallType::FreeFunction => (None, args),
            ir::CallType::MethodExternal => (args.first(), &args[1.min(args.len())..]),
            ir::CallType::MethodInternal => (None, args),
        };
        if rest.len() > imp.params.len() || rest.len() < sig.non_default_params.min(imp.params.len()) {
            return Err(Trap::IllTyped(format!("call with {} arguments to a function with {} parameters", rest.len(), imp.params.len())));
        }
        // evaluate arguments in the caller's frame
        enum Arg {
            In(Value),
            Out(Place),
            InOut(Place, Value),
        }
        let n = rest.len();
        let mut evaluated: Vec<Option<Arg>> = (0..n).map(|_| None).collect();
        let order: Vec<usize> = if self.rtl { (0..n).rev().collect() } else { (0..n).collect() };
        let mut this_place: Option<Place> = None;
        if !self.rtl {
            if let Some(t) = this_arg {
                this_place = Some(self.eval_place(t)?);
            }
        }
        for i in order {
            let p = &imp.params[i];
            let arg = match p.param_type.input_modifier {
                ir::InputModifier::In => {
                    let v = self.eval(&rest[i])?;
                    Arg::In(self.coerce(v, p.param_type.type_id)?)
                }
                ir::InputModifier::Out => Arg::Out(self.eval_place(&rest[i])?),
                ir::InputModifier::InOut => {
                    let place = self.eval_place(&rest[i])?;
                    let v = self.load(&place)?;
                    Arg::InOut(place, v)
                }
            };
            evaluated[i] = Some(arg);
        }
        if self.rtl {
            if let Some(t) = this_arg {
                this_place = Some(self.eval_place(t)?);
            }
        }
        let this_value = match (&this_place, call_type) {
            (Some(p), _) => Some(self.load(p)?),
            (None, ir::CallType::MethodInternal) => self.frames.last().unwrap().this.clone(),
            _ => None,
        };

        // build the callee frame
        let mut frame = Frame {
            locals: HashMap::new(),
            temps: Vec::new(),
            this: this_value,
        };
        let mut out_places: Vec<(usize, Place)> = Vec::new();
        for (i, p) in imp.params.iter().enumerate() {
            let v = if i < n {
                match evaluated[i].take().unwrap() {
                    Arg::In(v) => v,
                    Arg::Out(place) => {
                        out_places.push((i, place));
                        self.undef(p.param_type.type_id)?
                    }
                    Arg::InOut(place, v) => {
                        out_places.push((i, place));
                        v
                    }
                }
            } else {
                let Some(d) = &p.default_expr else { return Err(Trap::IllTyped("missing argument without default".into())) };
                // default arguments are evaluated in a fresh frame (they cannot name locals)
                self.frames.push(Frame {
                    locals: HashMap::new(),
                    temps: Vec::new(),
                    this: None,
                });
                let v = self.eval(d);
                self.frames.pop();
                self.coerce(v?, p.param_type.type_id)?
            };
            frame.locals.insert(p.id.0, v);
        }
        if self.depth >= 48 {
            return Err(Trap::Depth);
        }
        self.depth += 1;
        self.frames.push(frame);
        let flow = self.block(&imp.scope_block);
        let frame = self.frames.pop().unwrap();
        self.depth -= 1;
        let flow = flow?;
        let ret_ty = sig.return_type.return_type;
        let ret = match flow {
            Flow::Return(v) => self.coerce(v, ret_ty)?,
            Flow::Discard => return unsup("discard"),
            _ => {
                if matches!(self.layer(ret_ty), ir::TypeLayer::Void) {
                    Value::Void
                } else {
                    // falling off the end of a value returning function
                    return Err(Trap::Uninit);
                }
            }
        };
        // copy out in parameter order
        for (i, place) in out_places {
            let v = frame.locals.get(&imp.params[i].id.0).cloned().ok_or_else(|| Trap::IllTyped("lost parameter".into()))?;
            self.store(&place, v)?;
        }
        // write back `this`
        if let Some(tv) = frame.this {
            match (&this_place, call_type) {
                (Some(p), _) => {
                    if !matches!(p.root, Root::Temp(_)) {
                        self.store(p, tv)?;
                    }
                }
                (None, ir::CallType::MethodInternal) => {
                    self.frames.last_mut().unwrap().this = Some(tv);
                }
                _ => {}
            }
        }
        Ok(ret)
    }

    /// Call a function by id with argument values (entry point for the monitors). `outs` reports out/inout results.
    pub fn call_function(&mut self, id: ir::FunctionId, args: &[Value]) -> R<CallResult> {
        let m = self.m;
        let Some(imp) = m.function_registry.get_function_implementation(id).as_ref() else { return unsup("function without body") };
        let sig = m.function_registry.get_function_signature(id);
        if args.len() != imp.params.len() {
            return Err(Trap::IllTyped("argument count".into()));
        }
        let mut frame = Frame {
            locals: HashMap::new(),
            temps: Vec::new(),
            this: None,
        };
        for (p, a) in imp.params.iter().zip(args) {
            let v = match p.param_type.input_modifier {
                ir::InputModifier::Out => self.undef(p.param_type.type_id)?,
                _ => self.coerce(a.clone(), p.param_type.type_id)?,
            };
            frame.locals.insert(p.id.0, v);
        }
        self.depth = 1;
        self.frames.clear();
        self.frames.push(frame);
        let flow = self.block(&imp.scope_block);
        let frame = self.frames.pop().unwrap();
        self.depth = 0;
        let ret_ty = sig.return_type.return_type;
        let ret = match flow? {
            Flow::Return(v) => self.coerce(v, ret_ty)?,
            Flow::Discard => return unsup("discard"),
            _ => {
                if matches!(self.layer(ret_ty), ir::TypeLayer::Void) {
                    Value::Void
                } else {
                    return Err(Trap::Uninit);
                }
            }
        };
        let mut outs = Vec::new();
        for (i, p) in imp.params.iter().enumerate() {
            if !matches!(p.param_type.input_modifier, ir::InputModifier::In) {
                outs.push((i, frame.locals.get(&p.id.0).cloned().unwrap_or(Value::Void)));
            }
        }
        Ok(CallResult { ret, outs })
    }

    fn intrinsic_call(&mut self, intrinsic: &ir::Intrinsic, id: ir::FunctionId, args: &[ir::Expression]) -> R<Value> {
        use ir::Intrinsic as I;
        let vals = self.eval_all(args)?;
        let ret_ty = self.m.function_registry.get_function_signature(id).return_type.return_type;
        let simple = |op: Math| -> R<Value> { apply_math(op, &vals) };
        let r = match intrinsic {
            I::Abs => simple(Math::Abs)?,
            I::Min => simple(Math::Min)?,
            I::Max => simple(Math::Max)?,
            I::Clamp => simple(Math::Clamp)?,
            I::Saturate => simple(Math::Saturate)?,
            I::Floor => simple(Math::Floor)?,
            I::Ceil => simple(Math::Ceil)?,
            I::Trunc => simple(Math::Trunc)?,
            I::Frac => simple(Math::Frac)?,
            I::Sqrt => simple(Math::Sqrt)?,
            I::RcpSqrt => simple(Math::Rsqrt)?,
            I::Rcp => simple(Math::Rcp)?,
            I::Sign => simple(Math::Sign)?,
            I::Step => simple(Math::Step)?,
            I::Lerp => simple(Math::Lerp)?,
            I::Exp2 => simple(Math::Exp2)?,
            I::Log2 => simple(Math::Log2)?,
            I::Sin => simple(Math::Sin)?,
            I::Cos => simple(Math::Cos)?,
            I::Pow => simple(Math::Pow)?,
            I::Fmod => simple(Math::Fmod)?,
            I::IsNaN => simple(Math::IsNan)?,
            I::IsInfinite => simple(Math::IsInf)?,
            I::CountBits => simple(Math::CountBits)?,
            I::ReverseBits => simple(Math::ReverseBits)?,
            I::FirstBitLow => simple(Math::FirstBitLow)?,
            I::FirstBitHigh => simple(Math::FirstBitHigh)?,
            I::Dot => dot(&vals[0], &vals[1])?,
            I::Cross => cross(&vals[0], &vals[1])?,
            I::Any | I::All => {
                let lanes = vals[0].lanes()?;
                let mut acc = matches!(intrinsic, I::All);
                for l in lanes {
                    let t = l.truthy()?;
                    if matches!(intrinsic, I::All) {
                        acc &= t;
                    } else {
                        acc |= t;
                    }
                }
                Value::S(Scalar::Bool(acc))
            }
            I::Select => {
                let c = vals[0].lanes()?;
                let (a, b) = (vals[1].lanes()?, vals[2].lanes()?);
                if a.len() != c.len() || b.len() != c.len() {
                    return unsup("select with mixed sizes");
                }
                let mut out = Vec::new();
                for i in 0..c.len() {
                    out.push(if c[i].truthy()? { a[i] } else { b[i] });
                }
                Value::from_lanes(out, vals[1].is_vector())
            }
            I::AsInt | I::AsUInt | I::AsFloat => {
                let lanes = vals[0].lanes()?;
                let mut out = Vec::new();
                for l in lanes {
                    let bits: u32 = match l {
                        Scalar::Int(v) => v as u32,
                        Scalar::UInt(v) => v,
                        Scalar::Float(v) => v.to_bits(),
                        Scalar::Undef(_) => return Err(Trap::Uninit),
                        _ => return unsup("bit cast of this type"),
                    };
                    out.push(match intrinsic {
                        I::AsInt => Scalar::Int(bits as i32),
                        I::AsUInt => Scalar::UInt(bits),
                        _ => {
                            let f = f32::from_bits(bits);
                            if f.is_nan() {
                                // NaN payloads are not preserved by every implementation
                                return Err(Trap::Unspecified("asfloat producing NaN"));
                            }
                            Scalar::Float(f)
                        }
                    });
                }
                Value::from_lanes(out, vals[0].is_vector())
            }
            other => return unsup(format!("intrinsic {:?}", other)),
        };
        // the IR's declared return type decides the kind (e.g. sign returns int)
        match self.numeric(ret_ty) {
            Some((kind, n, is_vec)) => {
                let lanes = r.lanes()?;
                if lanes.len() != n {
                    return Err(Trap::IllTyped(format!("intrinsic {:?} produced {} lanes, declared {}", intrinsic, lanes.len(), n)));
                }
                let mut out = Vec::new();
                for l in lanes {
                    out.push(if l.kind() == kind { l } else { convert(&l, kind)? });
                }
                Ok(Value::from_lanes(out, is_vec))
            }
            None => Ok(r),
        }
    }

    // --------------------------------------------------------------------------------------------
    // statements
    // --------------------------------------------------------------------------------------------

    fn block(&mut self, block: &ir::ScopeBlock) -> R<Flow> {
        self.statements(&block.0)
    }

    fn statements(&mut self, list: &[ir::Statement]) -> R<Flow> {
        for st in list {
            match self.statement(st)? {
                Flow::Normal => {}
                other => return Ok(other),
            }
        }
        Ok(Flow::Normal)
    }

    fn declare(&mut self, def: &ir::VarDef) -> R<()> {
        let var = self.m.variable_registry.get_local_variable(def.id);
        let ty = var.type_id;
        if var.storage_class == ir::LocalStorage::Static {
            if !self.static_locals.contains_key(&def.id.0) {
                let v = match &def.init {
                    Some(init) => self.eval_initializer(init, ty)?,
                    None => self.undef(ty)?,
                };
                self.static_locals.insert(def.id.0, v);
            }
            return Ok(());
        }
        let v = match &def.init {
            Some(init) => self.eval_initializer(init, ty)?,
            None => self.undef(ty)?,
        };
        self.frame().locals.insert(def.id.0, v);
        Ok(())
    }

    fn cond(&mut self, e: &ir::Expression) -> R<bool> {
        let v = self.eval(e)?;
        v.scalar()?.truthy()
    }

    fn statement(&mut self, st: &ir::Statement) -> R<Flow> {
        self.tick()?;
        // temporaries die at the end of each full expression statement
        match &st.kind {
            ir::StatementKind::Expression(e) => {
                self.eval(e)?;
                Ok(Flow::Normal)
            }
            ir::StatementKind::Var(def) => {
                self.declare(def)?;
                Ok(Flow::Normal)
            }
            ir::StatementKind::Block(b) => self.block(b),
            ir::StatementKind::If(c, b) => {
                if self.cond(c)? {
                    self.block(b)
                } else {
                    Ok(Flow::Normal)
                }
            }
            ir::StatementKind::IfElse(c, a, b) => {
                if self.cond(c)? {
                    self.block(a)
                } else {
                    self.block(b)
                }
            }
            ir::StatementKind::For(init, cond, inc, body) => {
                match init {
                    ir::ForInit::Empty => {}
                    ir::ForInit::Expression(e) => {
                        self.eval(e)?;
                    }
                    ir::ForInit::Definitions(defs) => {
                        for d in defs {
                            self.declare(d)?;
                        }
                    }
                }
                loop {
                    self.tick()?;
                    if let Some(c) = cond {
                        if !self.cond(c)? {
                            break;
                        }
                    }
                    match self.block(body)? {
                        Flow::Break => break,
                        Flow::Normal | Flow::Continue => {}
                        other => return Ok(other),
                    }
                    if let Some(i) = inc {
                        self.eval(i)?;
                    }
                }
                Ok(Flow::Normal)
            }
            ir::StatementKind::While(c, body) => {
                loop {
                    self.tick()?;
                    if !self.cond(c)? {
                        break;
                    }
                    match self.block(body)? {
                        Flow::Break => break,
                        Flow::Normal | Flow::Continue => {}
                        other => return Ok(other),
                    }
                }
                Ok(Flow::Normal)
            }
            ir::StatementKind::DoWhile(body, c) => {
                loop {
                    self.tick()?;
                    match self.block(body)? {
                        Flow::Break => break,
                        Flow::Normal | Flow::Continue => {}
                        other => return Ok(other),
                    }
                    if !self.cond(c)? {
                        break;
                    }
                }
                Ok(Flow::Normal)
            }
            ir::StatementKind::Switch(e, body) => {
                let v = self.eval(e)?;
                let key: i128 = match v {
                    Value::Enum(_, x) => x as i128,
                    other => match other.scalar()? {
                        Scalar::Int(x) => x as i128,
                        Scalar::UInt(x) => x as i128,
                        Scalar::LitInt(x) => x,
                        Scalar::Bool(b) => b as i128,
                        Scalar::Undef(_) => return Err(Trap::Uninit),
                        _ => return Err(Trap::IllTyped("switch on non integer".into())),
                    },
                };
                let list = &body.0;
                let mut start = None;
                let mut default = None;
                for (i, s) in list.iter().enumerate() {
                    match &s.kind {
                        ir::StatementKind::CaseLabel(c) => {
                            let cv: i128 = match c {
                                ir::Constant::IntLiteral(x) => *x,
                                ir::Constant::Int32(x) => *x as i128,
                                ir::Constant::UInt32(x) => *x as i128,
                                ir::Constant::Bool(b) => *b as i128,
                                ir::Constant::Enum(_, inner) => match **inner {
                                    ir::Constant::IntLiteral(x) => x,
                                    ir::Constant::Int32(x) => x as i128,
                                    ir::Constant::UInt32(x) => x as i128,
                                    _ => return unsup("case label constant"),
                                },
                                _ => return unsup("case label constant"),
                            };
                            if cv == key && start.is_none() {
                                start = Some(i);
                            }
                        }
                        ir::StatementKind::DefaultLabel => default = Some(i),
                        _ => {}
                    }
                }
                let Some(start) = start.or(default) else { return Ok(Flow::Normal) };
                for s in &list[start..] {
                    match self.statement(s)? {
                        Flow::Normal => {}
                        Flow::Break => return Ok(Flow::Normal),
                        other => return Ok(other),
                    }
                }
                Ok(Flow::Normal)
            }
            ir::StatementKind::Break => Ok(Flow::Break),
            ir::StatementKind::Continue => Ok(Flow::Continue),
            ir::StatementKind::Discard => Ok(Flow::Discard),
            ir::StatementKind::Return(None) => Ok(Flow::Return(Value::Void)),
            ir::StatementKind::Return(Some(e)) => {
                let v = self.eval(e)?;
                Ok(Flow::Return(v))
            }
            ir::StatementKind::CaseLabel(_) | ir::StatementKind::DefaultLabel => Ok(Flow::Normal),
        }
    }
}

/// Component-wise application of a math kernel over scalars/vectors (scalars splat)
pub fn apply_math(op: Math, vals: &[Value]) -> R<Value> {
    let mut n = 1;
    let mut is_vec = false;
    let mut lanes: Vec<Vec<Scalar>> = Vec::new();
    for v in vals {
        let l = v.lanes()?;
        if v.is_vector() {
            is_vec = true;
        }
        if l.len() > 1 {
            if n > 1 && l.len() != n {
                return Err(Trap::IllTyped(format!("{:?} with vectors of different sizes", op)));
            }
            n = l.len();
        }
        lanes.push(l);
    }
    let mut out = Vec::with_capacity(n);
    for i in 0..n {
        let args: Vec<Scalar> = lanes.iter().map(|l| if l.len() == 1 { l[0] } else { l[i] }).collect();
        out.push(math(op, &args)?);
    }
    Ok(Value::from_lanes(out, is_vec))
}

pub fn dot(a: &Value, b: &Value) -> R<Value> {
    let (al, bl) = (a.lanes()?, b.lanes()?);
    if al.len() != bl.len() {
        return Err(Trap::IllTyped("dot with different sizes".into()));
    }
    // sum of products, accumulated left to right in the operand type. Implementations may fuse or reorder: only
    // exactly representable cases are compared
    let mut acc: Option<Scalar> = None;
    for (x, y) in al.iter().zip(&bl) {
        let p = binop(Bin::Mul, x, y)?;
        acc = Some(match acc {
            None => p,
            Some(a) => binop(Bin::Add, &a, &p)?,
        });
    }
    let r = acc.ok_or_else(|| Trap::IllTyped("empty dot".into()))?;
    if r.kind().is_float() {
        // check exactness in f64: if the f64 evaluation differs from the typed one, rounding/fusion could differ
        let mut exact = 0.0f64;
        for (x, y) in al.iter().zip(&bl) {
            exact += x.as_f64()? * y.as_f64()?;
        }
        if !(exact == r.as_f64()? || (exact.is_nan() && r.as_f64()?.is_nan())) {
            return Err(Trap::Unspecified("inexact dot product"));
        }
    }
    Ok(Value::S(r))
}

pub fn cross(a: &Value, b: &Value) -> R<Value> {
    let (al, bl) = (a.lanes()?, b.lanes()?);
    if al.len() != 3 || bl.len() != 3 {
        return Err(Trap::IllTyped("cross needs 3-vectors".into()));
    }
    let mut out = Vec::new();
    for (i, j) in [(1, 2), (2, 0), (0, 1)] {
        let p = binop(Bin::Mul, &al[i], &bl[j])?;
        let q = binop(Bin::Mul, &al[j], &bl[i])?;
        let r = binop(Bin::Sub, &p, &q)?;
        let exact = al[i].as_f64()? * bl[j].as_f64()? - al[j].as_f64()? * bl[i].as_f64()?;
        if !(exact == r.as_f64()? || (exact.is_nan() && r.as_f64()?.is_nan())) {
            return Err(Trap::Unspecified("inexact cross product"));
        }
        out.push(r);
    }
    Ok(Value::V(out))
}
