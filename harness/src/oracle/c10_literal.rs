//! C10 reference model for numeric literals, written from the C / HLSL lexical grammar and from the
//! text of property C10 - not from rssl's lexer.
//!
//! * `read_literal` reads one integer or floating literal spelling and says what it denotes:
//!   integers exactly (u128, so 25 digits never overflow here), floats as "the double nearest to the
//!   decimal text, narrowed once to single precision when suffixed f or h".
//! * The nearest double comes from Rust's `str::parse::<f64>()`; `decimal_to_f64_bigint` is an
//!   independent big-integer implementation (exact rational arithmetic, round half to even) used to
//!   cross-check it, so that the oracle does not trust the same routine the lexer uses.

use std::cmp::Ordering;

// ------------------------------------------------------------------------------------------------
// Minimal unsigned big integer (little endian u32 limbs)
// ------------------------------------------------------------------------------------------------

#[derive(Clone, Debug, PartialEq, Eq)]
pub struct Big(Vec<u32>);

impl Big {
    pub fn zero() -> Big {
        Big(Vec::new())
    }
    pub fn from_u64(v: u64) -> Big {
        let mut b = Big(vec![v as u32, (v >> 32) as u32]);
        b.trim();
        b
    }
    fn trim(&mut self) {
        while let Some(0) = self.0.last() {
            self.0.pop();
        }
    }
    pub fn is_zero(&self) -> bool {
        self.0.is_empty()
    }
    pub fn mul_small(&mut self, m: u32) {
        let mut carry = 0u64;
        for limb in self.0.iter_mut() {
            let v = (*limb as u64) * (m as u64) + carry;
            *limb = v as u32;
            carry = v >> 32;
        }
        if carry != 0 {
            self.0.push(carry as u32);
        }
        self.trim();
    }
    pub fn add_small(&mut self, a: u32) {
        let mut carry = a as u64;
        for limb in self.0.iter_mut() {
            if carry == 0 {
                break;
            }
            let v = (*limb as u64) + carry;
            *limb = v as u32;
            carry = v >> 32;
        }
        if carry != 0 {
            self.0.push(carry as u32);
        }
    }
    pub fn from_decimal(digits: &[u8]) -> Big {
        let mut b = Big::zero();
        for d in digits {
            b.mul_small(10);
            b.add_small((*d - b'0') as u32);
        }
        b
    }
    pub fn mul_pow10(&mut self, mut n: u32) {
        while n >= 9 {
            self.mul_small(1_000_000_000);
            n -= 9;
        }
        if n > 0 {
            self.mul_small(10u32.pow(n));
        }
    }
    pub fn mul_pow5(&mut self, mut n: u32) {
        while n >= 13 {
            self.mul_small(1_220_703_125);
            n -= 13;
        }
        if n > 0 {
            self.mul_small(5u32.pow(n));
        }
    }
    /// Decimal digits (no leading zeros; "0" for zero)
    pub fn to_decimal(&self) -> String {
        let mut limbs = self.0.clone();
        let mut chunks: Vec<u32> = Vec::new();
        while !limbs.is_empty() {
            let mut rem = 0u64;
            for limb in limbs.iter_mut().rev() {
                let v = (rem << 32) | *limb as u64;
                *limb = (v / 1_000_000_000) as u32;
                rem = v % 1_000_000_000;
            }
            chunks.push(rem as u32);
            while let Some(0) = limbs.last() {
                limbs.pop();
            }
        }
        let mut s = String::new();
        for (i, c) in chunks.iter().rev().enumerate() {
            if i == 0 {
                s.push_str(&c.to_string());
            } else {
                s.push_str(&format!("{:09}", c));
            }
        }
        if s.is_empty() {
            s.push('0');
        }
        s
    }
    pub fn bit_len(&self) -> i64 {
        match self.0.last() {
            None => 0,
            Some(top) => (self.0.len() as i64 - 1) * 32 + (32 - top.leading_zeros() as i64),
        }
    }
    pub fn shl(&self, bits: u32) -> Big {
        if self.is_zero() {
            return Big::zero();
        }
        let limbs = (bits / 32) as usize;
        let rem = bits % 32;
        let mut out = vec![0u32; limbs];
        if rem == 0 {
            out.extend_from_slice(&self.0);
        } else {
            let mut carry = 0u32;
            for limb in &self.0 {
                out.push((limb << rem) | carry);
                carry = limb >> (32 - rem);
            }
            if carry != 0 {
                out.push(carry);
            }
        }
        let mut b = Big(out);
        b.trim();
        b
    }
    pub fn cmp(&self, other: &Big) -> Ordering {
        if self.0.len() != other.0.len() {
            return self.0.len().cmp(&other.0.len());
        }
        for i in (0..self.0.len()).rev() {
            if self.0[i] != other.0[i] {
                return self.0[i].cmp(&other.0[i]);
            }
        }
        Ordering::Equal
    }
    /// self -= other (requires self >= other)
    pub fn sub_assign(&mut self, other: &Big) {
        let mut borrow = 0i64;
        for i in 0..self.0.len() {
            let o = if i < other.0.len() { other.0[i] as i64 } else { 0 };
            let mut v = self.0[i] as i64 - o - borrow;
            if v < 0 {
                v += 1 << 32;
                borrow = 1;
            } else {
                borrow = 0;
            }
            self.0[i] = v as u32;
        }
        assert_eq!(borrow, 0, "Big::sub_assign underflow");
        self.trim();
    }
}

/// The IEEE-754 binary64 value nearest to `digits x 10^exp10` (ties to even, overflow to infinity,
/// gradual underflow), computed with exact integer arithmetic.
pub fn decimal_to_f64_bigint(digits: &[u8], exp10: i64) -> f64 {
    let first = digits.iter().position(|d| *d != b'0').unwrap_or(digits.len());
    let digits = &digits[first..];
    if digits.is_empty() {
        return 0.0;
    }
    let magnitude = digits.len() as i64 + exp10; // value < 10^magnitude, >= 10^(magnitude-1)
    if magnitude > 400 {
        return f64::INFINITY;
    }
    if magnitude < -400 {
        return 0.0;
    }
    let mut num = Big::from_decimal(digits);
    let mut den = Big::from_u64(1);
    if exp10 >= 0 {
        num.mul_pow10(exp10 as u32);
    } else {
        den.mul_pow10((-exp10) as u32);
    }
    // choose e so that q = floor(num / (den * 2^e)) lies in [2^52, 2^53), but never below the subnormal exponent
    let mut e = num.bit_len() - den.bit_len() - 53;
    let scaled = |e: i64| -> (Big, Big) {
        if e >= 0 {
            (num.clone(), den.shl(e as u32))
        } else {
            (num.shl((-e) as u32), den.clone())
        }
    };
    loop {
        let (n, d) = scaled(e);
        if n.cmp(&d.shl(53)) != Ordering::Less {
            e += 1;
        } else if n.cmp(&d.shl(52)) == Ordering::Less {
            e -= 1;
        } else {
            break;
        }
    }
    if e < -1074 {
        e = -1074;
    }
    let (mut rem, d) = scaled(e);
    let mut q: u64 = 0;
    for i in (0..54u32).rev() {
        let t = d.shl(i);
        if rem.cmp(&t) != Ordering::Less {
            rem.sub_assign(&t);
            q |= 1 << i;
        }
    }
    // round half to even on the remainder
    match rem.shl(1).cmp(&d) {
        Ordering::Greater => q += 1,
        Ordering::Equal => q += q & 1,
        Ordering::Less => {}
    }
    if q == 1 << 53 {
        q = 1 << 52;
        e += 1;
    }
    if q < 1 << 52 {
        // subnormal (or zero): e is -1074 here
        debug_assert_eq!(e, -1074);
        return f64::from_bits(q);
    }
    let biased = e + 1075;
    if biased >= 2047 {
        return f64::INFINITY;
    }
    f64::from_bits(((biased as u64) << 52) | (q & ((1 << 52) - 1)))
}

// ------------------------------------------------------------------------------------------------
// Literal spellings
// ------------------------------------------------------------------------------------------------

#[derive(Clone, Copy, Debug, PartialEq, Eq)]
pub enum IntSuffix {
    None,
    /// u U
    U,
    /// l L
    L,
    /// ul uL Ul UL lu lU Lu LU
    UL,
}

#[derive(Clone, Copy, Debug, PartialEq, Eq)]
pub enum FloatSuffix {
    None,
    /// h H
    H,
    /// f F
    F,
    /// l L
    L,
}

#[derive(Clone, Copy, Debug, PartialEq, Eq)]
pub enum Base {
    Dec,
    Hex,
    Oct,
}

#[derive(Clone, Debug, PartialEq)]
pub enum Lit {
    Int { value: u128, base: Base, suffix: IntSuffix },
    /// `value` = nearest double of the decimal text (infinity for the `#INF` form)
    Float {
        value: f64,
        suffix: FloatSuffix,
        /// decimal digits of the significand (integer part followed by fraction part) and the power of ten to scale them by
        digits: Vec<u8>,
        exp10: i64,
        inf_form: bool,
    },
}

impl Lit {
    /// Single precision value of an f / h suffixed literal: the double narrowed once
    pub fn narrowed(&self) -> Option<f32> {
        match self {
            Lit::Float { value, suffix: FloatSuffix::F | FloatSuffix::H, .. } => Some(*value as f32),
            _ => None,
        }
    }
}

fn is_ident_char(c: u8) -> bool {
    c.is_ascii_alphanumeric() || c == b'_'
}

/// Read one literal at the start of `text`. Returns the literal and the number of bytes it spans.
/// Err when the text does not start with a well formed literal (including a literal that runs
/// straight into identifier characters).
pub fn read_literal(text: &str) -> Result<(Lit, usize), String> {
    let b = text.as_bytes();
    let n = b.len();
    if n == 0 {
        return Err("empty".into());
    }
    let mut i;
    // hexadecimal
    if n >= 2 && b[0] == b'0' && (b[1] == b'x' || b[1] == b'X') {
        i = 2;
        let mut value: u128 = 0;
        let start = i;
        while i < n && b[i].is_ascii_hexdigit() {
            value = value
                .checked_mul(16)
                .and_then(|v| v.checked_add((b[i] as char).to_digit(16).unwrap() as u128))
                .ok_or("hex literal beyond 128 bits")?;
            i += 1;
        }
        if i == start {
            return Err("0x without digits".into());
        }
        let (suffix, used) = read_int_suffix(&b[i..]);
        i += used;
        if i < n && is_ident_char(b[i]) {
            return Err("hex literal runs into identifier characters".into());
        }
        return Ok((Lit::Int { value, base: Base::Hex, suffix }, i));
    }
    // decimal digits
    i = 0;
    while i < n && b[i].is_ascii_digit() {
        i += 1;
    }
    let int_digits = &b[..i];
    let mut is_float = false;
    let mut frac_digits: &[u8] = &[];
    let mut j = i;
    if j < n && b[j] == b'.' {
        let k0 = j + 1;
        let mut k = k0;
        while k < n && b[k].is_ascii_digit() {
            k += 1;
        }
        if !int_digits.is_empty() || k > k0 {
            is_float = true;
            frac_digits = &b[k0..k];
            j = k;
        }
    }
    if int_digits.is_empty() && !is_float {
        return Err("not a literal".into());
    }
    // exponent
    let mut exp: i64 = 0;
    let mut has_exp = false;
    if j < n && (b[j] == b'e' || b[j] == b'E') {
        let mut k = j + 1;
        let mut neg = false;
        if k < n && (b[k] == b'+' || b[k] == b'-') {
            neg = b[k] == b'-';
            k += 1;
        }
        let k0 = k;
        let mut v: i64 = 0;
        while k < n && b[k].is_ascii_digit() {
            v = v.saturating_mul(10).saturating_add((b[k] - b'0') as i64);
            k += 1;
        }
        if k > k0 {
            has_exp = true;
            is_float = true;
            exp = if neg { -v } else { v };
            j = k;
        }
    }
    if !is_float {
        // integer: octal when it has a leading zero and more digits
        let (base, radix) = if int_digits.len() > 1 && int_digits[0] == b'0' { (Base::Oct, 8u128) } else { (Base::Dec, 10u128) };
        let mut value: u128 = 0;
        for d in int_digits {
            let dv = (*d - b'0') as u128;
            if dv >= radix {
                return Err("digit 8 or 9 in an octal literal".into());
            }
            value = value.checked_mul(radix).and_then(|v| v.checked_add(dv)).ok_or("integer literal beyond 128 bits")?;
        }
        let mut i = int_digits.len();
        let (suffix, used) = read_int_suffix(&b[i..]);
        i += used;
        if i < n && is_ident_char(b[i]) {
            return Err("integer literal runs into identifier characters".into());
        }
        return Ok((Lit::Int { value, base, suffix }, i));
    }
    // floating
    let mut digits: Vec<u8> = Vec::with_capacity(int_digits.len() + frac_digits.len());
    digits.extend_from_slice(int_digits);
    digits.extend_from_slice(frac_digits);
    let exp10 = exp.saturating_sub(frac_digits.len() as i64);
    let core = &text[..j];
    let mut value: f64 = parse_decimal_core(core)?;
    let mut inf_form = false;
    // HLSL spelling of infinity: 1.#INF (only on a non zero fraction without exponent)
    if b[j..].starts_with(b"#INF") {
        if has_exp || value == 0.0 {
            return Err("#INF on a zero or on a literal with an exponent".into());
        }
        inf_form = true;
        value = f64::INFINITY;
        j += 4;
    }
    let suffix = match b.get(j) {
        Some(b'f' | b'F') => FloatSuffix::F,
        Some(b'h' | b'H') => FloatSuffix::H,
        Some(b'l' | b'L') => FloatSuffix::L,
        _ => FloatSuffix::None,
    };
    if suffix != FloatSuffix::None {
        j += 1;
    }
    if j < n && is_ident_char(b[j]) {
        return Err("floating literal runs into identifier characters".into());
    }
    Ok((Lit::Float { value, suffix, digits, exp10, inf_form }, j))
}

/// Rust's correctly rounded conversion of `digits [. digits] [e[+-]digits]`
fn parse_decimal_core(core: &str) -> Result<f64, String> {
    // Rust accepts "1.", ".5", "1e5", "1.5E-3"; very long exponents are handled by saturating them ourselves
    if let Some(pos) = core.find(|c| c == 'e' || c == 'E') {
        let (mant, exp) = core.split_at(pos);
        let exp = &exp[1..];
        let (neg, expdigits) = match exp.as_bytes().first() {
            Some(b'-') => (true, &exp[1..]),
            Some(b'+') => (false, &exp[1..]),
            _ => (false, exp),
        };
        let mut v: i64 = 0;
        for d in expdigits.bytes() {
            v = v.saturating_mul(10).saturating_add((d - b'0') as i64);
        }
        let v = v.min(1_000_000);
        let text = format!("{}e{}{}", mant, if neg { "-" } else { "" }, v);
        text.parse::<f64>().map_err(|e| format!("rust cannot parse {:?}: {}", text, e))
    } else {
        core.parse::<f64>().map_err(|e| format!("rust cannot parse {:?}: {}", core, e))
    }
}

fn read_int_suffix(b: &[u8]) -> (IntSuffix, usize) {
    let u = |c: u8| c == b'u' || c == b'U';
    let l = |c: u8| c == b'l' || c == b'L';
    match b {
        [a, c, ..] if (u(*a) && l(*c)) || (l(*a) && u(*c)) => (IntSuffix::UL, 2),
        [a, ..] if u(*a) => (IntSuffix::U, 1),
        [a, ..] if l(*a) => (IntSuffix::L, 1),
        _ => (IntSuffix::None, 0),
    }
}

#[cfg(test)]
mod tests {
    use super::*;

    #[test]
    fn bigint_matches_known_values() {
        for (d, e, want) in [
            ("1", 0i64, 1.0f64),
            ("31308", -7, 0.0031308),
            ("55", -3, 0.055),
            ("17976931348623157", 292, f64::MAX),
            ("17976931348623159", 292, f64::INFINITY),
            ("5", -324, 5e-324),
            ("2", -324, 0.0),
            ("24703282292062328", -340, 5e-324),
            ("22250738585072014", -324, f64::MIN_POSITIVE),
            ("9007199254740993", 0, 9007199254740992.0),
            ("9007199254740995", 0, 9007199254740996.0),
        ] {
            assert_eq!(decimal_to_f64_bigint(d.as_bytes(), e).to_bits(), want.to_bits(), "{}e{}", d, e);
        }
    }
}
