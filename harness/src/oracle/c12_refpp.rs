//! Reference preprocessor for C12: macro replacement as specified by C99 6.10.3 (6.10.3.1 argument
//! substitution, 6.10.3.3 the ## operator, 6.10.3.4 rescanning and further replacement, 6.10.3.5 scope
//! of macro definitions) plus #include as textual paste and #pragma once.
//!
//! Written from the text of the standard, using the formulation of the committee's own algorithm
//! (D. Prosser, "Complete Macro Expansion Algorithm", X3J11/86-196): every token carries a *hide set*,
//! the set of macro names it must never again be replaced by ("blue paint", 6.10.3.4p2).
//!
//!   expand(T . TS)            = T . expand(TS)                                  if T in HS(T) or T is no macro
//!   expand(T . TS)            = expand(subst(body, {}, {}, HS(T) u {T}) . TS)    T object-like
//!   expand(T . ( . args ) TS) = expand(subst(body, FP, AP, (HS(T) n HS(')')) u {T}) . TS)
//!   subst: a parameter next to ## is replaced by the *unexpanded* argument (a placemarker when it is
//!          empty), every other parameter by the completely macro-replaced argument (expanded in
//!          isolation); then every ## glues its two neighbours; the hide set is added to every token.
//!
//! Only the subset named in the property's quantifier is decided. Everything C leaves undefined /
//! unspecified, and everything outside the quantifier, yields `RefOut::Undecided(class)`:
//!   * a ## whose result is not one valid token (6.10.3.3p3: undefined),
//!   * a ## operand (a body token or any token of the argument of a pasted parameter) which is the
//!     name of a defined macro (quantifier: "## operands are not themselves macro names"),
//!   * a function-like macro name whose argument list is not completely inside the same
//!     replacement context (HS(name) != HS(')')): nesting of such replacements is unspecified
//!     (C99 DR 268 / C90 DR 017 q.19),
//!   * a function-like macro name or an unterminated argument list at the end of a run of text lines
//!     (the invocation would continue across a directive or the end of an included file),
//!   * `#`-stringification, `defined`, conditionals, variadic macros.
//! A constraint violation of C (wrong number of arguments, malformed directive) yields `RefOut::Reject`.
//!
//! Nothing here was derived from rssl's implementation; it shares no code with it (own tokenizer).

use std::collections::HashSet;

#[derive(Clone, Copy, PartialEq, Eq, Debug, Hash)]
pub enum Kind {
    Id,
    Int,
    Punct,
    Str,
    /// internal to the reference (end of a replacement context); never part of a result
    End,
}

#[derive(Clone, Debug, PartialEq, Eq)]
pub struct Tok {
    pub kind: Kind,
    pub text: String,
    /// hide set: bit i = interned macro name i
    hs: u128,
    /// context-stack model: the name was met while its macro was being replaced
    noexp: bool,
}

impl Tok {
    fn new(kind: Kind, text: &str) -> Tok {
        Tok {
            kind,
            text: text.to_string(),
            hs: 0,
            noexp: false,
        }
    }
}

/// What the reference says about a translation unit
#[derive(Clone, Debug, PartialEq)]
pub enum RefOut {
    /// The token sequence after translation phase 4
    Tokens(Vec<(Kind, String)>),
    /// C requires a diagnostic (constraint violation)
    Reject(String),
    /// Undefined / unspecified in C, or outside the subset of the property
    Undecided(String),
}

/// What the reference did (feature histogram for the evidence)
#[derive(Clone, Debug, Default)]
pub struct Stats {
    pub object_expansions: u64,
    pub function_expansions: u64,
    pub arity: [u64; 4],
    pub pastes: u64,
    pub paste_made_macro_name: u64,
    pub placemarkers: u64,
    /// a macro name was met while it was in the token's hide set (blue paint decided the outcome)
    pub painted: u64,
    /// ... and that happened inside a function-like macro's argument (a painted name in the collected argument tokens, or
    /// met while an argument was being macro-replaced): the name is *re-examined* later, which is where 6.10.3.4p2's
    /// "no longer available for further replacement" matters
    pub painted_in_argument: u64,
    pub nested_paren_args: u64,
    pub comma_in_paren_args: u64,
    pub empty_args: u64,
    pub unused_args: u64,
    /// tokens examined by the reference (work measure; the step budget of the real run is derived from it)
    pub steps: u64,
    pub args_with_macros: u64,
    pub funlike_name_without_parens: u64,
    pub defines: u64,
    pub redefinitions: u64,
    pub undefs_effective: u64,
    pub undefs_noop: u64,
    pub includes: u64,
    pub includes_skipped_once: u64,
    pub includes_resolved_relative: u64,
    pub includes_involving_directories: u64,
    pub pragma_once: u64,
    pub max_include_depth: u64,
    pub max_expansion_depth: u64,
    pub multi_line_invocations: u64,
}

#[derive(Clone, Debug)]
enum Body {
    Tok(Tok),
    Param(usize),
    Paste,
}

#[derive(Clone, Debug)]
struct Macro {
    name: String,
    /// None = object-like
    params: Option<Vec<String>>,
    body: Vec<Body>,
}

enum Stop {
    Reject(String),
    Undecided(String),
}

const PUNCT: [&str; 36] = [
    "++", "--", "+=", "-=", "*=", "/=", "%=", "==", "!=", "&&", "||", "&=", "|=", "^=", "::", "##", "(", ")", ",", ";", "+", "-", "*", "/", "%", "=", "[", "]",
    "{", "}", ".", "!", "&", "|", "^", "~",
];
const PUNCT_MORE: [&str; 3] = ["?", ":", "#"];

/// Tokenise one logical line (no newlines). None = a character outside the subset
pub fn lex(line: &str) -> Option<Vec<Tok>> {
    let b = line.as_bytes();
    let mut i = 0;
    let mut out = Vec::new();
    'outer: while i < b.len() {
        let c = b[i];
        if c == b' ' || c == b'\t' || c == b'\r' || c == b'\n' {
            i += 1;
            continue;
        }
        if c.is_ascii_alphabetic() || c == b'_' {
            let s = i;
            while i < b.len() && (b[i].is_ascii_alphanumeric() || b[i] == b'_') {
                i += 1;
            }
            out.push(Tok::new(Kind::Id, &line[s..i]));
            continue;
        }
        if c.is_ascii_digit() {
            let s = i;
            while i < b.len() && b[i].is_ascii_digit() {
                i += 1;
            }
            // a pp-number continues over letters; those are outside the subset
            if i < b.len() && (b[i].is_ascii_alphabetic() || b[i] == b'_' || b[i] == b'.') {
                return None;
            }
            out.push(Tok::new(Kind::Int, &line[s..i]));
            continue;
        }
        if c == b'"' {
            let s = i + 1;
            i += 1;
            while i < b.len() && b[i] != b'"' {
                if b[i] == b'\\' {
                    return None;
                }
                i += 1;
            }
            if i >= b.len() {
                return None;
            }
            out.push(Tok::new(Kind::Str, &line[s..i]));
            i += 1;
            continue;
        }
        if c == b'/' && i + 1 < b.len() && (b[i + 1] == b'/' || b[i + 1] == b'*') {
            // comments are outside the subset
            return None;
        }
        for p in PUNCT.iter().chain(PUNCT_MORE.iter()) {
            if line[i..].starts_with(p) {
                out.push(Tok::new(Kind::Punct, p));
                i += p.len();
                continue 'outer;
            }
        }
        return None;
    }
    Some(out)
}

pub struct RefPp<'a> {
    files: &'a [(String, String)],
    macros: Vec<Macro>,
    names: Vec<String>,
    once: HashSet<String>,
    /// context-stack model: macros whose replacement is still being rescanned
    active: u128,
    out: Vec<Tok>,
    steps: u64,
    depth: u64,
    pub stats: Stats,
}

const MAX_STEPS: u64 = 400_000;
pub const MAX_OUTPUT: usize = 1000;
const MAX_INCLUDE_DEPTH: u64 = 24;
const MAX_EXPANSION_DEPTH: u64 = 200;

/// Run the reference on an in-memory file set. `predefined` are (name, value) pairs which the property says behave
/// exactly like `#define name value` lines before the first line.
pub fn run(files: &[(String, String)], entry: &str, predefined: &[(String, String)]) -> (RefOut, Stats) {
    let mut pp = RefPp {
        files,
        macros: Vec::new(),
        names: Vec::new(),
        once: HashSet::new(),
        active: 0,
        out: Vec::new(),
        steps: 0,
        depth: 0,
        stats: Stats::default(),
    };
    let r = (|| {
        for (n, v) in predefined {
            if lex(n).map(|t| t.len() != 1 || t[0].kind != Kind::Id).unwrap_or(true) {
                return Err(Stop::Undecided("predefined-name-is-not-an-identifier".into()));
            }
            pp.directive(&format!("define {} {}", n, v), entry, 0)?;
        }
        pp.file(entry, 0)
    })();
    pp.stats.steps = pp.steps;
    let out = match r {
        Ok(()) => RefOut::Tokens(pp.out.iter().map(|t| (t.kind, t.text.clone())).collect()),
        Err(Stop::Reject(s)) => RefOut::Reject(s),
        Err(Stop::Undecided(s)) => RefOut::Undecided(s),
    };
    (out, pp.stats)
}

impl<'a> RefPp<'a> {
    fn intern(&mut self, name: &str) -> Result<u128, Stop> {
        let idx = match self.names.iter().position(|n| n == name) {
            Some(i) => i,
            None => {
                self.names.push(name.to_string());
                self.names.len() - 1
            }
        };
        if idx >= 120 {
            return Err(Stop::Undecided("too-many-macro-names".into()));
        }
        Ok(1u128 << idx)
    }

    fn find(&self, name: &str) -> Option<usize> {
        self.macros.iter().position(|m| m.name == name)
    }

    fn step(&mut self) -> Result<(), Stop> {
        self.steps += 1;
        if self.steps > MAX_STEPS {
            return Err(Stop::Undecided("reference-step-limit".into()));
        }
        Ok(())
    }

    // ---------------------------------------------------------------------------------------------
    // files and directives (translation phases 2-4, 6.10.2 as textual paste, 6.10.3.5 scope)
    // ---------------------------------------------------------------------------------------------

    fn file(&mut self, name: &str, depth: u64) -> Result<(), Stop> {
        if depth > MAX_INCLUDE_DEPTH {
            return Err(Stop::Undecided("include-depth".into()));
        }
        if depth > self.stats.max_include_depth {
            self.stats.max_include_depth = depth;
        }
        let Some(text) = self.files.iter().find(|f| f.0 == name).map(|f| f.1.clone()) else {
            return Err(Stop::Reject(format!("file not found: {}", name)));
        };
        if !text.is_empty() && !text.ends_with('\n') {
            // 5.1.1.2p2: a non-empty source file shall end in a new-line character (undefined otherwise)
            return Err(Stop::Undecided("file-without-final-newline".into()));
        }
        // phase 2: line splicing
        let text = text.replace("\\\r\n", "").replace("\\\n", "");
        let mut pending: Vec<Tok> = Vec::new();
        // 6.10.1: #ifdef / #ifndef / #else / #endif groups (the only conditionals of the subset): (group is processed, a group of
        // the chain was already taken). Lines of a group that is not processed - directives included - have no effect at all.
        let mut groups: Vec<(bool, bool)> = Vec::new();
        for line in text.split('\n') {
            let line = line.trim_end_matches('\r');
            let trimmed = line.trim_start_matches([' ', '\t']);
            let processed = groups.iter().all(|g| g.0);
            if let Some(rest) = trimmed.strip_prefix('#') {
                let body = rest.trim();
                let dname: String = body.chars().take_while(|c| c.is_ascii_alphanumeric() || *c == '_').collect();
                match dname.as_str() {
                    "ifdef" | "ifndef" => {
                        self.flush(&mut pending)?;
                        let arg = body[dname.len()..].trim();
                        if arg.is_empty() || !arg.chars().all(|c| c.is_ascii_alphanumeric() || c == '_') || arg.chars().next().map(|c| c.is_ascii_digit()).unwrap_or(true) {
                            return Err(Stop::Undecided("directive-outside-subset".into()));
                        }
                        let take = processed && (self.find(arg).is_some() == (dname == "ifdef"));
                        groups.push((take, take));
                        continue;
                    }
                    "else" => {
                        self.flush(&mut pending)?;
                        let Some((_, taken)) = groups.pop() else { return Err(Stop::Reject("#else without a conditional".into())) };
                        let outer = groups.iter().all(|g| g.0);
                        groups.push((outer && !taken, true));
                        continue;
                    }
                    "endif" => {
                        self.flush(&mut pending)?;
                        if groups.pop().is_none() {
                            return Err(Stop::Reject("#endif without a conditional".into()));
                        }
                        continue;
                    }
                    "if" | "elif" => return Err(Stop::Undecided("directive-outside-subset".into())),
                    _ => {}
                }
                if !processed {
                    continue;
                }
                self.flush(&mut pending)?;
                self.directive(rest, name, depth)?;
            } else if !processed {
                continue;
            } else {
                let Some(toks) = lex(line) else {
                    return Err(Stop::Undecided("text-outside-subset".into()));
                };
                // remember line breaks inside the run only to report multi line invocations
                let mark = pending.len();
                pending.extend(toks);
                if mark > 0 && pending.len() > mark {
                    pending[mark].hs |= LINE_START;
                }
            }
        }
        if !groups.is_empty() {
            return Err(Stop::Reject("conditional not terminated in its file".into()));
        }
        self.flush(&mut pending)
    }

    /// Text lines between two directives are macro-expanded as one run (an invocation may span lines, 6.10.3p10)
    fn flush(&mut self, pending: &mut Vec<Tok>) -> Result<(), Stop> {
        if pending.is_empty() {
            return Ok(());
        }
        let input = std::mem::take(pending);
        let expanded = self.expand(input, true)?;
        self.out.extend(expanded);
        if self.out.len() > MAX_OUTPUT {
            return Err(Stop::Undecided("output-too-big".into()));
        }
        Ok(())
    }

    fn directive(&mut self, rest: &str, file: &str, depth: u64) -> Result<(), Stop> {
        let body = rest.trim();
        if body.is_empty() {
            return Ok(()); // null directive
        }
        let name_len = body.bytes().take_while(|c| c.is_ascii_alphanumeric() || *c == b'_').count();
        let (dname, dargs) = body.split_at(name_len);
        if dname == "include" {
            let t = dargs.trim();
            let name = if let Some(n) = t.strip_prefix('"').and_then(|t| t.strip_suffix('"')) {
                n
            } else if let Some(n) = t.strip_prefix('<').and_then(|t| t.strip_suffix('>')) {
                n
            } else {
                return Err(Stop::Undecided("include-form-outside-subset".into()));
            };
            if name.is_empty() || name.contains(['<', '>', '"', '\\', ' ']) {
                return Err(Stop::Undecided("include-form-outside-subset".into()));
            }
            self.stats.includes += 1;
            // Which file a name denotes is the include handler's business (6.10.2: implementation-defined search). The
            // harness's handler looks relative to the directory of the including file first, then takes the name as
            // given; the identity of a file (for #pragma once) is the name the handler resolved it to.
            let resolved = {
                let relative = match file.rfind('/') {
                    Some(p) => format!("{}/{}", &file[..p], name),
                    None => name.to_string(),
                };
                let relative = normalise_path(&relative);
                if relative.as_deref().map(|r| self.files.iter().any(|f| f.0 == r)).unwrap_or(false) {
                    relative.unwrap()
                } else {
                    name.to_string()
                }
            };
            if resolved != name {
                self.stats.includes_resolved_relative += 1;
            }
            if resolved.contains('/') || file.contains('/') {
                self.stats.includes_involving_directories += 1;
            }
            if self.once.contains(&resolved) {
                self.stats.includes_skipped_once += 1;
                return Ok(());
            }
            // "#include is equivalent to pasting the file's contents at that point"
            return self.file(&resolved, depth + 1);
        }
        let Some(toks) = lex(dargs) else {
            return Err(Stop::Undecided("directive-outside-subset".into()));
        };
        match dname {
            "define" => self.define(dargs, &toks),
            "undef" => {
                if toks.len() != 1 || toks[0].kind != Kind::Id {
                    return Err(Stop::Reject("malformed #undef".into()));
                }
                match self.find(&toks[0].text) {
                    Some(i) => {
                        self.macros.remove(i);
                        self.stats.undefs_effective += 1;
                    }
                    None => self.stats.undefs_noop += 1, // 6.10.3.5p2: ignored
                }
                Ok(())
            }
            "pragma" => {
                if toks.len() == 1 && toks[0].text == "once" {
                    // "a #pragma once file contributes once per compilation": later inclusions paste nothing
                    self.once.insert(file.to_string());
                    self.stats.pragma_once += 1;
                    Ok(())
                } else {
                    Err(Stop::Undecided("pragma-outside-subset".into()))
                }
            }
            _ => Err(Stop::Undecided("directive-outside-subset".into())),
        }
    }

    fn define(&mut self, raw: &str, toks: &[Tok]) -> Result<(), Stop> {
        let Some(name) = toks.first() else {
            return Err(Stop::Reject("malformed #define".into()));
        };
        if name.kind != Kind::Id {
            return Err(Stop::Reject("malformed #define".into()));
        }
        if name.text == "defined" {
            return Err(Stop::Reject("#define defined".into()));
        }
        // function-like iff '(' follows the name immediately, without white space (6.10.3p10)
        let after_name = {
            let t = raw.trim_start();
            &t[name.text.len().min(t.len())..]
        };
        let function_like = after_name.starts_with('(');
        let toks = &toks[1..];
        let mut idx = 0;
        let mut params: Option<Vec<String>> = None;
        if function_like {
            let mut ps = Vec::new();
            idx = 1;
            if toks.get(idx).map(|t| t.text.as_str()) == Some(")") && toks[idx].kind == Kind::Punct {
                idx += 1;
            } else {
                loop {
                    match toks.get(idx) {
                        Some(t) if t.kind == Kind::Id => {
                            if ps.contains(&t.text) {
                                return Err(Stop::Reject("duplicate parameter".into()));
                            }
                            ps.push(t.text.clone());
                        }
                        _ => return Err(Stop::Reject("malformed parameter list".into())),
                    }
                    idx += 1;
                    match toks.get(idx) {
                        Some(t) if t.kind == Kind::Punct && t.text == "," => idx += 1,
                        Some(t) if t.kind == Kind::Punct && t.text == ")" => {
                            idx += 1;
                            break;
                        }
                        _ => return Err(Stop::Reject("malformed parameter list".into())),
                    }
                }
            }
            params = Some(ps);
        }
        let mut body = Vec::new();
        for t in &toks[idx..] {
            if t.kind == Kind::Punct && t.text == "##" {
                body.push(Body::Paste);
            } else if t.kind == Kind::Punct && t.text == "#" {
                return Err(Stop::Undecided("stringification-outside-subset".into()));
            } else if t.kind == Kind::Str {
                return Err(Stop::Undecided("string-outside-subset".into()));
            } else if let Some(p) = params.as_ref().and_then(|ps| ps.iter().position(|p| t.kind == Kind::Id && *p == t.text)) {
                body.push(Body::Param(p));
            } else {
                if t.kind == Kind::Id && (t.text == "defined" || t.text == "__VA_ARGS__") {
                    return Err(Stop::Undecided("defined-outside-subset".into()));
                }
                body.push(Body::Tok(t.clone()));
            }
        }
        // 6.10.3.3p1: ## shall not occur at the beginning or at the end of a replacement list
        if matches!(body.first(), Some(Body::Paste)) || matches!(body.last(), Some(Body::Paste)) {
            return Err(Stop::Reject("## at edge of replacement list".into()));
        }
        for w in body.windows(2) {
            if matches!(w, [Body::Paste, Body::Paste]) {
                return Err(Stop::Undecided("adjacent-##".into()));
            }
        }
        self.intern(&name.text)?;
        self.stats.defines += 1;
        let m = Macro {
            name: name.text.clone(),
            params,
            body,
        };
        // "redefinition ... take[s] effect from [its] line onward"
        match self.find(&name.text) {
            Some(i) => {
                self.stats.redefinitions += 1;
                self.macros[i] = m;
            }
            None => self.macros.push(m),
        }
        Ok(())
    }

    // ---------------------------------------------------------------------------------------------
    // 6.10.3.4 rescanning and further replacement
    // ---------------------------------------------------------------------------------------------

    /// Completely macro-replace a token sequence. `top` = a run of text lines (more of the file follows), otherwise an
    /// argument, which is replaced "as if it formed the rest of the preprocessing file" (6.10.3.1p1).
    fn expand(&mut self, input: Vec<Tok>, top: bool) -> Result<Vec<Tok>, Stop> {
        self.depth += 1;
        if self.depth > self.stats.max_expansion_depth {
            self.stats.max_expansion_depth = self.depth;
        }
        if self.depth > MAX_EXPANSION_DEPTH {
            return Err(Stop::Undecided("reference-depth-limit".into()));
        }
        let r = self.expand_inner(input, top);
        self.depth -= 1;
        r
    }

    fn expand_inner(&mut self, input: Vec<Tok>, top: bool) -> Result<Vec<Tok>, Stop> {
        // work = remaining input, reversed (the next token is at the end)
        let mut work: Vec<Tok> = input;
        work.reverse();
        let mut out: Vec<Tok> = Vec::new();
        while let Some(mut t) = work.pop() {
            self.step()?;
            if t.kind == Kind::End {
                self.active &= !t.hs;
                continue;
            }
            t.hs &= !LINE_START;
            if t.kind != Kind::Id {
                out.push(t);
                continue;
            }
            let Some(mi) = self.find(&t.text) else {
                out.push(t);
                continue;
            };
            let bit = self.intern(&t.text)?;
            // Two readings of 6.10.3.4 are in use: hide sets carried by tokens (Prosser; a name stays hidden from every
            // macro whose replacement produced it) and a stack of replacement contexts plus a no-expand flag per token (GCC,
            // clang; a macro is disabled while its replacement is being rescanned). They differ exactly where the standard
            // is unclear (DR 268: a function-like name produced by a replacement that has ended picks up its arguments
            // later). The reference runs both and decides only where they agree.
            let hidden = t.hs & bit != 0;
            let disabled = t.noexp || self.active & bit != 0;
            if hidden != disabled {
                return Err(Stop::Undecided("rescanning-models-disagree".into()));
            }
            if hidden {
                // 6.10.3.4p2: not replaced, and no longer available for further replacement (the bit stays)
                t.noexp = true;
                self.stats.painted += 1;
                if !top {
                    self.stats.painted_in_argument += 1;
                }
                // C is clear here (the name stays), but when the name is function-like and the parenthesis list after it
                // does not come from the same replacement, this is the "function-like name at the end of a replacement
                // taking its arguments from outside" region for which RSSL defines its own rules (its unit tests
                // test_macro_recursion / test_concat pin them): taken out of the subset like the un-painted case below.
                let next_real = work.iter().rev().find(|n| n.kind != Kind::End);
                if self.macros[mi].params.is_some() && matches!(next_real, Some(n) if n.kind == Kind::Punct && n.text == "(") {
                    let mut depth = 0usize;
                    let mut close: Option<u128> = None;
                    for a in work.iter().rev() {
                        if a.kind == Kind::Punct && a.text == "(" {
                            depth += 1;
                        } else if a.kind == Kind::Punct && a.text == ")" {
                            depth -= 1;
                            if depth == 0 {
                                close = Some(a.hs & !LINE_START);
                                break;
                            }
                        }
                    }
                    if close != Some(t.hs) {
                        return Err(Stop::Undecided("invocation-spans-replacement-boundary".into()));
                    }
                }
                out.push(t);
                continue;
            }
            let is_function = self.macros[mi].params.is_some();
            if !is_function {
                self.stats.object_expansions += 1;
                let m = self.macros[mi].clone();
                let r = self.subst(&m, &[], t.hs | bit)?;
                if work.len() + r.len() > 4 * MAX_OUTPUT {
                    return Err(Stop::Undecided("output-too-big".into()));
                }
                self.active |= bit;
                work.push(Tok { kind: Kind::End, text: String::new(), hs: bit, noexp: false });
                work.extend(r.into_iter().rev());
                continue;
            }
            // function-like: only an invocation when the next token is '('. Looking for it beyond the end of a replacement
            // ends that replacement (context-stack model); an object-like macro above is replaced while the contexts it
            // is the last token of are still in place.
            while matches!(work.last(), Some(n) if n.kind == Kind::End) {
                let e = work.pop().unwrap();
                self.active &= !e.hs;
            }
            match work.last() {
                Some(n) if n.kind == Kind::Punct && n.text == "(" => {}
                Some(_) => {
                    self.stats.funlike_name_without_parens += 1;
                    out.push(t);
                    continue;
                }
                None => {
                    if top {
                        // the next token would come from after a directive / the end of the file
                        return Err(Stop::Undecided("function-like-name-at-end-of-text-run".into()));
                    }
                    self.stats.funlike_name_without_parens += 1;
                    out.push(t);
                    continue;
                }
            }
            work.pop(); // (
            let mut args: Vec<Vec<Tok>> = vec![Vec::new()];
            let mut depth = 0usize;
            let mut multi_line = false;
            let rparen;
            loop {
                let Some(mut a) = work.pop() else {
                    return Err(Stop::Undecided(if top { "argument-list-not-closed-in-text-run".into() } else { "argument-list-not-closed-in-argument".into() }));
                };
                if a.kind == Kind::End {
                    // the argument list continues past the end of a replacement: that context is over
                    self.active &= !a.hs;
                    continue;
                }
                if a.hs & LINE_START != 0 {
                    multi_line = true;
                    a.hs &= !LINE_START;
                }
                if a.kind == Kind::Punct {
                    match a.text.as_str() {
                        "(" => {
                            depth += 1;
                            if depth == 1 {
                                self.stats.nested_paren_args += 1;
                            }
                        }
                        ")" => {
                            if depth == 0 {
                                rparen = a;
                                break;
                            }
                            depth -= 1;
                        }
                        "," => {
                            if depth == 0 {
                                args.push(Vec::new());
                                continue;
                            }
                            self.stats.comma_in_paren_args += 1;
                        }
                        _ => {}
                    }
                }
                args.last_mut().unwrap().push(a);
            }
            if multi_line {
                self.stats.multi_line_invocations += 1;
            }
            if t.hs != rparen.hs {
                // the name comes out of one replacement and (part of) its argument list from outside it
                return Err(Stop::Undecided("invocation-spans-replacement-boundary".into()));
            }
            let m = self.macros[mi].clone();
            let nparams = m.params.as_ref().unwrap().len();
            // 6.10.3p4: number of arguments shall equal the number of parameters
            let ok = if nparams == 0 { args.len() == 1 && args[0].is_empty() } else { args.len() == nparams };
            if !ok {
                return Err(Stop::Reject(format!("macro {} takes {} arguments, {} given", m.name, nparams, args.len())));
            }
            if nparams == 0 {
                args.clear();
            }
            self.stats.function_expansions += 1;
            self.stats.arity[nparams.min(3)] += 1;
            for a in &args {
                if a.is_empty() {
                    self.stats.empty_args += 1;
                }
                for x in a {
                    if x.kind == Kind::Id && self.find(&x.text).is_some() {
                        let b = self.intern(&x.text)?;
                        if x.hs & b != 0 {
                            self.stats.painted_in_argument += 1;
                        }
                    }
                }
                if a.iter().any(|x| x.kind == Kind::Id && self.find(&x.text).is_some()) {
                    self.stats.args_with_macros += 1;
                }
            }
            let r = self.subst(&m, &args, (t.hs & rparen.hs) | bit)?;
            if work.len() + r.len() > 4 * MAX_OUTPUT {
                return Err(Stop::Undecided("output-too-big".into()));
            }
            self.active |= bit;
            work.push(Tok { kind: Kind::End, text: String::new(), hs: bit, noexp: false });
            work.extend(r.into_iter().rev());
        }
        Ok(out)
    }

    /// 6.10.3.1 argument substitution + 6.10.3.3 the ## operator
    fn subst(&mut self, m: &Macro, args: &[Vec<Tok>], hs: u128) -> Result<Vec<Tok>, Stop> {
        #[derive(Clone)]
        enum Item {
            T(Tok),
            Placemarker,
            Paste,
        }
        let mut expanded: Vec<Option<Vec<Tok>>> = vec![None; args.len()];
        let mut items: Vec<Item> = Vec::new();
        for (i, b) in m.body.iter().enumerate() {
            let next_to_paste = (i > 0 && matches!(m.body[i - 1], Body::Paste)) || matches!(m.body.get(i + 1), Some(Body::Paste));
            match b {
                Body::Paste => items.push(Item::Paste),
                Body::Tok(t) => {
                    if next_to_paste && t.kind == Kind::Id && self.find(&t.text).is_some() {
                        return Err(Stop::Undecided("paste-operand-is-macro-name".into()));
                    }
                    items.push(Item::T(t.clone()));
                }
                Body::Param(p) => {
                    if next_to_paste {
                        // 6.10.3.1p1: a parameter next to ## is replaced by the argument's tokens, not macro-replaced
                        let a = &args[*p];
                        if a.iter().any(|x| x.kind == Kind::Id && self.find(&x.text).is_some()) {
                            return Err(Stop::Undecided("paste-operand-is-macro-name".into()));
                        }
                        if a.is_empty() {
                            // 6.10.3.3p2: replaced by a placemarker
                            self.stats.placemarkers += 1;
                            items.push(Item::Placemarker);
                        } else {
                            items.extend(a.iter().cloned().map(Item::T));
                        }
                    } else {
                        if expanded[*p].is_none() {
                            let e = self.expand(args[*p].clone(), false)?;
                            expanded[*p] = Some(e);
                        }
                        items.extend(expanded[*p].as_ref().unwrap().iter().cloned().map(Item::T));
                    }
                }
            }
        }
        // An argument whose parameter does not occur (un-pasted) in the replacement list is never macro-replaced in C.
        // Implementations may replace it eagerly all the same; that only shows when the unused replacement is itself
        // erroneous or undecided, and such programs are taken out of the subset (the result is discarded otherwise).
        for p in 0..args.len() {
            if expanded[p].is_none() && !args[p].is_empty() {
                let pasted_only = m.body.iter().any(|b| matches!(b, Body::Param(q) if *q == p));
                if pasted_only {
                    continue; // contains no macro names (checked above)
                }
                self.stats.unused_args += 1;
                match self.expand(args[p].clone(), false) {
                    Ok(_) => {}
                    Err(Stop::Reject(r)) | Err(Stop::Undecided(r)) => return Err(Stop::Undecided(format!("unused-argument-would-not-expand-cleanly ({})", r.split(' ').next().unwrap_or("")))),
                }
            }
        }
        // 6.10.3.3p3: each ## is deleted and the preceding token is concatenated with the following one.
        // Order of evaluation of several ## is unspecified; the generator only chains pastes whose result does not
        // depend on it (identifier/digit fragments), and an invalid intermediate token is Undecided in any case.
        let mut os: Vec<Item> = Vec::new();
        let mut it = items.into_iter();
        while let Some(item) = it.next() {
            match item {
                Item::Paste => {
                    let Some(right) = it.next() else {
                        return Err(Stop::Reject("## at edge".into()));
                    };
                    let Some(left) = os.pop() else {
                        return Err(Stop::Reject("## at edge".into()));
                    };
                    self.stats.pastes += 1;
                    let glued = match (left, right) {
                        (Item::Placemarker, r) => r,
                        (l, Item::Placemarker) => l,
                        (Item::T(l), Item::T(r)) => {
                            // also catches the *intermediate* result of a ## chain that is used as operand of the next ##
                            for o in [&l, &r] {
                                if o.kind == Kind::Id && self.find(&o.text).is_some() {
                                    return Err(Stop::Undecided("paste-operand-is-macro-name".into()));
                                }
                            }
                            let text = format!("{}{}", l.text, r.text);
                            match lex(&text) {
                                Some(v) if v.len() == 1 && v[0].text == text && v[0].kind != Kind::Str && text != "##" && text != "#" => {
                                    let mut n = v.into_iter().next().unwrap();
                                    n.hs = l.hs & r.hs;
                                    n.noexp = false;
                                    if n.kind == Kind::Id && self.find(&n.text).is_some() {
                                        self.stats.paste_made_macro_name += 1;
                                    }
                                    Item::T(n)
                                }
                                _ => return Err(Stop::Undecided("paste-result-is-not-one-token".into())),
                            }
                        }
                        _ => return Err(Stop::Undecided("adjacent-##".into())),
                    };
                    os.push(glued);
                }
                other => os.push(other),
            }
        }
        let mut out = Vec::new();
        for i in os {
            if let Item::T(mut t) = i {
                t.hs = (t.hs & !LINE_START) | hs;
                out.push(t);
            }
        }
        Ok(out)
    }
}

/// `a/b/../c` -> `a/c`; None when the path climbs out of the root
fn normalise_path(p: &str) -> Option<String> {
    let mut parts: Vec<&str> = Vec::new();
    for part in p.split('/') {
        if part == ".." {
            parts.pop()?;
        } else {
            parts.push(part);
        }
    }
    Some(parts.join("/"))
}

/// marker bit (not a macro name): first token of a physical line inside a run of text lines
const LINE_START: u128 = 1u128 << 127;
