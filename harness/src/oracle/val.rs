//! Value domain and numeric kernels shared by the two reference interpreters (irexec over the typed IR,
//! cexec over untyped syntax trees). Everything C/HLSL/MSL leave undefined or where the languages are
//! documented to differ is a TRAP: the sample is discarded, never compared.

use std::fmt;

#[derive(Clone, Copy, Debug, PartialEq, Eq, Hash, PartialOrd, Ord)]
pub enum Kind {
    Bool,
    Int,
    UInt,
    Half,
    Float,
    Double,
    LitInt,
    LitFloat,
}

impl Kind {
    pub fn is_float(self) -> bool {
        matches!(self, Kind::Half | Kind::Float | Kind::Double | Kind::LitFloat)
    }
    pub fn is_int(self) -> bool {
        matches!(self, Kind::Int | Kind::UInt | Kind::LitInt)
    }
    pub fn name(self) -> &'static str {
        match self {
            Kind::Bool => "bool",
            Kind::Int => "int",
            Kind::UInt => "uint",
            Kind::Half => "half",
            Kind::Float => "float",
            Kind::Double => "double",
            Kind::LitInt => "literal int",
            Kind::LitFloat => "literal float",
        }
    }
}

#[derive(Clone, Copy, Debug)]
pub enum Scalar {
    Bool(bool),
    Int(i32),
    UInt(u32),
    /// binary16 value held in an f32 (always exactly representable in binary16)
    Half(f32),
    Float(f32),
    Double(f64),
    LitInt(i128),
    LitFloat(f64),
    /// never written (uninitialised local, unwritten out parameter); reading it in a computation traps
    Undef(Kind),
}

#[derive(Clone, Debug, PartialEq)]
pub enum Trap {
    DivZero,
    IntOverflowDiv,
    FloatToIntRange,
    OutOfBounds,
    Uninit,
    Depth,
    Steps,
    /// semantics unspecified / differ between the languages (NaN into min/max, ...)
    Unspecified(&'static str),
    /// the interpreter does not model this construct: sample unsupported (counted, skipped)
    Unsupported(String),
    /// the program being interpreted is ill formed for the dialect (a finding when it is generated output)
    IllTyped(String),
}

pub type R<T> = Result<T, Trap>;

impl Scalar {
    pub fn kind(&self) -> Kind {
        match self {
            Scalar::Bool(_) => Kind::Bool,
            Scalar::Int(_) => Kind::Int,
            Scalar::UInt(_) => Kind::UInt,
            Scalar::Half(_) => Kind::Half,
            Scalar::Float(_) => Kind::Float,
            Scalar::Double(_) => Kind::Double,
            Scalar::LitInt(_) => Kind::LitInt,
            Scalar::LitFloat(_) => Kind::LitFloat,
            Scalar::Undef(k) => *k,
        }
    }

    pub fn is_undef(&self) -> bool {
        matches!(self, Scalar::Undef(_))
    }

    pub fn zero(kind: Kind) -> Scalar {
        match kind {
            Kind::Bool => Scalar::Bool(false),
            Kind::Int => Scalar::Int(0),
            Kind::UInt => Scalar::UInt(0),
            Kind::Half => Scalar::Half(0.0),
            Kind::Float => Scalar::Float(0.0),
            Kind::Double => Scalar::Double(0.0),
            Kind::LitInt => Scalar::LitInt(0),
            Kind::LitFloat => Scalar::LitFloat(0.0),
        }
    }

    /// Bit exact equality with all NaNs identified; Undef equals Undef
    pub fn same(&self, other: &Scalar) -> bool {
        match (self, other) {
            (Scalar::Bool(a), Scalar::Bool(b)) => a == b,
            (Scalar::Int(a), Scalar::Int(b)) => a == b,
            (Scalar::UInt(a), Scalar::UInt(b)) => a == b,
            (Scalar::Half(a), Scalar::Half(b)) | (Scalar::Float(a), Scalar::Float(b)) => (a.is_nan() && b.is_nan()) || a.to_bits() == b.to_bits(),
            (Scalar::Double(a), Scalar::Double(b)) | (Scalar::LitFloat(a), Scalar::LitFloat(b)) => (a.is_nan() && b.is_nan()) || a.to_bits() == b.to_bits(),
            (Scalar::LitInt(a), Scalar::LitInt(b)) => a == b,
            (Scalar::Undef(a), Scalar::Undef(b)) => a == b,
            _ => false,
        }
    }

    pub fn as_f64(&self) -> R<f64> {
        Ok(match self {
            Scalar::Bool(b) => *b as u8 as f64,
            Scalar::Int(v) => *v as f64,
            Scalar::UInt(v) => *v as f64,
            Scalar::Half(v) | Scalar::Float(v) => *v as f64,
            Scalar::Double(v) | Scalar::LitFloat(v) => *v,
            Scalar::LitInt(v) => *v as f64,
            Scalar::Undef(_) => return Err(Trap::Uninit),
        })
    }

    pub fn truthy(&self) -> R<bool> {
        Ok(match self {
            Scalar::Bool(b) => *b,
            Scalar::Int(v) => *v != 0,
            Scalar::UInt(v) => *v != 0,
            Scalar::Half(v) | Scalar::Float(v) => *v != 0.0,
            Scalar::Double(v) | Scalar::LitFloat(v) => *v != 0.0,
            Scalar::LitInt(v) => *v != 0,
            Scalar::Undef(_) => return Err(Trap::Uninit),
        })
    }
}

impl fmt::Display for Scalar {
    fn fmt(&self, f: &mut fmt::Formatter) -> fmt::Result {
        match self {
            Scalar::Bool(b) => write!(f, "{}", b),
            Scalar::Int(v) => write!(f, "{}", v),
            Scalar::UInt(v) => write!(f, "{}u", v),
            Scalar::Half(v) => write!(f, "{:?}h", v),
            Scalar::Float(v) => write!(f, "{:?}f", v),
            Scalar::Double(v) => write!(f, "{:?}L", v),
            Scalar::LitInt(v) => write!(f, "{}(lit)", v),
            Scalar::LitFloat(v) => write!(f, "{:?}(lit)", v),
            Scalar::Undef(k) => write!(f, "undef<{}>", k.name()),
        }
    }
}

// ------------------------------------------------------------------------------------------------
// binary16
// ------------------------------------------------------------------------------------------------

/// Round an f32 to the nearest binary16 value (ties to even) and return it as f32
pub fn round_f16(x: f32) -> f32 {
    f16_bits_to_f32(f32_to_f16_bits(x))
}

pub fn f32_to_f16_bits(x: f32) -> u16 {
    let bits = x.to_bits();
    let sign = ((bits >> 16) & 0x8000) as u16;
    let exp = ((bits >> 23) & 0xff) as i32;
    let mant = bits & 0x7f_ffff;
    if exp == 0xff {
        // inf / nan
        return sign | 0x7c00 | if mant != 0 { 0x200 } else { 0 };
    }
    let e = exp - 127 + 15;
    if e >= 0x1f {
        return sign | 0x7c00;
    }
    if e <= 0 {
        // subnormal or zero in half
        if e < -10 {
            return sign;
        }
        let m = mant | 0x80_0000;
        let shift = (14 - e) as u32;
        let half = m >> shift;
        let rem = m & ((1 << shift) - 1);
        let halfway = 1u32 << (shift - 1);
        let mut h = half as u16;
        if rem > halfway || (rem == halfway && (h & 1) == 1) {
            h += 1;
        }
        return sign | h;
    }
    let mut h = ((e as u32) << 10 | (mant >> 13)) as u16;
    let rem = mant & 0x1fff;
    if rem > 0x1000 || (rem == 0x1000 && (h & 1) == 1) {
        h += 1; // may carry into the exponent, which is the correct rounding (up to inf)
    }
    sign | h
}

pub fn f16_bits_to_f32(h: u16) -> f32 {
    let sign = ((h & 0x8000) as u32) << 16;
    let exp = ((h >> 10) & 0x1f) as u32;
    let mant = (h & 0x3ff) as u32;
    let bits = if exp == 0 {
        if mant == 0 {
            sign
        } else {
            // subnormal: value = mant * 2^-24
            let v = (mant as f32) * (1.0 / 16_777_216.0);
            return if sign != 0 { -v } else { v };
        }
    } else if exp == 0x1f {
        sign | 0x7f80_0000 | (mant << 13)
    } else {
        sign | ((exp + 127 - 15) << 23) | (mant << 13)
    };
    f32::from_bits(bits)
}

// ------------------------------------------------------------------------------------------------
// conversions
// ------------------------------------------------------------------------------------------------

fn float_to_i32(v: f64) -> R<i32> {
    if v.is_nan() {
        return Err(Trap::FloatToIntRange);
    }
    let t = v.trunc();
    if t < -2147483648.0 || t > 2147483647.0 {
        return Err(Trap::FloatToIntRange);
    }
    Ok(t as i32)
}

fn float_to_u32(v: f64) -> R<u32> {
    if v.is_nan() {
        return Err(Trap::FloatToIntRange);
    }
    let t = v.trunc();
    if t < 0.0 || t > 4294967295.0 {
        return Err(Trap::FloatToIntRange);
    }
    Ok(t as u32)
}

/// Convert a scalar to another kind with C/HLSL conversion rules
pub fn convert(v: &Scalar, to: Kind) -> R<Scalar> {
    // copying a value of the same kind is not a use: an indeterminate value may be passed around (both interpreters trap when
    // it is computed with, converted, tested or observed)
    if v.kind() == to {
        return Ok(*v);
    }
    Ok(match (v, to) {
        (Scalar::Undef(_), _) => return Err(Trap::Uninit),
        (_, Kind::Bool) => Scalar::Bool(v.truthy()?),
        (Scalar::Bool(b), Kind::Int) => Scalar::Int(*b as i32),
        (Scalar::Bool(b), Kind::UInt) => Scalar::UInt(*b as u32),
        (Scalar::Bool(b), Kind::LitInt) => Scalar::LitInt(*b as i128),
        (Scalar::Bool(b), Kind::Half) => Scalar::Half(*b as u8 as f32),
        (Scalar::Bool(b), Kind::Float) => Scalar::Float(*b as u8 as f32),
        (Scalar::Bool(b), Kind::Double) => Scalar::Double(*b as u8 as f64),
        (Scalar::Bool(b), Kind::LitFloat) => Scalar::LitFloat(*b as u8 as f64),

        (Scalar::Int(i), Kind::UInt) => Scalar::UInt(*i as u32),
        (Scalar::Int(i), Kind::LitInt) => Scalar::LitInt(*i as i128),
        (Scalar::Int(i), Kind::Half) => Scalar::Half(round_f16_from_f64(*i as f64)),
        (Scalar::Int(i), Kind::Float) => Scalar::Float(*i as f32),
        (Scalar::Int(i), Kind::Double) => Scalar::Double(*i as f64),
        (Scalar::Int(i), Kind::LitFloat) => Scalar::LitFloat(*i as f64),

        (Scalar::UInt(i), Kind::Int) => Scalar::Int(*i as i32),
        (Scalar::UInt(i), Kind::LitInt) => Scalar::LitInt(*i as i128),
        (Scalar::UInt(i), Kind::Half) => Scalar::Half(round_f16_from_f64(*i as f64)),
        (Scalar::UInt(i), Kind::Float) => Scalar::Float(*i as f32),
        (Scalar::UInt(i), Kind::Double) => Scalar::Double(*i as f64),
        (Scalar::UInt(i), Kind::LitFloat) => Scalar::LitFloat(*i as f64),

        // untyped integer literal: value must be representable modulo 2^32 (a literal such as 4294967295 given to an int wraps,
        // which is what every HLSL front end does); anything wider than 64 bits cannot be written
        (Scalar::LitInt(i), Kind::Int) => Scalar::Int(*i as i32),
        (Scalar::LitInt(i), Kind::UInt) => Scalar::UInt(*i as u32),
        (Scalar::LitInt(i), Kind::Half) => Scalar::Half(round_f16_from_f64(*i as f64)),
        (Scalar::LitInt(i), Kind::Float) => Scalar::Float(*i as f64 as f32),
        (Scalar::LitInt(i), Kind::Double) => Scalar::Double(*i as f64),
        (Scalar::LitInt(i), Kind::LitFloat) => Scalar::LitFloat(*i as f64),

        (Scalar::Half(f), Kind::Int) | (Scalar::Float(f), Kind::Int) => Scalar::Int(float_to_i32(*f as f64)?),
        (Scalar::Half(f), Kind::UInt) | (Scalar::Float(f), Kind::UInt) => Scalar::UInt(float_to_u32(*f as f64)?),
        (Scalar::Half(f), Kind::LitInt) | (Scalar::Float(f), Kind::LitInt) => Scalar::LitInt(float_to_i32(*f as f64)? as i128),
        (Scalar::Half(f), Kind::Float) => Scalar::Float(*f),
        (Scalar::Half(f), Kind::Double) | (Scalar::Float(f), Kind::Double) => Scalar::Double(*f as f64),
        (Scalar::Half(f), Kind::LitFloat) | (Scalar::Float(f), Kind::LitFloat) => Scalar::LitFloat(*f as f64),
        (Scalar::Float(f), Kind::Half) => Scalar::Half(round_f16(*f)),

        (Scalar::Double(f), Kind::Int) | (Scalar::LitFloat(f), Kind::Int) => Scalar::Int(float_to_i32(*f)?),
        (Scalar::Double(f), Kind::UInt) | (Scalar::LitFloat(f), Kind::UInt) => Scalar::UInt(float_to_u32(*f)?),
        (Scalar::Double(f), Kind::LitInt) | (Scalar::LitFloat(f), Kind::LitInt) => Scalar::LitInt(float_to_i32(*f)? as i128),
        (Scalar::Double(f), Kind::Half) | (Scalar::LitFloat(f), Kind::Half) => Scalar::Half(round_f16_from_f64(*f)),
        (Scalar::Double(f), Kind::Float) | (Scalar::LitFloat(f), Kind::Float) => Scalar::Float(*f as f32),
        (Scalar::Double(f), Kind::LitFloat) => Scalar::LitFloat(*f),
        (Scalar::LitFloat(f), Kind::Double) => Scalar::Double(*f),
        _ => return Err(Trap::Unsupported(format!("conversion {} -> {}", v.kind().name(), to.name()))),
    })
}

/// f64 -> binary16 with a single rounding (via f32 would round twice; do it exactly)
pub fn round_f16_from_f64(v: f64) -> f32 {
    let f = v as f32;
    // double rounding can only matter when the f32 rounding lands exactly on a binary16 tie; detect and fix up
    let h = round_f16(f);
    if (f as f64) == v {
        return h;
    }
    // f is inexact: if f lies exactly between two binary16 neighbours the tie must be broken by the real value
    let bits = f32_to_f16_bits(f);
    let lo = f16_bits_to_f32(bits);
    let (a, b) = if (lo as f64) <= v { (lo, f16_next_up(bits)) } else { (f16_next_down(bits), lo) };
    if !a.is_finite() || !b.is_finite() {
        return h;
    }
    let mid = (a as f64 + b as f64) / 2.0;
    if v < mid {
        a
    } else if v > mid {
        b
    } else {
        h
    }
}

fn f16_next_up(bits: u16) -> f32 {
    if bits & 0x8000 == 0 {
        f16_bits_to_f32(bits + 1)
    } else if bits == 0x8000 {
        f16_bits_to_f32(1)
    } else {
        f16_bits_to_f32(bits - 1)
    }
}

fn f16_next_down(bits: u16) -> f32 {
    if bits & 0x8000 != 0 {
        f16_bits_to_f32(bits + 1)
    } else if bits == 0 {
        f16_bits_to_f32(0x8001)
    } else {
        f16_bits_to_f32(bits - 1)
    }
}

// ------------------------------------------------------------------------------------------------
// operators on two scalars of the SAME kind
// ------------------------------------------------------------------------------------------------

#[derive(Clone, Copy, Debug, PartialEq, Eq, Hash)]
pub enum Bin {
    Add,
    Sub,
    Mul,
    Div,
    Mod,
    Shl,
    Shr,
    And,
    Or,
    Xor,
    Lt,
    Le,
    Gt,
    Ge,
    Eq,
    Ne,
}

impl Bin {
    pub fn is_compare(self) -> bool {
        matches!(self, Bin::Lt | Bin::Le | Bin::Gt | Bin::Ge | Bin::Eq | Bin::Ne)
    }
    pub fn name(self) -> &'static str {
        match self {
            Bin::Add => "+",
            Bin::Sub => "-",
            Bin::Mul => "*",
            Bin::Div => "/",
            Bin::Mod => "%",
            Bin::Shl => "<<",
            Bin::Shr => ">>",
            Bin::And => "&",
            Bin::Or => "|",
            Bin::Xor => "^",
            Bin::Lt => "<",
            Bin::Le => "<=",
            Bin::Gt => ">",
            Bin::Ge => ">=",
            Bin::Eq => "==",
            Bin::Ne => "!=",
        }
    }
}

fn cmp<T: PartialOrd>(op: Bin, a: T, b: T) -> bool {
    match op {
        Bin::Lt => a < b,
        Bin::Le => a <= b,
        Bin::Gt => a > b,
        Bin::Ge => a >= b,
        Bin::Eq => a == b,
        Bin::Ne => a != b,
        _ => unreachable!(),
    }
}

fn fmod32(a: f32, b: f32) -> f32 {
    a % b
}

/// Untyped integer literal arithmetic is only defined while the value is representable in 32 bits (signed or unsigned):
/// beyond that RSSL, DXC and Metal use different widths
fn lit_range(v: i128) -> R<i128> {
    if v < i32::MIN as i128 || v > u32::MAX as i128 {
        Err(Trap::Unspecified("literal arithmetic beyond 32 bits"))
    } else {
        Ok(v)
    }
}

pub fn binop(op: Bin, a: &Scalar, b: &Scalar) -> R<Scalar> {
    if a.is_undef() || b.is_undef() {
        return Err(Trap::Uninit);
    }
    if a.kind() != b.kind() {
        return Err(Trap::IllTyped(format!("operator {} on {} and {}", op.name(), a.kind().name(), b.kind().name())));
    }
    if op.is_compare() {
        return Ok(Scalar::Bool(match (a, b) {
            (Scalar::Bool(x), Scalar::Bool(y)) => cmp(op, *x, *y),
            (Scalar::Int(x), Scalar::Int(y)) => cmp(op, *x, *y),
            (Scalar::UInt(x), Scalar::UInt(y)) => cmp(op, *x, *y),
            (Scalar::LitInt(x), Scalar::LitInt(y)) => cmp(op, *x, *y),
            (Scalar::Half(x), Scalar::Half(y)) | (Scalar::Float(x), Scalar::Float(y)) => cmp(op, *x, *y),
            (Scalar::Double(x), Scalar::Double(y)) | (Scalar::LitFloat(x), Scalar::LitFloat(y)) => cmp(op, *x, *y),
            _ => unreachable!(),
        }));
    }
    Ok(match (a, b) {
        (Scalar::Int(x), Scalar::Int(y)) => Scalar::Int(match op {
            Bin::Add => x.wrapping_add(*y),
            Bin::Sub => x.wrapping_sub(*y),
            Bin::Mul => x.wrapping_mul(*y),
            Bin::Div => {
                if *y == 0 {
                    return Err(Trap::DivZero);
                }
                if *x == i32::MIN && *y == -1 {
                    return Err(Trap::IntOverflowDiv);
                }
                x / y
            }
            Bin::Mod => {
                if *y == 0 {
                    return Err(Trap::DivZero);
                }
                if *x == i32::MIN && *y == -1 {
                    return Err(Trap::IntOverflowDiv);
                }
                x % y
            }
            Bin::Shl => x.wrapping_shl(*y as u32 & 31),
            Bin::Shr => x.wrapping_shr(*y as u32 & 31),
            Bin::And => x & y,
            Bin::Or => x | y,
            Bin::Xor => x ^ y,
            _ => unreachable!(),
        }),
        (Scalar::UInt(x), Scalar::UInt(y)) => Scalar::UInt(match op {
            Bin::Add => x.wrapping_add(*y),
            Bin::Sub => x.wrapping_sub(*y),
            Bin::Mul => x.wrapping_mul(*y),
            Bin::Div => {
                if *y == 0 {
                    return Err(Trap::DivZero);
                }
                x / y
            }
            Bin::Mod => {
                if *y == 0 {
                    return Err(Trap::DivZero);
                }
                x % y
            }
            Bin::Shl => x.wrapping_shl(*y & 31),
            Bin::Shr => x.wrapping_shr(*y & 31),
            Bin::And => x & y,
            Bin::Or => x | y,
            Bin::Xor => x ^ y,
            _ => unreachable!(),
        }),
        // two literals that are both `int` sized but whose sum / difference / product is not: a 32 bit evaluation wraps where a
        // wider literal type does not (the interpreters type dynamically: `c ? 0 : f()` yields a literal when c holds)
        (Scalar::LitInt(x), Scalar::LitInt(y))
            if matches!(op, Bin::Add | Bin::Sub | Bin::Mul)
                && (i32::MIN as i128..=i32::MAX as i128).contains(x)
                && (i32::MIN as i128..=i32::MAX as i128).contains(y)
                && !(i32::MIN as i128..=i32::MAX as i128).contains(&match op {
                    Bin::Add => x + y,
                    Bin::Sub => x - y,
                    _ => x * y,
                }) =>
        {
            return Err(Trap::Unspecified("literal arithmetic whose result depends on the literal's width"));
        }
        (Scalar::LitInt(x), Scalar::LitInt(y)) => Scalar::LitInt(lit_range(match op {
            Bin::Add => x.checked_add(*y).ok_or(Trap::Unspecified("literal overflow"))?,
            Bin::Sub => x.checked_sub(*y).ok_or(Trap::Unspecified("literal overflow"))?,
            Bin::Mul => x.checked_mul(*y).ok_or(Trap::Unspecified("literal overflow"))?,
            Bin::Div => {
                if *y == 0 {
                    return Err(Trap::DivZero);
                }
                x / y
            }
            Bin::Mod => {
                if *y == 0 {
                    return Err(Trap::DivZero);
                }
                x % y
            }
            // shifts of untyped literals: the width of a literal is not pinned down, so only shifts whose result is the
            // same for every width >= 32 are defined
            Bin::Shl => {
                if *y < 0 || *y > 31 {
                    return Err(Trap::Unspecified("literal shift count out of range"));
                }
                lit_range(*x)?;
                let r = x << (*y as u32);
                // a 32 bit signed evaluation would wrap (1 << 31): the result depends on the width chosen for the literal
                if r > i32::MAX as i128 || r < i32::MIN as i128 {
                    return Err(Trap::Unspecified("literal shift result depends on the literal's width"));
                }
                r
            }
            Bin::Shr => {
                if *y < 0 || *y > 31 {
                    return Err(Trap::Unspecified("literal shift count out of range"));
                }
                if *x < i32::MIN as i128 || *x > i32::MAX as i128 {
                    return Err(Trap::Unspecified("literal shift of wide value"));
                }
                x >> (*y as u32)
            }
            Bin::And => x & y,
            Bin::Or => x | y,
            Bin::Xor => x ^ y,
            _ => unreachable!(),
        })?),
        (Scalar::Bool(x), Scalar::Bool(y)) => match op {
            Bin::And => Scalar::Bool(x & y),
            Bin::Or => Scalar::Bool(x | y),
            Bin::Xor => Scalar::Bool(x ^ y),
            _ => return Err(Trap::IllTyped(format!("operator {} on bool", op.name()))),
        },
        (Scalar::Float(x), Scalar::Float(y)) => Scalar::Float(match op {
            Bin::Add => x + y,
            Bin::Sub => x - y,
            Bin::Mul => x * y,
            Bin::Div => x / y,
            Bin::Mod => fmod32(*x, *y),
            _ => return Err(Trap::IllTyped(format!("operator {} on float", op.name()))),
        }),
        (Scalar::Half(x), Scalar::Half(y)) => Scalar::Half(round_f16(match op {
            Bin::Add => x + y,
            Bin::Sub => x - y,
            Bin::Mul => x * y,
            Bin::Div => x / y,
            Bin::Mod => fmod32(*x, *y),
            _ => return Err(Trap::IllTyped(format!("operator {} on half", op.name()))),
        })),
        (Scalar::Double(x), Scalar::Double(y)) => Scalar::Double(match op {
            Bin::Add => x + y,
            Bin::Sub => x - y,
            Bin::Mul => x * y,
            Bin::Div => x / y,
            Bin::Mod => x % y,
            _ => return Err(Trap::IllTyped(format!("operator {} on double", op.name()))),
        }),
        // arithmetic on untyped float literals: its precision is the one place RSSL, DXC and Metal legitimately differ
        (Scalar::LitFloat(_), Scalar::LitFloat(_)) => return Err(Trap::Unspecified("arithmetic on untyped float literals")),
        _ => unreachable!(),
    })
}

#[derive(Clone, Copy, Debug, PartialEq, Eq, Hash)]
pub enum Un {
    Plus,
    Neg,
    Not,
    BitNot,
}

pub fn unop(op: Un, a: &Scalar) -> R<Scalar> {
    Ok(match (op, a) {
        (_, Scalar::Undef(_)) => return Err(Trap::Uninit),
        (Un::Plus, v) => *v,
        (Un::Not, v) => Scalar::Bool(!v.truthy()?),
        (Un::Neg, Scalar::Int(x)) => Scalar::Int(x.wrapping_neg()),
        (Un::Neg, Scalar::UInt(x)) => Scalar::UInt(x.wrapping_neg()),
        (Un::Neg, Scalar::LitInt(x)) => Scalar::LitInt(lit_range(-*x)?),
        (Un::Neg, Scalar::Half(x)) => Scalar::Half(-*x),
        (Un::Neg, Scalar::Float(x)) => Scalar::Float(-*x),
        (Un::Neg, Scalar::Double(x)) => Scalar::Double(-*x),
        (Un::Neg, Scalar::LitFloat(x)) => Scalar::LitFloat(-*x),
        (Un::Neg, Scalar::Bool(_)) => return Err(Trap::Unspecified("arithmetic negation of bool")),
        (Un::BitNot, Scalar::Int(x)) => Scalar::Int(!*x),
        (Un::BitNot, Scalar::UInt(x)) => Scalar::UInt(!*x),
        // identical low 32 bits for every literal width
        (Un::BitNot, Scalar::LitInt(x)) => Scalar::LitInt(lit_range(*x).map(|x| !x)?),
        (Un::BitNot, _) => return Err(Trap::IllTyped("~ on non integer".into())),
    })
}

// ------------------------------------------------------------------------------------------------
// Aggregate values
// ------------------------------------------------------------------------------------------------

#[derive(Clone, Debug)]
pub enum Value {
    Void,
    S(Scalar),
    /// vector of 1..4 scalars of one kind
    V(Vec<Scalar>),
    /// struct: (type key, fields)
    Struct(u32, Vec<Value>),
    Array(Vec<Value>),
    /// enum value: (enum key, underlying)
    Enum(u32, i64),
}

impl Value {
    pub fn same(&self, other: &Value) -> bool {
        match (self, other) {
            (Value::Void, Value::Void) => true,
            (Value::S(a), Value::S(b)) => a.same(b),
            (Value::V(a), Value::V(b)) => a.len() == b.len() && a.iter().zip(b).all(|(x, y)| x.same(y)),
            // a 1-vector and a scalar are the same value for comparison purposes
            (Value::S(a), Value::V(b)) | (Value::V(b), Value::S(a)) => b.len() == 1 && a.same(&b[0]),
            (Value::Struct(_, a), Value::Struct(_, b)) => a.len() == b.len() && a.iter().zip(b).all(|(x, y)| x.same(y)),
            (Value::Array(a), Value::Array(b)) => a.len() == b.len() && a.iter().zip(b).all(|(x, y)| x.same(y)),
            (Value::Enum(_, a), Value::Enum(_, b)) => a == b,
            _ => false,
        }
    }

    pub fn has_undef(&self) -> bool {
        match self {
            Value::Void => false,
            Value::S(s) => s.is_undef(),
            Value::V(v) => v.iter().any(|s| s.is_undef()),
            Value::Struct(_, f) => f.iter().any(|v| v.has_undef()),
            Value::Array(a) => a.iter().any(|v| v.has_undef()),
            Value::Enum(..) => false,
        }
    }

    pub fn scalar(&self) -> R<Scalar> {
        match self {
            Value::S(s) => Ok(*s),
            Value::V(v) if v.len() == 1 => Ok(v[0]),
            Value::Enum(_, v) => Ok(Scalar::Int(*v as i32)),
            _ => Err(Trap::IllTyped(format!("expected scalar, found {}", self))),
        }
    }

    /// Components of a scalar or vector
    pub fn lanes(&self) -> R<Vec<Scalar>> {
        match self {
            Value::S(s) => Ok(vec![*s]),
            Value::V(v) => Ok(v.clone()),
            Value::Enum(_, v) => Ok(vec![Scalar::Int(*v as i32)]),
            _ => Err(Trap::IllTyped(format!("expected numeric value, found {}", self))),
        }
    }

    pub fn is_vector(&self) -> bool {
        matches!(self, Value::V(_))
    }

    pub fn from_lanes(lanes: Vec<Scalar>, vector: bool) -> Value {
        if vector {
            Value::V(lanes)
        } else {
            Value::S(lanes[0])
        }
    }
}

impl fmt::Display for Value {
    fn fmt(&self, f: &mut fmt::Formatter) -> fmt::Result {
        match self {
            Value::Void => write!(f, "void"),
            Value::S(s) => write!(f, "{}", s),
            Value::V(v) => {
                write!(f, "<")?;
                for (i, s) in v.iter().enumerate() {
                    if i > 0 {
                        write!(f, ", ")?;
                    }
                    write!(f, "{}", s)?;
                }
                write!(f, ">")
            }
            Value::Struct(_, fields) => {
                write!(f, "{{")?;
                for (i, s) in fields.iter().enumerate() {
                    if i > 0 {
                        write!(f, ", ")?;
                    }
                    write!(f, "{}", s)?;
                }
                write!(f, "}}")
            }
            Value::Array(items) => {
                write!(f, "[")?;
                for (i, s) in items.iter().enumerate() {
                    if i > 0 {
                        write!(f, ", ")?;
                    }
                    write!(f, "{}", s)?;
                }
                write!(f, "]")
            }
            Value::Enum(_, v) => write!(f, "enum({})", v),
        }
    }
}

// ------------------------------------------------------------------------------------------------
// Pure math intrinsics (numeric kernels, bound to both the HLSL and the metal:: spelling by the interpreters)
// ------------------------------------------------------------------------------------------------

#[derive(Clone, Copy, Debug, PartialEq, Eq, Hash)]
pub enum Math {
    Abs,
    Min,
    Max,
    Clamp,
    Saturate,
    Floor,
    Ceil,
    Trunc,
    Frac,
    Sqrt,
    Rsqrt,
    Rcp,
    Sign,
    Step,
    Lerp,
    Exp2,
    Log2,
    Sin,
    Cos,
    Pow,
    Fmod,
    IsNan,
    IsInf,
    CountBits,
    ReverseBits,
    FirstBitLow,
    FirstBitHigh,
}

fn no_nan(args: &[Scalar]) -> R<()> {
    for a in args {
        let f = a.as_f64()?;
        if f.is_nan() {
            return Err(Trap::Unspecified("NaN operand to an intrinsic whose NaN behaviour differs between languages"));
        }
    }
    Ok(())
}

fn wrap_float(kind: Kind, v: f64) -> Scalar {
    match kind {
        Kind::Half => Scalar::Half(round_f16_from_f64(v)),
        Kind::Float => Scalar::Float(v as f32),
        Kind::Double => Scalar::Double(v),
        _ => Scalar::LitFloat(v),
    }
}

/// Apply a component-wise math kernel to scalars of one kind
pub fn math(op: Math, args: &[Scalar]) -> R<Scalar> {
    for a in args {
        if a.is_undef() {
            return Err(Trap::Uninit);
        }
    }
    let kind = args[0].kind();
    if matches!(kind, Kind::LitInt | Kind::LitFloat | Kind::Bool) {
        return Err(Trap::Unspecified("intrinsic on untyped literal or bool"));
    }
    if args.iter().any(|a| a.kind() != kind) {
        return Err(Trap::IllTyped(format!("{:?} with mixed operand kinds", op)));
    }
    let f32s = |i: usize| -> f32 {
        match args[i] {
            Scalar::Half(v) | Scalar::Float(v) => v,
            Scalar::Double(v) => v as f32,
            _ => 0.0,
        }
    };
    Ok(match op {
        Math::Abs => match args[0] {
            Scalar::Int(v) => {
                if v == i32::MIN {
                    return Err(Trap::Unspecified("abs(INT_MIN)"));
                }
                Scalar::Int(v.abs())
            }
            Scalar::UInt(v) => Scalar::UInt(v),
            Scalar::Half(v) => Scalar::Half(v.abs()),
            Scalar::Float(v) => Scalar::Float(v.abs()),
            Scalar::Double(v) => Scalar::Double(v.abs()),
            _ => unreachable!(),
        },
        Math::Min | Math::Max => {
            let is_min = op == Math::Min;
            match (args[0], args[1]) {
                (Scalar::Int(a), Scalar::Int(b)) => Scalar::Int(if is_min { a.min(b) } else { a.max(b) }),
                (Scalar::UInt(a), Scalar::UInt(b)) => Scalar::UInt(if is_min { a.min(b) } else { a.max(b) }),
                _ => {
                    no_nan(args)?;
                    let (a, b) = (args[0].as_f64()?, args[1].as_f64()?);
                    // min(-0, +0) is unspecified in both languages
                    if a == 0.0 && b == 0.0 && a.is_sign_negative() != b.is_sign_negative() {
                        return Err(Trap::Unspecified("min/max of zeros with different signs"));
                    }
                    wrap_float(kind, if is_min { a.min(b) } else { a.max(b) })
                }
            }
        }
        Math::Clamp => {
            // clamp(x, lo, hi) with lo > hi is undefined
            match (args[0], args[1], args[2]) {
                (Scalar::Int(x), Scalar::Int(lo), Scalar::Int(hi)) => {
                    if lo > hi {
                        return Err(Trap::Unspecified("clamp with lo > hi"));
                    }
                    Scalar::Int(x.max(lo).min(hi))
                }
                (Scalar::UInt(x), Scalar::UInt(lo), Scalar::UInt(hi)) => {
                    if lo > hi {
                        return Err(Trap::Unspecified("clamp with lo > hi"));
                    }
                    Scalar::UInt(x.max(lo).min(hi))
                }
                _ => {
                    no_nan(args)?;
                    let (x, lo, hi) = (args[0].as_f64()?, args[1].as_f64()?, args[2].as_f64()?);
                    if lo > hi {
                        return Err(Trap::Unspecified("clamp with lo > hi"));
                    }
                    // sign of a zero result is not pinned down when x compares equal to a bound of the other sign
                    let differs = |a: f64, b: f64| a == 0.0 && b == 0.0 && a.is_sign_negative() != b.is_sign_negative();
                    if differs(x, lo) || differs(x, hi) {
                        return Err(Trap::Unspecified("clamp of a zero against a zero of the other sign"));
                    }
                    wrap_float(kind, if x < lo { lo } else if x > hi { hi } else { x })
                }
            }
        }
        Math::Saturate => {
            if !kind.is_float() {
                return Err(Trap::IllTyped("saturate on integer".into()));
            }
            no_nan(args)?;
            let x = args[0].as_f64()?;
            if x <= 0.0 {
                if x == 0.0 && x.is_sign_negative() {
                    return Err(Trap::Unspecified("saturate(-0)"));
                }
                wrap_float(kind, 0.0)
            } else {
                wrap_float(kind, x.min(1.0))
            }
        }
        Math::Floor | Math::Ceil | Math::Trunc => {
            if !kind.is_float() {
                return Err(Trap::IllTyped("rounding intrinsic on integer".into()));
            }
            let x = args[0].as_f64()?;
            wrap_float(
                kind,
                match op {
                    Math::Floor => x.floor(),
                    Math::Ceil => x.ceil(),
                    _ => x.trunc(),
                },
            )
        }
        Math::Frac => {
            if !kind.is_float() {
                return Err(Trap::IllTyped("frac on integer".into()));
            }
            // HLSL frac = x - floor(x); Metal fract clamps the result below 1.0. They differ only where x - floor(x) rounds to 1.0
            let x = args[0].as_f64()?;
            if !x.is_finite() {
                return Err(Trap::Unspecified("frac of non finite"));
            }
            let r = match kind {
                Kind::Float => {
                    let x = f32s(0);
                    (x - x.floor()) as f64
                }
                Kind::Half => round_f16(f32s(0) - f32s(0).floor()) as f64,
                _ => x - x.floor(),
            };
            if r >= 1.0 {
                return Err(Trap::Unspecified("frac rounding to 1.0"));
            }
            wrap_float(kind, r)
        }
        Math::Sqrt | Math::Rsqrt | Math::Rcp | Math::Exp2 | Math::Log2 | Math::Sin | Math::Cos => {
            if !kind.is_float() {
                return Err(Trap::IllTyped("float intrinsic on integer".into()));
            }
            // hardware precision is out of scope: both interpreters share this kernel; only *which* function with *which* arguments is checked
            let x = args[0].as_f64()?;
            let r = match op {
                Math::Sqrt => x.sqrt(),
                Math::Rsqrt => 1.0 / x.sqrt(),
                Math::Rcp => 1.0 / x,
                Math::Exp2 => x.exp2(),
                Math::Log2 => x.log2(),
                Math::Sin => x.sin(),
                _ => x.cos(),
            };
            wrap_float(kind, r)
        }
        Math::Pow | Math::Fmod => {
            if !kind.is_float() {
                return Err(Trap::IllTyped("float intrinsic on integer".into()));
            }
            let (x, y) = (args[0].as_f64()?, args[1].as_f64()?);
            wrap_float(kind, if op == Math::Pow { x.powf(y) } else { x % y })
        }
        Math::Sign => {
            // result is int in HLSL; Metal's sign returns the float type - the interpreters convert; here: -1, 0, 1 as Int
            match args[0] {
                Scalar::Int(v) => Scalar::Int(v.signum()),
                Scalar::UInt(v) => Scalar::Int((v != 0) as i32),
                _ => {
                    no_nan(args)?;
                    let x = args[0].as_f64()?;
                    Scalar::Int(if x > 0.0 {
                        1
                    } else if x < 0.0 {
                        -1
                    } else {
                        0
                    })
                }
            }
        }
        Math::Step => {
            if !kind.is_float() {
                return Err(Trap::IllTyped("step on integer".into()));
            }
            no_nan(args)?;
            // step(edge, x) = x >= edge ? 1 : 0
            let (edge, x) = (args[0].as_f64()?, args[1].as_f64()?);
            wrap_float(kind, if x >= edge { 1.0 } else { 0.0 })
        }
        Math::Lerp => {
            if !kind.is_float() {
                return Err(Trap::IllTyped("lerp on integer".into()));
            }
            // x + s * (y - x), each operation rounded in the operand type (both languages document this formula)
            match kind {
                Kind::Float => {
                    let (x, y, s) = (f32s(0), f32s(1), f32s(2));
                    Scalar::Float(x + s * (y - x))
                }
                Kind::Half => {
                    let (x, y, s) = (f32s(0), f32s(1), f32s(2));
                    Scalar::Half(round_f16(x + round_f16(s * round_f16(y - x))))
                }
                _ => {
                    let (x, y, s) = (args[0].as_f64()?, args[1].as_f64()?, args[2].as_f64()?);
                    Scalar::Double(x + s * (y - x))
                }
            }
        }
        Math::IsNan => Scalar::Bool(args[0].as_f64()?.is_nan() && kind.is_float()),
        Math::IsInf => Scalar::Bool(args[0].as_f64()?.is_infinite() && kind.is_float()),
        Math::CountBits | Math::ReverseBits | Math::FirstBitLow | Math::FirstBitHigh => {
            let (bits, signed) = match args[0] {
                Scalar::Int(v) => (v as u32, true),
                Scalar::UInt(v) => (v, false),
                _ => return Err(Trap::IllTyped("bit intrinsic on float".into())),
            };
            match op {
                Math::CountBits => Scalar::UInt(bits.count_ones()),
                Math::ReverseBits => Scalar::UInt(bits.reverse_bits()),
                Math::FirstBitLow => Scalar::UInt(if bits == 0 { u32::MAX } else { bits.trailing_zeros() }),
                _ => {
                    // firstbithigh: for signed negative values the first 0 bit from the top; result counted from the LSB; -1 if none
                    let v = if signed && (bits as i32) < 0 { !bits } else { bits };
                    Scalar::UInt(if v == 0 { u32::MAX } else { 31 - v.leading_zeros() })
                }
            }
        }
    })
}
