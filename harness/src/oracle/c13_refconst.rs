//! refconst - reference evaluator for constant expressions (property C13).
//!
//! Written from the property text and the HLSL rules it names, not from rssl's evaluator:
//!   * untyped integer literals are exact (i128 here; a result that does not fit has no reference),
//!   * `int` / `uint` are 32-bit two's complement: + - * << and unary - wrap, shifts use the low five
//!     bits of the count, `>>` is arithmetic on int and logical on uint, / and % truncate toward zero,
//!   * comparison and logic follow C and give bool,
//!   * conversions bool <-> int <-> uint <-> float <-> enum follow HLSL (float -> int truncates toward
//!     zero, int -> float rounds to nearest even, anything -> bool is `!= 0`),
//!   * the usual arithmetic conversions pick the operand type of highest rank
//!     bool(->int) < literal int < int < uint < literal float < half < float < double,
//!   * division or modulus by zero is "not a constant",
//!   * what HLSL leaves undefined or what is genuinely ambiguous has NO reference value
//!     (`Res::NoRef(reason)`): INT_MIN / -1, INT_MIN % -1, out-of-range float -> int, values that are not
//!     exactly representable in half precision, float arithmetic (precision is target dependent),
//!     shifts whose operands have different types (HLSL: type of the left operand, rssl: common type),
//!     unary + / - on bool, bool or typed integers mixed with literals of the other family, negative or
//!     oversized literal shift counts, `&&` / `||` whose skipped operand is not constant.
//!
//! Deviations of rssl that are documented by its own unit tests (typer/tests/evaluator_tests.rs) and are
//! followed here: arithmetic between two values of the same enum stays in that enum (computed in the
//! underlying type); the underlying type of an enum is int when every value fits, else uint.

use std::fmt::Write;

#[derive(Clone, Copy, PartialEq, Eq, Debug, Hash, PartialOrd, Ord)]
pub enum Ty {
    Bool,
    Lit,
    Int,
    UInt,
    FLit,
    Half,
    Float,
    Double,
    Enum(u8),
}

pub const SCALAR_TYS: [Ty; 10] = [Ty::Bool, Ty::Lit, Ty::Int, Ty::UInt, Ty::FLit, Ty::Half, Ty::Float, Ty::Double, Ty::Enum(0), Ty::Enum(1)];
/// Types that can be named in source (cast targets, declared types)
pub const NAMED_TYS: [Ty; 8] = [Ty::Bool, Ty::Int, Ty::UInt, Ty::Half, Ty::Float, Ty::Double, Ty::Enum(0), Ty::Enum(1)];

pub struct EnumDecl {
    pub name: &'static str,
    pub underlying: Ty,
    /// (name, initialiser source or "" for implicit, value)
    pub values: &'static [(&'static str, &'static str, i64)],
}

/// The enums every generated program may refer to. E0 has only values that fit int, E1 needs uint.
pub const ENUMS: [EnumDecl; 2] = [
    EnumDecl {
        name: "E0",
        underlying: Ty::Int,
        values: &[
            ("E0_Z", "", 0),
            ("E0_A", "1", 1),
            ("E0_B", "2", 2),
            ("E0_N", "-1", -1),
            ("E0_MAX", "2147483647", 2147483647),
            ("E0_MIN", "-2147483647 - 1", -2147483648),
            ("E0_S", "33", 33),
        ],
    },
    EnumDecl {
        name: "E1",
        underlying: Ty::UInt,
        values: &[("E1_Z", "", 0), ("E1_A", "1", 1), ("E1_S", "31u", 31), ("E1_H", "2147483648u", 2147483648), ("E1_ALL", "4294967295u", 4294967295)],
    },
];

pub struct ConstDecl {
    pub name: &'static str,
    pub ty: Ty,
    pub init: &'static str,
}

/// Named constants (tests the Global lookup of the evaluator). Values are given by `const_value`.
pub const CONSTS: [ConstDecl; 6] = [
    ConstDecl { name: "K_I", ty: Ty::Int, init: "-7" },
    ConstDecl { name: "K_IMAX", ty: Ty::Int, init: "2147483647" },
    ConstDecl { name: "K_U", ty: Ty::UInt, init: "4294967295u" },
    ConstDecl { name: "K_B", ty: Ty::Bool, init: "true" },
    ConstDecl { name: "K_F", ty: Ty::Float, init: "2.5f" },
    ConstDecl { name: "K_D", ty: Ty::Double, init: "0.5L" },
];

pub fn const_value(i: u8) -> Val {
    match i {
        0 => Val::Int(-7),
        1 => Val::Int(i32::MAX),
        2 => Val::UInt(u32::MAX),
        3 => Val::Bool(true),
        4 => Val::Float(2.5),
        _ => Val::Double(0.5),
    }
}

impl Ty {
    pub fn name(self) -> &'static str {
        match self {
            Ty::Bool => "bool",
            Ty::Lit => "literal-int",
            Ty::Int => "int",
            Ty::UInt => "uint",
            Ty::FLit => "literal-float",
            Ty::Half => "half",
            Ty::Float => "float",
            Ty::Double => "double",
            Ty::Enum(k) => ENUMS[k as usize].name,
        }
    }
    pub fn from_name(s: &str) -> Option<Ty> {
        SCALAR_TYS.iter().copied().find(|t| t.name() == s)
    }
    /// Can be written in source
    pub fn is_named(self) -> bool {
        !matches!(self, Ty::Lit | Ty::FLit)
    }
    pub fn is_float(self) -> bool {
        matches!(self, Ty::FLit | Ty::Half | Ty::Float | Ty::Double)
    }
    pub fn is_integer_like(self) -> bool {
        !self.is_float()
    }
    fn rank(self) -> u32 {
        match self {
            Ty::Enum(_) => 0,
            Ty::Bool => 1,
            Ty::Lit => 2,
            Ty::Int => 3,
            Ty::UInt => 4,
            Ty::FLit => 5,
            Ty::Half => 6,
            Ty::Float => 7,
            Ty::Double => 8,
        }
    }
}

#[derive(Clone, PartialEq, Debug)]
pub enum Val {
    Bool(bool),
    Lit(i128),
    Int(i32),
    UInt(u32),
    FLit(f64),
    Half(f32),
    Float(f32),
    Double(f64),
    /// enum index, value in the underlying type (Int or UInt)
    Enum(u8, Box<Val>),
}

impl Val {
    pub fn ty(&self) -> Ty {
        match self {
            Val::Bool(_) => Ty::Bool,
            Val::Lit(_) => Ty::Lit,
            Val::Int(_) => Ty::Int,
            Val::UInt(_) => Ty::UInt,
            Val::FLit(_) => Ty::FLit,
            Val::Half(_) => Ty::Half,
            Val::Float(_) => Ty::Float,
            Val::Double(_) => Ty::Double,
            Val::Enum(k, _) => Ty::Enum(*k),
        }
    }
    /// Mathematical integer value of an integer-like value
    pub fn as_integer(&self) -> Option<i128> {
        match self {
            Val::Bool(b) => Some(*b as i128),
            Val::Lit(v) => Some(*v),
            Val::Int(v) => Some(*v as i128),
            Val::UInt(v) => Some(*v as i128),
            Val::Enum(_, inner) => inner.as_integer(),
            _ => None,
        }
    }
    /// Same type and same value (NaN equals NaN, -0.0 equals 0.0)
    pub fn same(&self, other: &Val) -> bool {
        fn feq(a: f64, b: f64) -> bool {
            a == b || (a.is_nan() && b.is_nan())
        }
        match (self, other) {
            (Val::Bool(a), Val::Bool(b)) => a == b,
            (Val::Lit(a), Val::Lit(b)) => a == b,
            (Val::Int(a), Val::Int(b)) => a == b,
            (Val::UInt(a), Val::UInt(b)) => a == b,
            (Val::FLit(a), Val::FLit(b)) => feq(*a, *b),
            (Val::Half(a), Val::Half(b)) => feq(*a as f64, *b as f64),
            (Val::Float(a), Val::Float(b)) => feq(*a as f64, *b as f64),
            (Val::Double(a), Val::Double(b)) => feq(*a, *b),
            (Val::Enum(j, a), Val::Enum(k, b)) => j == k && a.same(b),
            _ => false,
        }
    }
    pub fn show(&self) -> String {
        match self {
            Val::Enum(k, inner) => format!("{}({})", ENUMS[*k as usize].name, inner.show()),
            other => format!("{:?}", other),
        }
    }
    /// Source of a trivial expression that has exactly this type and value; None when it can not be written
    /// (non-finite floats, literals beyond 64 bits)
    pub fn to_src(&self) -> Option<String> {
        fn signed(neg: bool, body: String) -> String {
            if neg {
                format!("(-{})", body)
            } else {
                body
            }
        }
        fn fl(v: f64, suffix: &str) -> Option<String> {
            if !v.is_finite() {
                return None;
            }
            Some(signed(v.is_sign_negative(), format!("{}{}", fmt_f64(v.abs()), suffix)))
        }
        match self {
            Val::Bool(b) => Some(if *b { "true".into() } else { "false".into() }),
            Val::Lit(v) => {
                if v.unsigned_abs() > u64::MAX as u128 {
                    None
                } else {
                    Some(signed(*v < 0, format!("{}", v.unsigned_abs())))
                }
            }
            Val::Int(v) => Some(format!("((int){})", signed(*v < 0, format!("{}", (*v as i64).unsigned_abs())))),
            Val::UInt(v) => Some(format!("{}u", v)),
            Val::FLit(v) => fl(*v, ""),
            Val::Half(v) => fl(*v as f64, "h"),
            Val::Float(v) => fl(*v as f64, "f"),
            Val::Double(v) => fl(*v, "L"),
            Val::Enum(k, inner) => Some(format!("(({}){})", ENUMS[*k as usize].name, inner.to_src()?)),
        }
    }
}

/// Decimal text of a non-negative finite double that reads back as exactly that double and is a float token
pub fn fmt_f64(v: f64) -> String {
    let s = format!("{:?}", v);
    debug_assert!(s.contains('.') || s.contains('e'));
    s
}

#[derive(Clone, Copy, PartialEq, Eq, Debug, Hash)]
pub enum UnOp {
    Plus,
    Minus,
    Not,
    BitNot,
}

pub const UN_OPS: [UnOp; 4] = [UnOp::Plus, UnOp::Minus, UnOp::Not, UnOp::BitNot];

impl UnOp {
    pub fn sym(self) -> &'static str {
        match self {
            UnOp::Plus => "+",
            UnOp::Minus => "-",
            UnOp::Not => "!",
            UnOp::BitNot => "~",
        }
    }
    pub fn name(self) -> &'static str {
        match self {
            UnOp::Plus => "plus",
            UnOp::Minus => "neg",
            UnOp::Not => "not",
            UnOp::BitNot => "bitnot",
        }
    }
}

#[derive(Clone, Copy, PartialEq, Eq, Debug, Hash)]
pub enum BinOp {
    Add,
    Sub,
    Mul,
    Div,
    Mod,
    Shl,
    Shr,
    And,
    Or,
    Xor,
    LAnd,
    LOr,
    Lt,
    Le,
    Gt,
    Ge,
    Eq,
    Ne,
}

pub const BIN_OPS: [BinOp; 18] = [
    BinOp::Add,
    BinOp::Sub,
    BinOp::Mul,
    BinOp::Div,
    BinOp::Mod,
    BinOp::Shl,
    BinOp::Shr,
    BinOp::And,
    BinOp::Or,
    BinOp::Xor,
    BinOp::LAnd,
    BinOp::LOr,
    BinOp::Lt,
    BinOp::Le,
    BinOp::Gt,
    BinOp::Ge,
    BinOp::Eq,
    BinOp::Ne,
];

impl BinOp {
    pub fn sym(self) -> &'static str {
        match self {
            BinOp::Add => "+",
            BinOp::Sub => "-",
            BinOp::Mul => "*",
            BinOp::Div => "/",
            BinOp::Mod => "%",
            BinOp::Shl => "<<",
            BinOp::Shr => ">>",
            BinOp::And => "&",
            BinOp::Or => "|",
            BinOp::Xor => "^",
            BinOp::LAnd => "&&",
            BinOp::LOr => "||",
            BinOp::Lt => "<",
            BinOp::Le => "<=",
            BinOp::Gt => ">",
            BinOp::Ge => ">=",
            BinOp::Eq => "==",
            BinOp::Ne => "!=",
        }
    }
    pub fn name(self) -> &'static str {
        match self {
            BinOp::Add => "add",
            BinOp::Sub => "sub",
            BinOp::Mul => "mul",
            BinOp::Div => "div",
            BinOp::Mod => "mod",
            BinOp::Shl => "shl",
            BinOp::Shr => "shr",
            BinOp::And => "and",
            BinOp::Or => "or",
            BinOp::Xor => "xor",
            BinOp::LAnd => "land",
            BinOp::LOr => "lor",
            BinOp::Lt => "lt",
            BinOp::Le => "le",
            BinOp::Gt => "gt",
            BinOp::Ge => "ge",
            BinOp::Eq => "eq",
            BinOp::Ne => "ne",
        }
    }
    pub fn is_compare(self) -> bool {
        matches!(self, BinOp::Lt | BinOp::Le | BinOp::Gt | BinOp::Ge | BinOp::Eq | BinOp::Ne)
    }
    pub fn is_logic(self) -> bool {
        matches!(self, BinOp::LAnd | BinOp::LOr)
    }
    pub fn is_shift(self) -> bool {
        matches!(self, BinOp::Shl | BinOp::Shr)
    }
    pub fn needs_integer(self) -> bool {
        matches!(self, BinOp::Shl | BinOp::Shr | BinOp::And | BinOp::Or | BinOp::Xor)
    }
}

/// Constant expression tree. Literal tokens are non-negative; negative values are `Un(Minus, ..)` as in source.
#[derive(Clone, PartialEq, Debug)]
pub enum Ex {
    Bool(bool),
    Lit(u64),
    UInt(u32),
    FLit(f64),
    Half(f32),
    Float(f32),
    Double(f64),
    EnumRef(u8, u8),
    ConstRef(u8),
    Un(UnOp, Box<Ex>),
    Bin(BinOp, Box<Ex>, Box<Ex>),
    Cast(Ty, Box<Ex>),
}

impl Ex {
    pub fn un(op: UnOp, x: Ex) -> Ex {
        Ex::Un(op, Box::new(x))
    }
    pub fn bin(op: BinOp, a: Ex, b: Ex) -> Ex {
        Ex::Bin(op, Box::new(a), Box::new(b))
    }
    pub fn cast(t: Ty, x: Ex) -> Ex {
        Ex::Cast(t, Box::new(x))
    }
    /// (int)v written the way a programmer would
    pub fn int(v: i32) -> Ex {
        let mag = Ex::Lit((v as i64).unsigned_abs());
        Ex::cast(Ty::Int, if v < 0 { Ex::un(UnOp::Minus, mag) } else { mag })
    }
    pub fn lit(v: i128) -> Ex {
        let mag = Ex::Lit(v.unsigned_abs() as u64);
        if v < 0 {
            Ex::un(UnOp::Minus, mag)
        } else {
            mag
        }
    }

    pub fn is_leaf(&self) -> bool {
        !matches!(self, Ex::Un(..) | Ex::Bin(..) | Ex::Cast(..))
    }

    pub fn node_count(&self) -> usize {
        match self {
            Ex::Un(_, x) | Ex::Cast(_, x) => 1 + x.node_count(),
            Ex::Bin(_, a, b) => 1 + a.node_count() + b.node_count(),
            _ => 1,
        }
    }

    pub fn children(&self) -> Vec<&Ex> {
        match self {
            Ex::Un(_, x) | Ex::Cast(_, x) => vec![x],
            Ex::Bin(_, a, b) => vec![a, b],
            _ => vec![],
        }
    }

    pub fn uses_enum(&self) -> bool {
        match self {
            Ex::EnumRef(..) => true,
            Ex::Cast(Ty::Enum(_), _) => true,
            Ex::Un(_, x) | Ex::Cast(_, x) => x.uses_enum(),
            Ex::Bin(_, a, b) => a.uses_enum() || b.uses_enum(),
            _ => false,
        }
    }

    pub fn uses_const(&self) -> bool {
        match self {
            Ex::ConstRef(..) => true,
            Ex::Un(_, x) | Ex::Cast(_, x) => x.uses_const(),
            Ex::Bin(_, a, b) => a.uses_const() || b.uses_const(),
            _ => false,
        }
    }

    /// Fully parenthesised source text
    pub fn to_src(&self) -> String {
        let mut s = String::new();
        self.write_src(&mut s);
        s
    }

    fn write_src(&self, s: &mut String) {
        match self {
            Ex::Bool(b) => s.push_str(if *b { "true" } else { "false" }),
            Ex::Lit(v) => {
                let _ = write!(s, "{}", v);
            }
            Ex::UInt(v) => {
                let _ = write!(s, "{}u", v);
            }
            Ex::FLit(v) => s.push_str(&fmt_f64(*v)),
            Ex::Half(v) => {
                let _ = write!(s, "{}h", fmt_f64(*v as f64));
            }
            Ex::Float(v) => {
                let _ = write!(s, "{}f", fmt_f64(*v as f64));
            }
            Ex::Double(v) => {
                let _ = write!(s, "{}L", fmt_f64(*v));
            }
            Ex::EnumRef(k, i) => s.push_str(ENUMS[*k as usize].values[*i as usize].0),
            Ex::ConstRef(i) => s.push_str(CONSTS[*i as usize].name),
            Ex::Un(op, x) => {
                s.push('(');
                s.push_str(op.sym());
                x.write_src(s);
                s.push(')');
            }
            Ex::Bin(op, a, b) => {
                s.push('(');
                a.write_src(s);
                s.push(' ');
                s.push_str(op.sym());
                s.push(' ');
                b.write_src(s);
                s.push(')');
            }
            Ex::Cast(t, x) => {
                s.push_str("((");
                s.push_str(t.name());
                s.push(')');
                // anything but a single token is already parenthesised
                x.write_src(s);
                s.push(')');
            }
        }
    }

    /// Serialised form used in witnesses (floats by bit pattern, so replay is exact)
    pub fn to_sexpr(&self) -> String {
        match self {
            Ex::Bool(b) => format!("(b {})", *b as u8),
            Ex::Lit(v) => format!("(l {})", v),
            Ex::UInt(v) => format!("(u {})", v),
            Ex::FLit(v) => format!("(fl {:x})", v.to_bits()),
            Ex::Half(v) => format!("(fh {:x})", v.to_bits()),
            Ex::Float(v) => format!("(ff {:x})", v.to_bits()),
            Ex::Double(v) => format!("(fd {:x})", v.to_bits()),
            Ex::EnumRef(k, i) => format!("(ev {} {})", k, i),
            Ex::ConstRef(i) => format!("(k {})", i),
            Ex::Un(op, x) => format!("({} {})", op.name(), x.to_sexpr()),
            Ex::Bin(op, a, b) => format!("({} {} {})", op.name(), a.to_sexpr(), b.to_sexpr()),
            Ex::Cast(t, x) => format!("(cast {} {})", t.name(), x.to_sexpr()),
        }
    }

    pub fn from_sexpr(text: &str) -> Option<Ex> {
        let tokens: Vec<String> = text.replace('(', " ( ").replace(')', " ) ").split_whitespace().map(|s| s.to_string()).collect();
        let mut pos = 0usize;
        let e = parse_sexpr(&tokens, &mut pos, 0)?;
        if pos == tokens.len() {
            Some(e)
        } else {
            None
        }
    }
}

fn parse_sexpr(t: &[String], pos: &mut usize, depth: usize) -> Option<Ex> {
    if depth > 200 || t.get(*pos)? != "(" {
        return None;
    }
    *pos += 1;
    let head = t.get(*pos)?.clone();
    *pos += 1;
    let atom = |pos: &mut usize| -> Option<String> {
        let a = t.get(*pos)?.clone();
        if a == "(" || a == ")" {
            return None;
        }
        *pos += 1;
        Some(a)
    };
    let e = match head.as_str() {
        "b" => Ex::Bool(atom(pos)? == "1"),
        "l" => Ex::Lit(atom(pos)?.parse().ok()?),
        "u" => Ex::UInt(atom(pos)?.parse().ok()?),
        "fl" => Ex::FLit(f64::from_bits(u64::from_str_radix(&atom(pos)?, 16).ok()?)),
        "fh" => Ex::Half(f32::from_bits(u32::from_str_radix(&atom(pos)?, 16).ok()?)),
        "ff" => Ex::Float(f32::from_bits(u32::from_str_radix(&atom(pos)?, 16).ok()?)),
        "fd" => Ex::Double(f64::from_bits(u64::from_str_radix(&atom(pos)?, 16).ok()?)),
        "ev" => {
            let k: u8 = atom(pos)?.parse().ok()?;
            let i: u8 = atom(pos)?.parse().ok()?;
            if (k as usize) >= ENUMS.len() || (i as usize) >= ENUMS[k as usize].values.len() {
                return None;
            }
            Ex::EnumRef(k, i)
        }
        "k" => {
            let i: u8 = atom(pos)?.parse().ok()?;
            if (i as usize) >= CONSTS.len() {
                return None;
            }
            Ex::ConstRef(i)
        }
        "cast" => {
            let ty = Ty::from_name(&atom(pos)?)?;
            if !ty.is_named() {
                return None;
            }
            Ex::cast(ty, parse_sexpr(t, pos, depth + 1)?)
        }
        name => {
            if let Some(op) = UN_OPS.iter().find(|o| o.name() == name) {
                Ex::un(*op, parse_sexpr(t, pos, depth + 1)?)
            } else if let Some(op) = BIN_OPS.iter().find(|o| o.name() == name) {
                let a = parse_sexpr(t, pos, depth + 1)?;
                let b = parse_sexpr(t, pos, depth + 1)?;
                Ex::bin(*op, a, b)
            } else {
                return None;
            }
        }
    };
    if t.get(*pos)? != ")" {
        return None;
    }
    *pos += 1;
    Some(e)
}

// ------------------------------------------------------------------------------------------------
// Typing
// ------------------------------------------------------------------------------------------------

pub type Why = &'static str;

/// bool operands of arithmetic are promoted to int
fn promote(t: Ty) -> Ty {
    if t == Ty::Bool {
        Ty::Int
    } else {
        t
    }
}

/// The type both operands of a binary arithmetic / bitwise / comparison operator are converted to
pub fn common_type(op: BinOp, a: Ty, b: Ty) -> Result<Ty, Why> {
    if op.needs_integer() && (a.is_float() || b.is_float()) {
        return Err("ill-typed: bitwise or shift operator on a floating point operand");
    }
    let t = match (a, b) {
        (Ty::Enum(j), Ty::Enum(k)) => {
            if j == k {
                // rssl (documented by its tests): stays in the enum, computed in the underlying type
                Ty::Enum(j)
            } else {
                return Err("operands of two different enums (rejected by the rssl typer)");
            }
        }
        (Ty::Enum(_), o) | (o, Ty::Enum(_)) => {
            if matches!(o, Ty::Lit | Ty::FLit) {
                return Err("enum with an untyped literal (rejected by the rssl typer, HLSL gives int)");
            }
            if op.is_shift() {
                return Err("shift between an enum and another type (type of the result is unclear)");
            }
            promote(o)
        }
        (Ty::Bool, Ty::Bool) => Ty::Int,
        (Ty::Bool, Ty::Lit) | (Ty::Lit, Ty::Bool) | (Ty::Bool, Ty::FLit) | (Ty::FLit, Ty::Bool) => {
            return Err("bool with an untyped literal (HLSL gives int / float, rssl keeps the literal type)");
        }
        (Ty::Int | Ty::UInt, Ty::FLit) | (Ty::FLit, Ty::Int | Ty::UInt) => {
            return Err("typed integer with an untyped float literal (float in HLSL, literal precision in rssl)");
        }
        (a, b) => promote(if a.rank() >= b.rank() { a } else { b }),
    };
    if op.is_shift() && !matches!(t, Ty::Enum(_)) {
        // HLSL: the result has the (promoted) type of the left operand; rssl converts both operands to the
        // common type. Only when both rules agree is there a reference.
        if promote(a) != t {
            return Err("shift whose operands have different types (left operand type in HLSL, common type in rssl)");
        }
    }
    Ok(t)
}

pub fn type_of(e: &Ex) -> Result<Ty, Why> {
    Ok(match e {
        Ex::Bool(_) => Ty::Bool,
        Ex::Lit(_) => Ty::Lit,
        Ex::UInt(_) => Ty::UInt,
        Ex::FLit(_) => Ty::FLit,
        Ex::Half(_) => Ty::Half,
        Ex::Float(_) => Ty::Float,
        Ex::Double(_) => Ty::Double,
        Ex::EnumRef(k, _) => Ty::Enum(*k),
        Ex::ConstRef(i) => CONSTS[*i as usize].ty,
        Ex::Un(op, x) => {
            let t = type_of(x)?;
            match op {
                UnOp::Plus | UnOp::Minus => {
                    if t == Ty::Bool {
                        return Err("unary + / - on bool (int in HLSL, rssl keeps bool)");
                    }
                    t
                }
                UnOp::Not => Ty::Bool,
                UnOp::BitNot => {
                    if t.is_float() {
                        return Err("ill-typed: ~ on a floating point operand");
                    }
                    promote(t)
                }
            }
        }
        Ex::Bin(op, a, b) => {
            let ta = type_of(a)?;
            let tb = type_of(b)?;
            if op.is_logic() {
                Ty::Bool
            } else {
                let t = common_type(*op, ta, tb)?;
                if op.is_compare() {
                    Ty::Bool
                } else {
                    t
                }
            }
        }
        Ex::Cast(t, x) => {
            type_of(x)?;
            *t
        }
    })
}

/// "operator:operand types" of every inner node, e.g. `add:int,uint`, `cast:int<-float`, `neg:uint`.
/// The check learns from benign operands which of these the evaluator supports at all.
pub fn shapes(e: &Ex, out: &mut Vec<String>) {
    fn tn(e: &Ex) -> &'static str {
        match type_of(e) {
            Ok(t) => t.name(),
            Err(_) => "?",
        }
    }
    match e {
        Ex::Un(op, x) => {
            out.push(format!("{}:{}", op.name(), tn(x)));
            shapes(x, out);
        }
        Ex::Bin(op, a, b) => {
            out.push(format!("{}:{},{}", op.name(), tn(a), tn(b)));
            shapes(a, out);
            shapes(b, out);
        }
        Ex::Cast(t, x) => {
            out.push(format!("cast:{}<-{}", t.name(), tn(x)));
            shapes(x, out);
        }
        _ => {}
    }
}

pub fn root_shape(e: &Ex) -> String {
    let mut v = Vec::new();
    shapes(e, &mut v);
    v.into_iter().next().unwrap_or_else(|| "leaf".to_string())
}

// ------------------------------------------------------------------------------------------------
// Evaluation
// ------------------------------------------------------------------------------------------------

#[derive(Clone, PartialEq, Debug)]
pub enum Res {
    Val(Val),
    /// Division or modulus by zero: must be reported as not constant
    NotConst,
    /// No reference value (undefined in HLSL / ambiguous / ill-typed): the only requirement is "does not panic"
    NoRef(Why),
}

#[derive(Clone, Debug, Default)]
pub struct Flags {
    /// Some 32-bit operation wrapped around or used a shift count outside 0..31
    pub wrapped: bool,
}

/// Exactly representable in IEEE binary16?
pub fn fits_half(v: f32) -> bool {
    if v.is_nan() || v.is_infinite() || v == 0.0 {
        return true;
    }
    let a = v.abs() as f64;
    if a > 65504.0 {
        return false;
    }
    // multiples of 2^-24 below 2^-14 (subnormals), 11 significant bits above
    let scaled = a * 16777216.0; // 2^24
    if a < 6.103515625e-5 {
        return scaled.fract() == 0.0;
    }
    let bits = (v.abs()).to_bits();
    bits & 0x1FFF == 0
}

fn to_half(v: f32) -> Res {
    if fits_half(v) {
        Res::Val(Val::Half(v))
    } else {
        Res::NoRef("value is not exactly representable in half precision")
    }
}

fn float_to_i32(v: f64) -> Result<i32, Why> {
    if v.is_nan() {
        return Err("NaN converted to an integer (undefined)");
    }
    let t = v.trunc();
    if t < -2147483648.0 || t > 2147483647.0 {
        return Err("float to int conversion out of range (undefined)");
    }
    Ok(t as i32)
}

fn float_to_u32(v: f64) -> Result<u32, Why> {
    if v.is_nan() {
        return Err("NaN converted to an integer (undefined)");
    }
    let t = v.trunc();
    if t < 0.0 || t > 4294967295.0 {
        return Err("float to uint conversion out of range (undefined)");
    }
    Ok(t as u32)
}

/// HLSL conversion of a value to a type (explicit cast, implicit conversion of operands and initialisers)
pub fn convert(v: &Val, to: Ty) -> Res {
    if let Val::Enum(_, inner) = v {
        if v.ty() == to {
            return Res::Val(v.clone());
        }
        return convert(inner, to);
    }
    if let Ty::Enum(k) = to {
        return match convert(v, ENUMS[k as usize].underlying) {
            Res::Val(u) => Res::Val(Val::Enum(k, Box::new(u))),
            other => other,
        };
    }
    // v is not an enum, `to` is not an enum
    let as_f64: Option<f64> = match v {
        Val::FLit(f) | Val::Double(f) => Some(*f),
        Val::Half(f) | Val::Float(f) => Some(*f as f64),
        _ => None,
    };
    let as_int: Option<i128> = v.as_integer();
    match to {
        Ty::Bool => Res::Val(Val::Bool(match (as_int, as_f64) {
            (Some(i), _) => i != 0,
            (_, Some(f)) => f != 0.0,
            _ => unreachable!(),
        })),
        Ty::Int => match (as_int, as_f64) {
            // modular (two's complement) narrowing
            (Some(i), _) => Res::Val(Val::Int(i as i32)),
            (_, Some(f)) => match float_to_i32(f) {
                Ok(i) => Res::Val(Val::Int(i)),
                Err(w) => Res::NoRef(w),
            },
            _ => unreachable!(),
        },
        Ty::UInt => match (as_int, as_f64) {
            (Some(i), _) => Res::Val(Val::UInt(i as u32)),
            (_, Some(f)) => match float_to_u32(f) {
                Ok(i) => Res::Val(Val::UInt(i)),
                Err(w) => Res::NoRef(w),
            },
            _ => unreachable!(),
        },
        Ty::Lit => match v {
            Val::Lit(i) => Res::Val(Val::Lit(*i)),
            _ => Res::NoRef("conversion to the untyped literal type"),
        },
        Ty::FLit => match v {
            Val::FLit(f) => Res::Val(Val::FLit(*f)),
            // exact for every literal a program can contain up to 2^53; beyond that nearest-even
            Val::Lit(i) => Res::Val(Val::FLit(*i as f64)),
            _ => Res::NoRef("conversion to the untyped float literal type"),
        },
        Ty::Float | Ty::Half => {
            // round to nearest even from the exact source value
            let f: f32 = match v {
                Val::Bool(b) => *b as u8 as f32,
                Val::Lit(i) => *i as f32,
                Val::Int(i) => *i as f32,
                Val::UInt(i) => *i as f32,
                Val::FLit(f) | Val::Double(f) => *f as f32,
                Val::Half(f) | Val::Float(f) => *f,
                Val::Enum(..) => unreachable!(),
            };
            if to == Ty::Float {
                Res::Val(Val::Float(f))
            } else {
                // via float is exact whenever the result is representable in half at all
                let exact_in_f32 = match v {
                    Val::Lit(i) => (f as f64) == (*i as f64) && (*i as f64) as i128 == *i,
                    Val::Int(i) => (f as f64) == (*i as f64),
                    Val::UInt(i) => (f as f64) == (*i as f64),
                    Val::FLit(d) | Val::Double(d) => (f as f64) == *d || d.is_nan(),
                    _ => true,
                };
                if !exact_in_f32 {
                    return Res::NoRef("value is not exactly representable in half precision");
                }
                to_half(f)
            }
        }
        Ty::Double => Res::Val(Val::Double(match v {
            Val::Bool(b) => *b as u8 as f64,
            Val::Lit(i) => *i as f64,
            Val::Int(i) => *i as f64,
            Val::UInt(i) => *i as f64,
            Val::FLit(f) | Val::Double(f) => *f,
            Val::Half(f) | Val::Float(f) => *f as f64,
            Val::Enum(..) => unreachable!(),
        })),
        Ty::Enum(_) => unreachable!(),
    }
}

fn int_binop(op: BinOp, a: i32, b: i32, fl: &mut Flags) -> Res {
    let exact = |r: i128, fl: &mut Flags| {
        let w = r as i32;
        if w as i128 != r {
            fl.wrapped = true;
        }
        Res::Val(Val::Int(w))
    };
    let (x, y) = (a as i128, b as i128);
    match op {
        BinOp::Add => exact(x + y, fl),
        BinOp::Sub => exact(x - y, fl),
        BinOp::Mul => exact(x * y, fl),
        BinOp::Div | BinOp::Mod => {
            if b == 0 {
                return Res::NotConst;
            }
            if a == i32::MIN && b == -1 {
                return Res::NoRef("INT_MIN / -1 or INT_MIN % -1 (undefined)");
            }
            // truncation toward zero, remainder has the sign of the dividend
            let q = x / y;
            Res::Val(Val::Int(if op == BinOp::Div { q as i32 } else { (x - q * y) as i32 }))
        }
        BinOp::Shl | BinOp::Shr => {
            let count = (b as u32) & 31;
            if !(0..32).contains(&b) {
                fl.wrapped = true;
            }
            if op == BinOp::Shl {
                // multiplication by 2^count modulo 2^32
                exact_wrap_i32(x * (1i128 << count), fl)
            } else {
                // arithmetic shift = floor division by 2^count
                Res::Val(Val::Int(x.div_euclid(1i128 << count) as i32))
            }
        }
        BinOp::And => Res::Val(Val::Int(a & b)),
        BinOp::Or => Res::Val(Val::Int(a | b)),
        BinOp::Xor => Res::Val(Val::Int(a ^ b)),
        BinOp::Lt => Res::Val(Val::Bool(a < b)),
        BinOp::Le => Res::Val(Val::Bool(a <= b)),
        BinOp::Gt => Res::Val(Val::Bool(a > b)),
        BinOp::Ge => Res::Val(Val::Bool(a >= b)),
        BinOp::Eq => Res::Val(Val::Bool(a == b)),
        BinOp::Ne => Res::Val(Val::Bool(a != b)),
        BinOp::LAnd | BinOp::LOr => unreachable!(),
    }
}

fn exact_wrap_i32(r: i128, fl: &mut Flags) -> Res {
    let w = r as i32;
    if w as i128 != r {
        fl.wrapped = true;
    }
    Res::Val(Val::Int(w))
}

fn uint_binop(op: BinOp, a: u32, b: u32, fl: &mut Flags) -> Res {
    let exact = |r: i128, fl: &mut Flags| {
        let w = r.rem_euclid(1i128 << 32) as u32;
        if w as i128 != r {
            fl.wrapped = true;
        }
        Res::Val(Val::UInt(w))
    };
    let (x, y) = (a as i128, b as i128);
    match op {
        BinOp::Add => exact(x + y, fl),
        BinOp::Sub => exact(x - y, fl),
        BinOp::Mul => exact(x * y, fl),
        BinOp::Div | BinOp::Mod => {
            if b == 0 {
                return Res::NotConst;
            }
            Res::Val(Val::UInt(if op == BinOp::Div { (x / y) as u32 } else { (x % y) as u32 }))
        }
        BinOp::Shl | BinOp::Shr => {
            let count = b & 31;
            if b >= 32 {
                fl.wrapped = true;
            }
            if op == BinOp::Shl {
                exact(x * (1i128 << count), fl)
            } else {
                Res::Val(Val::UInt((x / (1i128 << count)) as u32))
            }
        }
        BinOp::And => Res::Val(Val::UInt(a & b)),
        BinOp::Or => Res::Val(Val::UInt(a | b)),
        BinOp::Xor => Res::Val(Val::UInt(a ^ b)),
        BinOp::Lt => Res::Val(Val::Bool(a < b)),
        BinOp::Le => Res::Val(Val::Bool(a <= b)),
        BinOp::Gt => Res::Val(Val::Bool(a > b)),
        BinOp::Ge => Res::Val(Val::Bool(a >= b)),
        BinOp::Eq => Res::Val(Val::Bool(a == b)),
        BinOp::Ne => Res::Val(Val::Bool(a != b)),
        BinOp::LAnd | BinOp::LOr => unreachable!(),
    }
}

const TOO_BIG: Why = "exact literal result does not fit the 128 bits the reference computes with";

fn lit_binop(op: BinOp, a: i128, b: i128) -> Res {
    let big = |r: Option<i128>| match r {
        Some(v) => Res::Val(Val::Lit(v)),
        None => Res::NoRef(TOO_BIG),
    };
    match op {
        BinOp::Add => big(a.checked_add(b)),
        BinOp::Sub => big(a.checked_sub(b)),
        BinOp::Mul => big(a.checked_mul(b)),
        BinOp::Div => {
            if b == 0 {
                Res::NotConst
            } else {
                big(a.checked_div(b))
            }
        }
        BinOp::Mod => {
            if b == 0 {
                Res::NotConst
            } else {
                big(a.checked_rem(b))
            }
        }
        BinOp::Shl => {
            if b < 0 {
                return Res::NoRef("negative shift count on an untyped literal (undefined)");
            }
            if a == 0 {
                return Res::Val(Val::Lit(0));
            }
            if b >= 127 {
                return Res::NoRef(TOO_BIG);
            }
            big(a.checked_mul(1i128 << b))
        }
        BinOp::Shr => {
            if b < 0 {
                return Res::NoRef("negative shift count on an untyped literal (undefined)");
            }
            if b >= 127 {
                return Res::Val(Val::Lit(if a < 0 { -1 } else { 0 }));
            }
            Res::Val(Val::Lit(a.div_euclid(1i128 << b)))
        }
        BinOp::And => Res::Val(Val::Lit(a & b)),
        BinOp::Or => Res::Val(Val::Lit(a | b)),
        BinOp::Xor => Res::Val(Val::Lit(a ^ b)),
        BinOp::Lt => Res::Val(Val::Bool(a < b)),
        BinOp::Le => Res::Val(Val::Bool(a <= b)),
        BinOp::Gt => Res::Val(Val::Bool(a > b)),
        BinOp::Ge => Res::Val(Val::Bool(a >= b)),
        BinOp::Eq => Res::Val(Val::Bool(a == b)),
        BinOp::Ne => Res::Val(Val::Bool(a != b)),
        BinOp::LAnd | BinOp::LOr => unreachable!(),
    }
}

fn float_compare(op: BinOp, a: f64, b: f64) -> Res {
    match op {
        BinOp::Lt => Res::Val(Val::Bool(a < b)),
        BinOp::Le => Res::Val(Val::Bool(a <= b)),
        BinOp::Gt => Res::Val(Val::Bool(a > b)),
        BinOp::Ge => Res::Val(Val::Bool(a >= b)),
        BinOp::Eq => Res::Val(Val::Bool(a == b)),
        BinOp::Ne => Res::Val(Val::Bool(a != b)),
        _ => Res::NoRef("floating point arithmetic (precision is target dependent; not supported by the rssl evaluator)"),
    }
}

fn binop_in(op: BinOp, t: Ty, a: &Val, b: &Val, fl: &mut Flags) -> Res {
    match (t, a, b) {
        (Ty::Lit, Val::Lit(x), Val::Lit(y)) => lit_binop(op, *x, *y),
        (Ty::Int, Val::Int(x), Val::Int(y)) => int_binop(op, *x, *y, fl),
        (Ty::UInt, Val::UInt(x), Val::UInt(y)) => uint_binop(op, *x, *y, fl),
        (Ty::FLit, Val::FLit(x), Val::FLit(y)) | (Ty::Double, Val::Double(x), Val::Double(y)) => float_compare(op, *x, *y),
        (Ty::Half, Val::Half(x), Val::Half(y)) | (Ty::Float, Val::Float(x), Val::Float(y)) => float_compare(op, *x as f64, *y as f64),
        (Ty::Enum(k), Val::Enum(_, x), Val::Enum(_, y)) => {
            let u = ENUMS[k as usize].underlying;
            match binop_in(op, u, x, y, fl) {
                Res::Val(v) => {
                    if op.is_compare() {
                        Res::Val(v)
                    } else {
                        Res::Val(Val::Enum(k, Box::new(v)))
                    }
                }
                other => other,
            }
        }
        _ => Res::NoRef("internal: operand types disagree"),
    }
}

pub fn eval(e: &Ex, fl: &mut Flags) -> Res {
    if let Err(w) = type_of(e) {
        return Res::NoRef(w);
    }
    eval_typed(e, fl)
}

fn eval_typed(e: &Ex, fl: &mut Flags) -> Res {
    match e {
        Ex::Bool(b) => Res::Val(Val::Bool(*b)),
        Ex::Lit(v) => Res::Val(Val::Lit(*v as i128)),
        Ex::UInt(v) => Res::Val(Val::UInt(*v)),
        Ex::FLit(v) => Res::Val(Val::FLit(*v)),
        Ex::Half(v) => to_half(*v),
        Ex::Float(v) => Res::Val(Val::Float(*v)),
        Ex::Double(v) => Res::Val(Val::Double(*v)),
        Ex::EnumRef(k, i) => {
            let d = &ENUMS[*k as usize];
            let raw = d.values[*i as usize].2;
            let inner = if d.underlying == Ty::Int { Val::Int(raw as i32) } else { Val::UInt(raw as u32) };
            Res::Val(Val::Enum(*k, Box::new(inner)))
        }
        Ex::ConstRef(i) => Res::Val(const_value(*i)),
        Ex::Un(op, x) => {
            let v = match eval_typed(x, fl) {
                Res::Val(v) => v,
                other => return other,
            };
            un_op(*op, &v, fl)
        }
        Ex::Cast(t, x) => match eval_typed(x, fl) {
            Res::Val(v) => convert(&v, *t),
            other => other,
        },
        Ex::Bin(op, a, b) => {
            let ra = eval_typed(a, fl);
            let rb = eval_typed(b, fl);
            let (va, vb) = match (ra, rb) {
                (Res::NoRef(w), _) | (_, Res::NoRef(w)) => return Res::NoRef(w),
                (Res::NotConst, _) => return Res::NotConst,
                (Res::Val(va), Res::NotConst) => {
                    if op.is_logic() {
                        if let Res::Val(Val::Bool(l)) = convert(&va, Ty::Bool) {
                            let short = if *op == BinOp::LAnd { !l } else { l };
                            if short {
                                return Res::NoRef("&& / || whose skipped right operand is not constant (C: constant, rssl evaluates both)");
                            }
                        }
                    }
                    return Res::NotConst;
                }
                (Res::Val(va), Res::Val(vb)) => (va, vb),
            };
            if op.is_logic() {
                let l = match convert(&va, Ty::Bool) {
                    Res::Val(Val::Bool(l)) => l,
                    other => return other,
                };
                let r = match convert(&vb, Ty::Bool) {
                    Res::Val(Val::Bool(r)) => r,
                    other => return other,
                };
                return Res::Val(Val::Bool(if *op == BinOp::LAnd { l && r } else { l || r }));
            }
            let t = match common_type(*op, va.ty(), vb.ty()) {
                Ok(t) => t,
                Err(w) => return Res::NoRef(w),
            };
            let ca = match convert(&va, t) {
                Res::Val(v) => v,
                other => return other,
            };
            let cb = match convert(&vb, t) {
                Res::Val(v) => v,
                other => return other,
            };
            binop_in(*op, t, &ca, &cb, fl)
        }
    }
}

fn un_op(op: UnOp, v: &Val, fl: &mut Flags) -> Res {
    match op {
        UnOp::Not => match convert(v, Ty::Bool) {
            Res::Val(Val::Bool(b)) => Res::Val(Val::Bool(!b)),
            other => other,
        },
        UnOp::Plus => match v {
            Val::Bool(_) => Res::NoRef("unary + / - on bool (int in HLSL, rssl keeps bool)"),
            other => Res::Val(other.clone()),
        },
        UnOp::Minus => match v {
            Val::Bool(_) => Res::NoRef("unary + / - on bool (int in HLSL, rssl keeps bool)"),
            Val::Lit(i) => match i.checked_neg() {
                Some(r) => Res::Val(Val::Lit(r)),
                None => Res::NoRef(TOO_BIG),
            },
            Val::Int(i) => {
                if *i == i32::MIN {
                    fl.wrapped = true;
                }
                Res::Val(Val::Int(i.wrapping_neg()))
            }
            Val::UInt(i) => {
                if *i != 0 {
                    fl.wrapped = true;
                }
                Res::Val(Val::UInt(i.wrapping_neg()))
            }
            Val::FLit(f) => Res::Val(Val::FLit(-*f)),
            Val::Half(f) => Res::Val(Val::Half(-*f)),
            Val::Float(f) => Res::Val(Val::Float(-*f)),
            Val::Double(f) => Res::Val(Val::Double(-*f)),
            Val::Enum(k, inner) => match un_op(op, inner, fl) {
                Res::Val(r) => Res::Val(Val::Enum(*k, Box::new(r))),
                other => other,
            },
        },
        UnOp::BitNot => match v {
            Val::Bool(b) => Res::Val(Val::Int(!(*b as i32))),
            Val::Lit(i) => Res::Val(Val::Lit(!*i)),
            Val::Int(i) => Res::Val(Val::Int(!*i)),
            Val::UInt(i) => Res::Val(Val::UInt(!*i)),
            Val::Enum(k, inner) => match un_op(op, inner, fl) {
                Res::Val(r) => Res::Val(Val::Enum(*k, Box::new(r))),
                other => other,
            },
            _ => Res::NoRef("ill-typed: ~ on a floating point operand"),
        },
    }
}

#[cfg(test)]
mod tests {
    use super::*;

    fn ev(e: &Ex) -> Res {
        eval(e, &mut Flags::default())
    }

    #[test]
    fn property_examples() {
        // 0u - 1u
        assert_eq!(ev(&Ex::bin(BinOp::Sub, Ex::UInt(0), Ex::UInt(1))), Res::Val(Val::UInt(u32::MAX)));
        // (int)INT_MAX + (int)1
        assert_eq!(ev(&Ex::bin(BinOp::Add, Ex::int(i32::MAX), Ex::int(1))), Res::Val(Val::Int(i32::MIN)));
        // 2147483647 + 1 exact
        assert_eq!(ev(&Ex::bin(BinOp::Add, Ex::Lit(2147483647), Ex::Lit(1))), Res::Val(Val::Lit(2147483648)));
        // (int)1 << (int)32 uses the low five bits
        assert_eq!(ev(&Ex::bin(BinOp::Shl, Ex::int(1), Ex::int(32))), Res::Val(Val::Int(1)));
        assert_eq!(ev(&Ex::bin(BinOp::Shl, Ex::Lit(1), Ex::Lit(32))), Res::Val(Val::Lit(1 << 32)));
        assert_eq!(ev(&Ex::un(UnOp::Minus, Ex::int(i32::MIN))), Res::Val(Val::Int(i32::MIN)));
        assert!(matches!(ev(&Ex::bin(BinOp::Div, Ex::int(i32::MIN), Ex::int(-1))), Res::NoRef(_)));
        assert_eq!(ev(&Ex::bin(BinOp::Div, Ex::int(1), Ex::int(0))), Res::NotConst);
        assert!(matches!(ev(&Ex::cast(Ty::Int, Ex::Float(3e9))), Res::NoRef(_)));
        assert_eq!(ev(&Ex::cast(Ty::Int, Ex::un(UnOp::Minus, Ex::Float(2.5)))), Res::Val(Val::Int(-2)));
        assert_eq!(ev(&Ex::bin(BinOp::Mod, Ex::int(-7), Ex::int(2))), Res::Val(Val::Int(-1)));
        assert_eq!(ev(&Ex::bin(BinOp::Shr, Ex::int(-8), Ex::int(1))), Res::Val(Val::Int(-4)));
        assert_eq!(ev(&Ex::bin(BinOp::Lt, Ex::int(-1), Ex::UInt(1))), Res::Val(Val::Bool(false)));
    }

    #[test]
    fn sexpr_roundtrip() {
        let e = Ex::bin(BinOp::Add, Ex::cast(Ty::Enum(0), Ex::un(UnOp::Minus, Ex::Float(2.5))), Ex::EnumRef(0, 1));
        assert_eq!(Ex::from_sexpr(&e.to_sexpr()), Some(e));
    }

    #[test]
    fn half() {
        assert!(fits_half(65504.0));
        assert!(!fits_half(65536.0));
        assert!(fits_half(5.9604644775390625e-8));
        assert!(!fits_half(0.1));
        assert!(fits_half(1.5));
        assert!(!fits_half(2049.0));
    }
}
