//! `astcmp` - structural comparison of `rssl::ast` trees for C09 (printing and parsing are inverse).
//!
//! A syntax tree is first turned into a plain labelled tree (`Sx`) which drops every source location
//! (`Located<T>.location`, `Statement.location`, `Type.location`), renders floating point payloads by their
//! bit pattern and keeps everything else. Two `Sx` trees are then compared node by node and the first
//! differing path is reported. Nothing here is derived from the formatter or the parser: it only follows
//! the public data types of `rssl::ast`.
//!
//! Ambiguous nodes. The RSSL parser has no symbol table; where a text has two readings depending on whether
//! a name is a type (`(T)-x`, `(T)(x)`, `T * x;`, `sizeof(T)`, `F<T>`), it returns both readings in one node
//! and the type checker later selects one with the rule "the first branch all of whose required type names are
//! types, otherwise the last branch" / "a declaration if the leading name is a type" / "a type if it names a
//! type". When the *re-read* tree contains such a node, the comparison applies exactly that selection rule,
//! with "is a type" := the name occurs in type position (or is defined as struct / enum / template type
//! parameter) in the *original* tree. The original tree itself never contains ambiguous nodes here.

use crate::json::Json;
use rssl::ast;
use rssl::text::Located;
use std::collections::BTreeSet;

#[derive(Clone, Debug, PartialEq)]
pub struct Sx {
    /// Stable class of the node without payload, e.g. "Un:Minus", "Lit:Float16"
    pub kind: String,
    /// Payload (identifier text, literal value / bits); empty when the node has none
    pub val: String,
    pub kids: Vec<(&'static str, Sx)>,
}

impl Sx {
    fn new(kind: &str) -> Sx {
        Sx {
            kind: kind.to_string(),
            val: String::new(),
            kids: Vec::new(),
        }
    }
    fn val(kind: &str, val: String) -> Sx {
        Sx {
            kind: kind.to_string(),
            val,
            kids: Vec::new(),
        }
    }
    fn kid(mut self, name: &'static str, k: Sx) -> Sx {
        self.kids.push((name, k));
        self
    }
    fn list(name: &str, items: Vec<Sx>) -> Sx {
        Sx {
            kind: format!("{}[{}]", name, items.len()),
            val: String::new(),
            kids: items.into_iter().map(|i| ("item", i)).collect(),
        }
    }

    /// S-expression rendering (with payloads)
    pub fn render(&self, out: &mut String, budget: &mut usize) {
        if *budget == 0 {
            return;
        }
        if self.kids.is_empty() {
            out.push_str(&self.kind);
            if !self.val.is_empty() {
                out.push('=');
                out.push_str(&self.val);
            }
            *budget = budget.saturating_sub(1);
            return;
        }
        out.push('(');
        out.push_str(&self.kind);
        if !self.val.is_empty() {
            out.push('=');
            out.push_str(&self.val);
        }
        for (_, k) in &self.kids {
            out.push(' ');
            if *budget == 0 {
                out.push_str("...");
                break;
            }
            k.render(out, budget);
        }
        out.push(')');
        *budget = budget.saturating_sub(1);
    }

    pub fn to_text(&self, max_nodes: usize) -> String {
        let mut s = String::new();
        let mut b = max_nodes;
        self.render(&mut s, &mut b);
        s
    }

    /// Kinds only (no payload): the stable skeleton used in violation signatures
    pub fn skeleton(&self) -> String {
        let mut s = String::new();
        self.skeleton_into(&mut s);
        s
    }
    fn skeleton_into(&self, out: &mut String) {
        out.push_str(&self.kind);
        if !self.kids.is_empty() {
            out.push('(');
            for (i, (_, k)) in self.kids.iter().enumerate() {
                if i > 0 {
                    out.push(',');
                }
                k.skeleton_into(out);
            }
            out.push(')');
        }
    }

    pub fn visit(&self, f: &mut dyn FnMut(&Sx)) {
        f(self);
        for (_, k) in &self.kids {
            k.visit(f);
        }
    }

    pub fn node_count(&self) -> usize {
        1 + self.kids.iter().map(|k| k.1.node_count()).sum::<usize>()
    }

    pub fn depth(&self) -> usize {
        1 + self.kids.iter().map(|k| k.1.depth()).max().unwrap_or(0)
    }
}

#[derive(Clone, Debug)]
pub struct Diff {
    pub path: String,
    /// node of the original tree at the first difference
    pub left: String,
    /// node of the re-read tree at the first difference
    pub right: String,
    pub left_kind: String,
    pub right_kind: String,
}

/// First difference (pre-order) between two trees
pub fn first_diff(a: &Sx, b: &Sx) -> Option<Diff> {
    let mut path = Vec::new();
    diff_rec(a, b, &mut path)
}

fn diff_rec(a: &Sx, b: &Sx, path: &mut Vec<String>) -> Option<Diff> {
    if a.kind != b.kind || a.val != b.val || a.kids.len() != b.kids.len() {
        return Some(Diff {
            path: format!("/{}", path.join("/")),
            left: a.to_text(40),
            right: b.to_text(40),
            left_kind: a.kind.clone(),
            right_kind: b.kind.clone(),
        });
    }
    for (i, ((name, ka), (_, kb))) in a.kids.iter().zip(b.kids.iter()).enumerate() {
        path.push(format!("{}:{}#{}", a.kind, name, i));
        let d = diff_rec(ka, kb, path);
        path.pop();
        if d.is_some() {
            return d;
        }
    }
    None
}

/// Converter from `ast` to `Sx`
#[derive(Default)]
pub struct Conv<'a> {
    /// When set: ambiguous nodes are resolved with the type checker's selection rule and this set of type names
    pub resolve: Option<&'a BTreeSet<String>>,
    /// Names seen in type position or defined as a type
    pub types: BTreeSet<String>,
    /// Ambiguous nodes met
    pub ambiguous: u32,
    /// Node kinds the property excludes (typedef, pipeline, static sampler, template default, packoffset)
    pub unsupported: Vec<&'static str>,
    /// Exporter trees carry folded constants such as Float32(-1.0); every C-family reader (rssl included) reads the
    /// printed `-1.0f` as unary minus applied to `1.0f`. With this flag a negative literal is compared as
    /// Minus(magnitude), so the grouping around it is still checked.
    pub negative_literal_as_minus: bool,
    pub negative_literals: u32,
}

pub fn scoped_name(id: &ast::ScopedIdentifier) -> String {
    let mut s = String::new();
    if id.base == ast::ScopedIdentifierBase::Absolute {
        s.push_str("::");
    }
    for (i, part) in id.identifiers.iter().enumerate() {
        if i > 0 {
            s.push_str("::");
        }
        s.push_str(&part.node);
    }
    s
}

pub fn literal_class(lit: &ast::Literal) -> &'static str {
    fn fclass(v: f64) -> &'static str {
        if v.is_nan() {
            "nan"
        } else if v.is_infinite() {
            "inf"
        } else if v == 0.0 && v.is_sign_negative() {
            "negzero"
        } else if v < 0.0 {
            "negative"
        } else if v >= 9223372036854775808.0 {
            "integral>=2^63"
        } else if v.fract() == 0.0 {
            "integral"
        } else {
            "fractional"
        }
    }
    match lit {
        ast::Literal::Bool(_) => "bool",
        ast::Literal::IntUntyped(_) | ast::Literal::IntUnsigned32(_) | ast::Literal::IntUnsigned64(_) => "int",
        ast::Literal::IntSigned64(v) => {
            if *v < 0 {
                "negative"
            } else {
                "int"
            }
        }
        ast::Literal::FloatUntyped(v) | ast::Literal::Float64(v) => fclass(*v),
        ast::Literal::Float16(v) | ast::Literal::Float32(v) => fclass(*v as f64),
        ast::Literal::String(_) => "string",
    }
}

impl<'a> Conv<'a> {
    pub fn new() -> Conv<'a> {
        Conv::default()
    }

    pub fn resolving(types: &'a BTreeSet<String>) -> Conv<'a> {
        Conv {
            resolve: Some(types),
            ..Conv::default()
        }
    }

    fn is_type(&self, name: &str) -> bool {
        self.resolve.map(|t| t.contains(name)).unwrap_or(false)
    }

    pub fn module(&mut self, m: &ast::Module) -> Sx {
        let items = m.root_definitions.iter().map(|d| self.root(d)).collect();
        Sx::list("Module", items)
    }

    pub fn root(&mut self, d: &ast::RootDefinition) -> Sx {
        match d {
            ast::RootDefinition::Struct(s) => self.struct_def(s),
            ast::RootDefinition::Enum(e) => {
                self.types.insert(e.name.node.clone());
                let mut sx = Sx::val("Enum", e.name.node.clone());
                for v in &e.values {
                    let mut vx = Sx::val("EnumValue", v.name.node.clone());
                    if let Some(x) = &v.value {
                        vx = vx.kid("value", self.expr(&x.node));
                    }
                    sx = sx.kid("value", vx);
                }
                sx
            }
            ast::RootDefinition::Typedef(_) => {
                self.unsupported.push("typedef");
                Sx::new("Typedef")
            }
            ast::RootDefinition::ConstantBuffer(cb) => {
                let mut sx = Sx::val("ConstantBuffer", cb.name.node.clone());
                sx = sx.kid("attributes", self.attributes(&cb.attributes));
                sx = sx.kid("annotations", self.annotations(&cb.location_annotations));
                let members = cb
                    .members
                    .iter()
                    .map(|m| {
                        let t = self.ty(&m.ty);
                        let d = self.init_declarators(&m.defs);
                        Sx::new("ConstantVariable").kid("type", t).kid("defs", d)
                    })
                    .collect();
                sx.kid("members", Sx::list("members", members))
            }
            ast::RootDefinition::GlobalVariable(g) => {
                let a = self.attributes(&g.attributes);
                let t = self.ty(&g.global_type);
                let d = self.init_declarators(&g.defs);
                Sx::new("GlobalVariable").kid("attributes", a).kid("type", t).kid("defs", d)
            }
            ast::RootDefinition::Function(f) => self.function(f),
            ast::RootDefinition::Namespace(name, defs) => {
                let items = defs.iter().map(|d| self.root(d)).collect();
                Sx::val("Namespace", name.node.clone()).kid("defs", Sx::list("defs", items))
            }
            ast::RootDefinition::Pipeline(_) => {
                self.unsupported.push("pipeline");
                Sx::new("Pipeline")
            }
        }
    }

    fn template_params(&mut self, p: &ast::TemplateParamList) -> Sx {
        let mut items = Vec::new();
        for param in &p.0 {
            match param {
                ast::TemplateParam::Type(t) => {
                    if let Some(n) = &t.name {
                        self.types.insert(n.node.clone());
                    }
                    let mut sx = Sx::val("TemplateTypeParam", t.name.as_ref().map(|n| n.node.clone()).unwrap_or_default());
                    if let Some(d) = &t.default {
                        self.unsupported.push("template default");
                        sx = sx.kid("default", self.ty(d));
                    }
                    items.push(sx);
                }
                ast::TemplateParam::Value(v) => {
                    let mut sx = Sx::val("TemplateValueParam", v.name.as_ref().map(|n| n.node.clone()).unwrap_or_default());
                    sx = sx.kid("type", self.ty(&v.value_type));
                    if let Some(d) = &v.default {
                        self.unsupported.push("template default");
                        sx = sx.kid("default", self.expr(&d.node));
                    }
                    items.push(sx);
                }
            }
        }
        Sx::list("template", items)
    }

    fn struct_def(&mut self, s: &ast::StructDefinition) -> Sx {
        self.types.insert(s.name.node.clone());
        let mut sx = Sx::val("Struct", s.name.node.clone());
        sx = sx.kid("template", self.template_params(&s.template_params));
        let bases = s.base_types.iter().map(|t| self.ty(t)).collect();
        sx = sx.kid("bases", Sx::list("bases", bases));
        let mut members = Vec::new();
        for m in &s.members {
            match m {
                ast::StructEntry::Variable(v) => {
                    let a = self.attributes(&v.attributes);
                    let t = self.ty(&v.ty);
                    let d = self.init_declarators(&v.defs);
                    members.push(Sx::new("StructMember").kid("attributes", a).kid("type", t).kid("defs", d));
                }
                ast::StructEntry::Method(f) => members.push(self.function(f)),
            }
        }
        sx.kid("members", Sx::list("members", members))
    }

    pub fn function(&mut self, f: &ast::FunctionDefinition) -> Sx {
        let mut sx = Sx::val("Function", f.name.node.clone());
        sx = sx.kid("attributes", self.attributes(&f.attributes));
        sx = sx.kid("template", self.template_params(&f.template_params));
        sx = sx.kid("return", self.ty(&f.returntype.return_type));
        sx = sx.kid("return_annotations", self.annotations(&f.returntype.location_annotations));
        let mut params = Vec::new();
        for p in &f.params {
            let mut px = Sx::new("Param");
            px = px.kid("type", self.ty(&p.param_type));
            px = px.kid("declarator", self.declarator(&p.declarator));
            px = px.kid("annotations", self.annotations(&p.location_annotations));
            if let Some(d) = &p.default_expr {
                px = px.kid("default", self.expr(d));
            }
            params.push(px);
        }
        sx = sx.kid("params", Sx::list("params", params));
        sx = sx.kid("qualifiers", Sx::val("qualifiers", format!("const={} volatile={}", f.is_const, f.is_volatile)));
        match &f.body {
            None => sx.kid("body", Sx::new("NoBody")),
            Some(b) => {
                let items = b.iter().map(|s| self.statement(s)).collect();
                sx.kid("body", Sx::list("Body", items))
            }
        }
    }

    pub fn attributes(&mut self, attrs: &[ast::Attribute]) -> Sx {
        let items = attrs
            .iter()
            .map(|a| {
                let name = a.name.iter().map(|n| n.node.clone()).collect::<Vec<_>>().join("::");
                let mut sx = Sx::val(if a.two_square_brackets { "Attribute[[]]" } else { "Attribute[]" }, name);
                for arg in &a.arguments {
                    sx = sx.kid("arg", self.expr(&arg.node));
                }
                sx
            })
            .collect();
        Sx::list("attributes", items)
    }

    fn annotations(&mut self, anns: &[ast::LocationAnnotation]) -> Sx {
        let items = anns
            .iter()
            .map(|a| match a {
                ast::LocationAnnotation::Semantic(s) => Sx::val("Semantic", format!("{:?}", s)),
                ast::LocationAnnotation::PackOffset(p) => {
                    self.unsupported.push("packoffset");
                    Sx::val("PackOffset", format!("{:?}", p))
                }
                ast::LocationAnnotation::Register(r) => Sx::val("Register", format!("{:?}", r)),
            })
            .collect();
        Sx::list("annotations", items)
    }

    pub fn type_layout(&mut self, tl: &ast::TypeLayout) -> Sx {
        let name = scoped_name(&tl.0);
        self.types.insert(name.clone());
        let mut sx = Sx::val("TypeName", name);
        for arg in tl.1.iter() {
            sx = sx.kid("targ", self.expr_or_type(arg));
        }
        sx
    }

    fn modifiers(&mut self, m: &ast::TypeModifierSet) -> String {
        m.modifiers.iter().map(|m| format!("{:?}", m.node)).collect::<Vec<_>>().join(" ")
    }

    pub fn ty(&mut self, t: &ast::Type) -> Sx {
        let mods = self.modifiers(&t.modifiers);
        let layout = self.type_layout(&t.layout);
        Sx::val("Type", mods).kid("layout", layout)
    }

    pub fn type_id(&mut self, t: &ast::TypeId) -> Sx {
        let base = self.ty(&t.base);
        let d = self.declarator(&t.abstract_declarator);
        Sx::new("TypeId").kid("base", base).kid("declarator", d)
    }

    pub fn declarator(&mut self, d: &ast::Declarator) -> Sx {
        match d {
            ast::Declarator::Empty => Sx::new("Decl:Empty"),
            ast::Declarator::Identifier(name, attrs) => Sx::val("Decl:Identifier", scoped_name(name)).kid("attributes", self.attributes(attrs)),
            ast::Declarator::Pointer(p) => {
                let q = self.modifiers(&p.qualifiers);
                Sx::val("Decl:Pointer", q).kid("attributes", self.attributes(&p.attributes)).kid("inner", self.declarator(&p.inner))
            }
            ast::Declarator::Reference(r) => Sx::new("Decl:Reference").kid("attributes", self.attributes(&r.attributes)).kid("inner", self.declarator(&r.inner)),
            ast::Declarator::Array(a) => {
                let mut sx = Sx::new("Decl:Array").kid("inner", self.declarator(&a.inner));
                sx = match &a.array_size {
                    Some(e) => sx.kid("size", self.expr(&e.node)),
                    None => sx.kid("size", Sx::new("Unsized")),
                };
                sx.kid("attributes", self.attributes(&a.attributes))
            }
        }
    }

    pub fn init_declarators(&mut self, defs: &[ast::InitDeclarator]) -> Sx {
        let items = defs
            .iter()
            .map(|d| {
                let mut sx = Sx::new("InitDeclarator");
                sx = sx.kid("declarator", self.declarator(&d.declarator));
                sx = sx.kid("annotations", self.annotations(&d.location_annotations));
                match &d.init {
                    None => sx.kid("init", Sx::new("NoInit")),
                    Some(i) => sx.kid("init", self.initializer(i)),
                }
            })
            .collect();
        Sx::list("declarators", items)
    }

    pub fn initializer(&mut self, i: &ast::Initializer) -> Sx {
        match i {
            ast::Initializer::Expression(e) => Sx::new("Init:Expression").kid("expr", self.expr(&e.node)),
            ast::Initializer::Aggregate(items) => {
                let items = items.iter().map(|i| self.initializer(i)).collect();
                Sx::list("Init:Aggregate", items)
            }
            ast::Initializer::StaticSampler(_) => {
                self.unsupported.push("static sampler");
                Sx::new("Init:StaticSampler")
            }
        }
    }

    fn vardef(&mut self, vd: &ast::VarDef) -> Sx {
        let t = self.ty(&vd.local_type);
        let d = self.init_declarators(&vd.defs);
        Sx::new("VarDef").kid("type", t).kid("defs", d)
    }

    pub fn statement(&mut self, s: &ast::Statement) -> Sx {
        let attrs = self.attributes(&s.attributes);
        let kind = self.statement_kind(&s.kind);
        Sx::new("Statement").kid("attributes", attrs).kid("kind", kind)
    }

    fn statement_kind(&mut self, k: &ast::StatementKind) -> Sx {
        use ast::StatementKind as K;
        match k {
            K::Empty => Sx::new("St:Empty"),
            K::Expression(e) => Sx::new("St:Expression").kid("expr", self.expr(e)),
            K::Var(vd) => Sx::new("St:Var").kid("def", self.vardef(vd)),
            K::AmbiguousDeclarationOrExpression(vd, e) => {
                self.ambiguous += 1;
                if self.resolve.is_some() {
                    // type checker: a declaration if the type specifier of the declaration reading is a type
                    if self.is_type(&scoped_name(&vd.local_type.layout.0)) {
                        Sx::new("St:Var").kid("def", self.vardef(vd))
                    } else {
                        Sx::new("St:Expression").kid("expr", self.expr(e))
                    }
                } else {
                    Sx::new("St:AMBIGUOUS")
                }
            }
            K::Block(b) => {
                let items = b.iter().map(|s| self.statement(s)).collect();
                Sx::list("St:Block", items)
            }
            K::If(c, s) => Sx::new("St:If").kid("cond", self.expr(&c.node)).kid("then", self.statement(s)),
            K::IfElse(c, a, b) => Sx::new("St:IfElse").kid("cond", self.expr(&c.node)).kid("then", self.statement(a)).kid("else", self.statement(b)),
            K::For(init, c, inc, body) => {
                let i = match init {
                    ast::InitStatement::Empty => Sx::new("ForInit:Empty"),
                    ast::InitStatement::Expression(e) => Sx::new("ForInit:Expression").kid("expr", self.expr(&e.node)),
                    ast::InitStatement::Declaration(vd) => Sx::new("ForInit:Declaration").kid("def", self.vardef(vd)),
                };
                let c = match c {
                    Some(e) => self.expr(&e.node),
                    None => Sx::new("None"),
                };
                let inc = match inc {
                    Some(e) => self.expr(&e.node),
                    None => Sx::new("None"),
                };
                Sx::new("St:For").kid("init", i).kid("cond", c).kid("inc", inc).kid("body", self.statement(body))
            }
            K::While(c, s) => Sx::new("St:While").kid("cond", self.expr(&c.node)).kid("body", self.statement(s)),
            K::DoWhile(s, c) => Sx::new("St:DoWhile").kid("body", self.statement(s)).kid("cond", self.expr(&c.node)),
            K::Switch(c, s) => Sx::new("St:Switch").kid("cond", self.expr(&c.node)).kid("body", self.statement(s)),
            K::Break => Sx::new("St:Break"),
            K::Continue => Sx::new("St:Continue"),
            K::Discard => Sx::new("St:Discard"),
            K::Return(None) => Sx::new("St:Return"),
            K::Return(Some(e)) => Sx::new("St:Return").kid("expr", self.expr(&e.node)),
            K::CaseLabel(v, next) => Sx::new("St:Case").kid("value", self.expr(&v.node)).kid("next", self.statement(next)),
            K::DefaultLabel(next) => Sx::new("St:Default").kid("next", self.statement(next)),
        }
    }

    pub fn expr_or_type(&mut self, v: &ast::ExpressionOrType) -> Sx {
        match v {
            ast::ExpressionOrType::Expression(e) => Sx::new("Arg:Expression").kid("expr", self.expr(&e.node)),
            ast::ExpressionOrType::Type(t) => Sx::new("Arg:Type").kid("type", self.type_id(t)),
            ast::ExpressionOrType::Either(e, t) => {
                self.ambiguous += 1;
                if self.resolve.is_some() {
                    // type checker: the type reading if it names a type
                    if self.is_type(&scoped_name(&t.base.layout.0)) {
                        Sx::new("Arg:Type").kid("type", self.type_id(t))
                    } else {
                        Sx::new("Arg:Expression").kid("expr", self.expr(&e.node))
                    }
                } else {
                    Sx::new("Arg:AMBIGUOUS")
                }
            }
        }
    }

    pub fn literal(&mut self, lit: &ast::Literal) -> Sx {
        if self.negative_literal_as_minus {
            let magnitude = match lit {
                ast::Literal::IntSigned64(v) if *v < 0 => Some(ast::Literal::IntSigned64(v.wrapping_neg())),
                ast::Literal::FloatUntyped(v) if v.is_sign_negative() && !v.is_nan() => Some(ast::Literal::FloatUntyped(-*v)),
                ast::Literal::Float64(v) if v.is_sign_negative() && !v.is_nan() => Some(ast::Literal::Float64(-*v)),
                ast::Literal::Float16(v) if v.is_sign_negative() && !v.is_nan() => Some(ast::Literal::Float16(-*v)),
                ast::Literal::Float32(v) if v.is_sign_negative() && !v.is_nan() => Some(ast::Literal::Float32(-*v)),
                _ => None,
            };
            if let Some(m) = magnitude {
                self.negative_literals += 1;
                self.negative_literal_as_minus = false;
                let inner = self.literal(&m);
                self.negative_literal_as_minus = true;
                return Sx::new("Un:Minus").kid("operand", inner);
            }
        }
        match lit {
            ast::Literal::Bool(b) => Sx::val("Lit:Bool", b.to_string()),
            ast::Literal::IntUntyped(v) => Sx::val("Lit:IntUntyped", v.to_string()),
            ast::Literal::IntUnsigned32(v) => Sx::val("Lit:IntUnsigned32", v.to_string()),
            ast::Literal::IntUnsigned64(v) => Sx::val("Lit:IntUnsigned64", v.to_string()),
            ast::Literal::IntSigned64(v) => Sx::val("Lit:IntSigned64", v.to_string()),
            ast::Literal::FloatUntyped(v) => Sx::val("Lit:FloatUntyped", format!("bits:{:#018x}({:e})", v.to_bits(), v)),
            ast::Literal::Float16(v) => Sx::val("Lit:Float16", format!("bits:{:#010x}({:e})", v.to_bits(), v)),
            ast::Literal::Float32(v) => Sx::val("Lit:Float32", format!("bits:{:#010x}({:e})", v.to_bits(), v)),
            ast::Literal::Float64(v) => Sx::val("Lit:Float64", format!("bits:{:#018x}({:e})", v.to_bits(), v)),
            ast::Literal::String(s) => Sx::val("Lit:String", format!("{:?}", s)),
        }
    }

    pub fn expr(&mut self, e: &ast::Expression) -> Sx {
        use ast::Expression as E;
        match e {
            E::Literal(l) => self.literal(l),
            E::Identifier(id) => Sx::val("Id", scoped_name(id)),
            E::UnaryOperation(op, x) => Sx::new(&format!("Un:{:?}", op)).kid("operand", self.expr(&x.node)),
            E::BinaryOperation(op, l, r) => Sx::new(&format!("Bin:{:?}", op)).kid("left", self.expr(&l.node)).kid("right", self.expr(&r.node)),
            E::TernaryConditional(c, a, b) => Sx::new("Ternary").kid("cond", self.expr(&c.node)).kid("true", self.expr(&a.node)).kid("false", self.expr(&b.node)),
            E::ArraySubscript(o, i) => Sx::new("Subscript").kid("object", self.expr(&o.node)).kid("index", self.expr(&i.node)),
            E::Member(o, name) => Sx::val("Member", scoped_name(name)).kid("object", self.expr(&o.node)),
            E::Call(f, targs, args) => {
                let callee = self.expr(&f.node);
                let targs = targs.iter().map(|t| self.expr_or_type(t)).collect();
                let args = args.iter().map(|a| self.expr(&a.node)).collect();
                Sx::new("Call").kid("callee", callee).kid("targs", Sx::list("targs", targs)).kid("args", Sx::list("args", args))
            }
            E::Cast(t, x) => Sx::new("Cast").kid("type", self.type_id(t)).kid("operand", self.expr(&x.node)),
            E::BracedInit(t, inits) => {
                let ty = self.type_id(t);
                let items = inits.iter().map(|i| self.initializer(i)).collect();
                Sx::new("BracedInit").kid("type", ty).kid("inits", Sx::list("inits", items))
            }
            E::SizeOf(v) => Sx::new("SizeOf").kid("arg", self.expr_or_type(v)),
            E::AmbiguousParseBranch(branches) => {
                self.ambiguous += 1;
                if self.resolve.is_none() || branches.is_empty() {
                    return Sx::new("AMBIGUOUS");
                }
                // type checker: the first branch (except the last) all of whose required names are types, else the last
                let (last, main) = branches.split_last().unwrap();
                for b in main {
                    if b.expected_type_names.iter().all(|n| self.is_type(&scoped_name(n))) {
                        return self.expr(&b.expr.node);
                    }
                }
                self.expr(&last.expr.node)
            }
        }
    }
}

// ------------------------------------------------------------------------------------------------
// Expression <-> JSON (so that a minimised failing expression can be stored in a witness and rebuilt)
// ------------------------------------------------------------------------------------------------

pub const UNARY_OPS: [ast::UnaryOp; 10] = [
    ast::UnaryOp::PrefixIncrement,
    ast::UnaryOp::PrefixDecrement,
    ast::UnaryOp::PostfixIncrement,
    ast::UnaryOp::PostfixDecrement,
    ast::UnaryOp::Plus,
    ast::UnaryOp::Minus,
    ast::UnaryOp::LogicalNot,
    ast::UnaryOp::BitwiseNot,
    ast::UnaryOp::Dereference,
    ast::UnaryOp::AddressOf,
];

pub const BIN_OPS: [ast::BinOp; 30] = [
    ast::BinOp::Add,
    ast::BinOp::Subtract,
    ast::BinOp::Multiply,
    ast::BinOp::Divide,
    ast::BinOp::Modulus,
    ast::BinOp::LeftShift,
    ast::BinOp::RightShift,
    ast::BinOp::BitwiseAnd,
    ast::BinOp::BitwiseOr,
    ast::BinOp::BitwiseXor,
    ast::BinOp::BooleanAnd,
    ast::BinOp::BooleanOr,
    ast::BinOp::LessThan,
    ast::BinOp::LessEqual,
    ast::BinOp::GreaterThan,
    ast::BinOp::GreaterEqual,
    ast::BinOp::Equality,
    ast::BinOp::Inequality,
    ast::BinOp::Assignment,
    ast::BinOp::SumAssignment,
    ast::BinOp::DifferenceAssignment,
    ast::BinOp::ProductAssignment,
    ast::BinOp::QuotientAssignment,
    ast::BinOp::RemainderAssignment,
    ast::BinOp::LeftShiftAssignment,
    ast::BinOp::RightShiftAssignment,
    ast::BinOp::BitwiseAndAssignment,
    ast::BinOp::BitwiseOrAssignment,
    ast::BinOp::BitwiseXorAssignment,
    ast::BinOp::Sequence,
];

/// Every type modifier the PARSER has syntax for (parser/src/parser/types.rs: keywords and contextual identifiers).
/// Metal address space modifiers have no syntax and are therefore not in this list.
pub const PARSER_MODIFIERS: [ast::TypeModifier; 27] = [
    ast::TypeModifier::Const,
    ast::TypeModifier::Volatile,
    ast::TypeModifier::RowMajor,
    ast::TypeModifier::ColumnMajor,
    ast::TypeModifier::Unorm,
    ast::TypeModifier::Snorm,
    ast::TypeModifier::In,
    ast::TypeModifier::Out,
    ast::TypeModifier::InOut,
    ast::TypeModifier::Extern,
    ast::TypeModifier::Static,
    ast::TypeModifier::GroupShared,
    ast::TypeModifier::Precise,
    ast::TypeModifier::NoInterpolation,
    ast::TypeModifier::Linear,
    ast::TypeModifier::Centroid,
    ast::TypeModifier::NoPerspective,
    ast::TypeModifier::Sample,
    ast::TypeModifier::Point,
    ast::TypeModifier::Line,
    ast::TypeModifier::Triangle,
    ast::TypeModifier::LineAdj,
    ast::TypeModifier::TriangleAdj,
    ast::TypeModifier::Vertices,
    ast::TypeModifier::Primitives,
    ast::TypeModifier::Indices,
    ast::TypeModifier::Payload,
];

pub fn ident(name: &str) -> ast::ScopedIdentifier {
    let (base, rest) = match name.strip_prefix("::") {
        Some(r) => (ast::ScopedIdentifierBase::Absolute, r),
        None => (ast::ScopedIdentifierBase::Relative, name),
    };
    ast::ScopedIdentifier {
        base,
        identifiers: rest.split("::").map(|p| Located::none(p.to_string())).collect(),
    }
}

pub fn loc(e: ast::Expression) -> Located<ast::Expression> {
    Located::none(e)
}

pub fn bloc(e: ast::Expression) -> Box<Located<ast::Expression>> {
    Box::new(Located::none(e))
}

fn mods_to_json(m: &ast::TypeModifierSet) -> Json {
    Json::Arr(m.modifiers.iter().map(|m| Json::str(format!("{:?}", m.node))).collect())
}

fn mods_from_json(j: Option<&Json>) -> Option<ast::TypeModifierSet> {
    let mut out = ast::TypeModifierSet::new();
    if let Some(a) = j.and_then(|j| j.as_arr()) {
        for m in a {
            let name = m.as_str()?;
            let found = PARSER_MODIFIERS.iter().find(|c| format!("{:?}", c) == name)?;
            out.modifiers.push(Located::none(*found));
        }
    }
    Some(out)
}

fn declarator_to_json(d: &ast::Declarator, lossy: &mut bool) -> Json {
    match d {
        ast::Declarator::Empty => Json::Null,
        ast::Declarator::Identifier(name, attrs) => {
            if !attrs.is_empty() {
                *lossy = true;
            }
            Json::obj().set("name", scoped_name(name))
        }
        ast::Declarator::Pointer(p) => {
            if !p.attributes.is_empty() {
                *lossy = true;
            }
            Json::obj().set("ptr", declarator_to_json(&p.inner, lossy)).set("quals", mods_to_json(&p.qualifiers))
        }
        ast::Declarator::Reference(r) => {
            if !r.attributes.is_empty() {
                *lossy = true;
            }
            Json::obj().set("ref", declarator_to_json(&r.inner, lossy))
        }
        ast::Declarator::Array(a) => {
            if !a.attributes.is_empty() {
                *lossy = true;
            }
            let size = match &a.array_size {
                Some(e) => expr_to_json(&e.node, lossy),
                None => Json::Null,
            };
            Json::obj().set("arr", declarator_to_json(&a.inner, lossy)).set("size", size)
        }
    }
}

fn declarator_from_json(j: &Json) -> Option<ast::Declarator> {
    if matches!(j, Json::Null) {
        return Some(ast::Declarator::Empty);
    }
    if let Some(n) = j.get_str("name") {
        return Some(ast::Declarator::Identifier(ident(n), Vec::new()));
    }
    if let Some(inner) = j.get("ptr") {
        return Some(ast::Declarator::Pointer(ast::PointerDeclarator {
            attributes: Vec::new(),
            qualifiers: mods_from_json(j.get("quals"))?,
            inner: Box::new(declarator_from_json(inner)?),
        }));
    }
    if let Some(inner) = j.get("ref") {
        return Some(ast::Declarator::Reference(ast::ReferenceDeclarator {
            attributes: Vec::new(),
            inner: Box::new(declarator_from_json(inner)?),
        }));
    }
    if let Some(inner) = j.get("arr") {
        let size = match j.get("size") {
            None | Some(Json::Null) => None,
            Some(s) => Some(Box::new(loc(expr_from_json(s)?))),
        };
        return Some(ast::Declarator::Array(ast::ArrayDeclarator {
            inner: Box::new(declarator_from_json(inner)?),
            array_size: size,
            attributes: Vec::new(),
        }));
    }
    None
}

pub fn type_to_json(t: &ast::Type, lossy: &mut bool) -> Json {
    Json::obj()
        .set("name", scoped_name(&t.layout.0))
        .set("mods", mods_to_json(&t.modifiers))
        .set("targs", Json::Arr(t.layout.1.iter().map(|a| eot_to_json(a, lossy)).collect()))
}

pub fn type_from_json(j: &Json) -> Option<ast::Type> {
    let name = j.get_str("name")?;
    let mut targs = Vec::new();
    if let Some(a) = j.get("targs").and_then(|a| a.as_arr()) {
        for t in a {
            targs.push(eot_from_json(t)?);
        }
    }
    Some(ast::Type {
        layout: ast::TypeLayout(ident(name), targs.into_boxed_slice()),
        modifiers: mods_from_json(j.get("mods"))?,
        location: rssl::text::SourceLocation::UNKNOWN,
    })
}

fn type_id_to_json(t: &ast::TypeId, lossy: &mut bool) -> Json {
    type_to_json(&t.base, lossy).set("decl", declarator_to_json(&t.abstract_declarator, lossy))
}

fn type_id_from_json(j: &Json) -> Option<ast::TypeId> {
    Some(ast::TypeId {
        base: type_from_json(j)?,
        abstract_declarator: declarator_from_json(j.get("decl").unwrap_or(&Json::Null))?,
    })
}

fn eot_to_json(v: &ast::ExpressionOrType, lossy: &mut bool) -> Json {
    match v {
        ast::ExpressionOrType::Expression(e) => Json::obj().set("expr", expr_to_json(&e.node, lossy)),
        ast::ExpressionOrType::Type(t) => Json::obj().set("type", type_id_to_json(t, lossy)),
        ast::ExpressionOrType::Either(..) => {
            *lossy = true;
            Json::Null
        }
    }
}

fn eot_from_json(j: &Json) -> Option<ast::ExpressionOrType> {
    if let Some(e) = j.get("expr") {
        return Some(ast::ExpressionOrType::Expression(loc(expr_from_json(e)?)));
    }
    if let Some(t) = j.get("type") {
        return Some(ast::ExpressionOrType::Type(type_id_from_json(t)?));
    }
    None
}

/// Encode an expression; `lossy` is set when something could not be represented (attributes, ambiguous nodes, braced init)
pub fn expr_to_json(e: &ast::Expression, lossy: &mut bool) -> Json {
    use ast::Expression as E;
    match e {
        E::Literal(l) => match l {
            ast::Literal::Bool(b) => Json::obj().set("lit", "Bool").set("v", b.to_string()),
            ast::Literal::IntUntyped(v) => Json::obj().set("lit", "IntUntyped").set("v", v.to_string()),
            ast::Literal::IntUnsigned32(v) => Json::obj().set("lit", "IntUnsigned32").set("v", v.to_string()),
            ast::Literal::IntUnsigned64(v) => Json::obj().set("lit", "IntUnsigned64").set("v", v.to_string()),
            ast::Literal::IntSigned64(v) => Json::obj().set("lit", "IntSigned64").set("v", v.to_string()),
            ast::Literal::FloatUntyped(v) => Json::obj().set("lit", "FloatUntyped").set("v", format!("{:#x}", v.to_bits())).set("approx", format!("{:e}", v)),
            ast::Literal::Float16(v) => Json::obj().set("lit", "Float16").set("v", format!("{:#x}", v.to_bits())).set("approx", format!("{:e}", v)),
            ast::Literal::Float32(v) => Json::obj().set("lit", "Float32").set("v", format!("{:#x}", v.to_bits())).set("approx", format!("{:e}", v)),
            ast::Literal::Float64(v) => Json::obj().set("lit", "Float64").set("v", format!("{:#x}", v.to_bits())).set("approx", format!("{:e}", v)),
            ast::Literal::String(s) => Json::obj().set("lit", "String").set("v", s.as_str()),
        },
        E::Identifier(id) => Json::obj().set("id", scoped_name(id)),
        E::UnaryOperation(op, x) => Json::obj().set("un", format!("{:?}", op)).set("e", expr_to_json(&x.node, lossy)),
        E::BinaryOperation(op, l, r) => Json::obj().set("bin", format!("{:?}", op)).set("l", expr_to_json(&l.node, lossy)).set("r", expr_to_json(&r.node, lossy)),
        E::TernaryConditional(c, a, b) => Json::obj().set("ternary", Json::Arr(vec![expr_to_json(&c.node, lossy), expr_to_json(&a.node, lossy), expr_to_json(&b.node, lossy)])),
        E::ArraySubscript(o, i) => Json::obj().set("subscript", Json::Arr(vec![expr_to_json(&o.node, lossy), expr_to_json(&i.node, lossy)])),
        E::Member(o, name) => Json::obj().set("member", scoped_name(name)).set("e", expr_to_json(&o.node, lossy)),
        E::Call(f, targs, args) => Json::obj()
            .set("call", expr_to_json(&f.node, lossy))
            .set("targs", Json::Arr(targs.iter().map(|t| eot_to_json(t, lossy)).collect()))
            .set("args", Json::Arr(args.iter().map(|a| expr_to_json(&a.node, lossy)).collect())),
        E::Cast(t, x) => Json::obj().set("cast", type_id_to_json(t, lossy)).set("e", expr_to_json(&x.node, lossy)),
        E::SizeOf(v) => Json::obj().set("sizeof", eot_to_json(v, lossy)),
        E::BracedInit(..) | E::AmbiguousParseBranch(..) => {
            *lossy = true;
            Json::Null
        }
    }
}

fn parse_bits(s: &str) -> Option<u64> {
    u64::from_str_radix(s.strip_prefix("0x")?, 16).ok()
}

pub fn expr_from_json(j: &Json) -> Option<ast::Expression> {
    use ast::Expression as E;
    if let Some(kind) = j.get_str("lit") {
        let v = j.get_str("v")?;
        let lit = match kind {
            "Bool" => ast::Literal::Bool(v == "true"),
            "IntUntyped" => ast::Literal::IntUntyped(v.parse().ok()?),
            "IntUnsigned32" => ast::Literal::IntUnsigned32(v.parse().ok()?),
            "IntUnsigned64" => ast::Literal::IntUnsigned64(v.parse().ok()?),
            "IntSigned64" => ast::Literal::IntSigned64(v.parse().ok()?),
            "FloatUntyped" => ast::Literal::FloatUntyped(f64::from_bits(parse_bits(v)?)),
            "Float16" => ast::Literal::Float16(f32::from_bits(parse_bits(v)? as u32)),
            "Float32" => ast::Literal::Float32(f32::from_bits(parse_bits(v)? as u32)),
            "Float64" => ast::Literal::Float64(f64::from_bits(parse_bits(v)?)),
            "String" => ast::Literal::String(v.to_string()),
            _ => return None,
        };
        return Some(E::Literal(lit));
    }
    if let Some(id) = j.get_str("id") {
        return Some(E::Identifier(ident(id)));
    }
    if let Some(op) = j.get_str("un") {
        let op = UNARY_OPS.iter().find(|o| format!("{:?}", o) == op)?.clone();
        return Some(E::UnaryOperation(op, bloc(expr_from_json(j.get("e")?)?)));
    }
    if let Some(op) = j.get_str("bin") {
        let op = BIN_OPS.iter().find(|o| format!("{:?}", o) == op)?.clone();
        return Some(E::BinaryOperation(op, bloc(expr_from_json(j.get("l")?)?), bloc(expr_from_json(j.get("r")?)?)));
    }
    if let Some(a) = j.get("ternary").and_then(|a| a.as_arr()) {
        if a.len() != 3 {
            return None;
        }
        return Some(E::TernaryConditional(bloc(expr_from_json(&a[0])?), bloc(expr_from_json(&a[1])?), bloc(expr_from_json(&a[2])?)));
    }
    if let Some(a) = j.get("subscript").and_then(|a| a.as_arr()) {
        if a.len() != 2 {
            return None;
        }
        return Some(E::ArraySubscript(bloc(expr_from_json(&a[0])?), bloc(expr_from_json(&a[1])?)));
    }
    if let Some(name) = j.get_str("member") {
        return Some(E::Member(bloc(expr_from_json(j.get("e")?)?), ident(name)));
    }
    if let Some(f) = j.get("call") {
        let mut targs = Vec::new();
        for t in j.get("targs").and_then(|a| a.as_arr()).unwrap_or(&[]) {
            targs.push(eot_from_json(t)?);
        }
        let mut args = Vec::new();
        for a in j.get("args").and_then(|a| a.as_arr()).unwrap_or(&[]) {
            args.push(loc(expr_from_json(a)?));
        }
        return Some(E::Call(bloc(expr_from_json(f)?), targs, args));
    }
    if let Some(t) = j.get("cast") {
        return Some(E::Cast(Box::new(type_id_from_json(t)?), bloc(expr_from_json(j.get("e")?)?)));
    }
    if let Some(v) = j.get("sizeof") {
        return Some(E::SizeOf(Box::new(eot_from_json(v)?)));
    }
    None
}
