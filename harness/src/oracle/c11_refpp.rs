//! C11 - reference model of conditional compilation ("refpp").
//!
//! A small C preprocessor for the sub-language the C11 workload is written in, derived from the C
//! standard (C11 6.10.1 "Conditional inclusion", 6.10.2 "Source file inclusion", 6.10.3 "Macro
//! replacement", with the C23 wording that makes explicit what every compiler did before: the
//! condition of an `#elif` is only evaluated when no earlier group of its chain was taken and the
//! chain itself is not inside a skipped group) and from the text of property C11 (values are
//! unsigned 64 bit; the operators are || && == != < <= > >= ! and parentheses; `defined X`,
//! `defined(X)`; macro substitution; identifiers that remain are 0).
//!
//! Nothing here was derived from rssl's preprocessor. The only concession to the observed system is
//! lexical and is made when *rendering* the output: rssl's token stream has no single `<=` / `>=`
//! token (it delivers `<` `=`), so the reference output splits these two punctuators as well.
//!
//! The model is incremental (one physical line at a time) so that the generator can ask what is
//! live at the point where it writes the next line; the expected result of a complete input is
//! always recomputed from the final text by `run`.
//!
//! Three valued result:
//!  * `Tokens`  - the exact sequence of tokens that must reach the parser,
//!  * `Reject`  - the conditional structure is broken (unmatched #elif/#else/#endif, unterminated
//!                chain): the input must be refused with a diagnostic,
//!  * `NoRef`   - C gives this input no meaning the property talks about (#elif/#else after #else,
//!                malformed live condition, unsupported operator, incompatible redefinition, ...):
//!                the monitor skips and counts it.

use std::collections::{BTreeMap, BTreeSet};

// ------------------------------------------------------------------------------------------------
// Tokens
// ------------------------------------------------------------------------------------------------

#[derive(Clone, Copy, Debug, PartialEq, Eq)]
pub enum Suffix {
    None,
    U,
    L,
    UL,
}

#[derive(Clone, Debug, PartialEq, Eq)]
pub enum Tok {
    Id(String),
    Int(u64, Suffix),
    Punct(&'static str),
    Str(String),
    /// a character the sub-language does not use
    Other(char),
}

const PUNCT2: [&str; 6] = ["||", "&&", "==", "!=", "<=", ">="];
const PUNCT1: [&str; 12] = ["(", ")", ",", ";", "<", ">", "!", "#", "=", "{", "}", "+"];

/// Lex the contents of one logical line. Comments (`// ...` and single line `/* ... */`) are white space.
pub fn lex(text: &str) -> Result<Vec<Tok>, String> {
    let b = text.as_bytes();
    let mut i = 0;
    let mut out = Vec::new();
    while i < b.len() {
        let c = b[i];
        if c == b' ' || c == b'\t' || c == b'\r' || c == b'\n' {
            i += 1;
            continue;
        }
        if c == b'/' && i + 1 < b.len() && b[i + 1] == b'/' {
            break;
        }
        if c == b'/' && i + 1 < b.len() && b[i + 1] == b'*' {
            match text[i + 2..].find("*/") {
                Some(p) => {
                    i = i + 2 + p + 2;
                    continue;
                }
                None => return Err("unterminated comment".into()),
            }
        }
        if c.is_ascii_alphabetic() || c == b'_' {
            let s = i;
            while i < b.len() && (b[i].is_ascii_alphanumeric() || b[i] == b'_') {
                i += 1;
            }
            out.push(Tok::Id(text[s..i].to_string()));
            continue;
        }
        if c.is_ascii_digit() {
            let s = i;
            while i < b.len() && (b[i].is_ascii_alphanumeric() || b[i] == b'_') {
                i += 1;
            }
            out.push(lex_int(&text[s..i])?);
            continue;
        }
        if c == b'"' {
            let s = i + 1;
            i += 1;
            while i < b.len() && b[i] != b'"' {
                i += 1;
            }
            if i >= b.len() {
                return Err("unterminated string".into());
            }
            out.push(Tok::Str(text[s..i].to_string()));
            i += 1;
            continue;
        }
        if i + 1 < b.len() {
            if let Some(p) = PUNCT2.iter().find(|p| p.as_bytes() == &b[i..i + 2]) {
                out.push(Tok::Punct(p));
                i += 2;
                continue;
            }
        }
        if let Some(p) = PUNCT1.iter().find(|p| p.as_bytes()[0] == c) {
            out.push(Tok::Punct(p));
            i += 1;
            continue;
        }
        out.push(Tok::Other(c as char));
        i += 1;
    }
    Ok(out)
}

/// C integer constant: decimal, octal (leading 0), hexadecimal (0x), suffix u/l in any order and case
fn lex_int(s: &str) -> Result<Tok, String> {
    let lower = s.to_ascii_lowercase();
    let (digits, radix) = if let Some(h) = lower.strip_prefix("0x") {
        (h.to_string(), 16)
    } else if lower.len() > 1 && lower.starts_with('0') {
        (lower[1..].to_string(), 8)
    } else {
        (lower.clone(), 10)
    };
    let end = digits.find(|c: char| !c.is_digit(radix)).unwrap_or(digits.len());
    let (num, suffix) = digits.split_at(end);
    let suffix = match suffix {
        "" => Suffix::None,
        "u" => Suffix::U,
        "l" => Suffix::L,
        "ul" | "lu" => Suffix::UL,
        _ => return Err(format!("bad integer suffix in {}", s)),
    };
    if num.is_empty() {
        if radix == 8 {
            // "0" followed by a suffix only
            return Ok(Tok::Int(0, suffix));
        }
        return Err(format!("bad integer {}", s));
    }
    match u64::from_str_radix(num, radix) {
        Ok(v) => Ok(Tok::Int(v, suffix)),
        Err(_) => Err(format!("integer {} does not fit 64 bits", s)),
    }
}

/// Canonical spelling of a token of the output (what the monitor compares)
pub fn render(t: &Tok, out: &mut Vec<String>) {
    match t {
        Tok::Id(s) => out.push(s.clone()),
        Tok::Int(v, s) => out.push(format!(
            "{}{}",
            v,
            match s {
                Suffix::None => "",
                Suffix::U => "u",
                Suffix::L => "l",
                Suffix::UL => "ul",
            }
        )),
        // lexical convention of the observed token stream, see module comment
        Tok::Punct("<=") => {
            out.push("<".into());
            out.push("=".into());
        }
        Tok::Punct(">=") => {
            out.push(">".into());
            out.push("=".into());
        }
        Tok::Punct(p) => out.push(p.to_string()),
        Tok::Str(s) => out.push(format!("\"{}\"", s)),
        Tok::Other(c) => out.push(format!("?{}", c)),
    }
}

// ------------------------------------------------------------------------------------------------
// Macros
// ------------------------------------------------------------------------------------------------

#[derive(Clone, Debug, PartialEq, Eq)]
pub struct Macro {
    /// None = object-like
    pub params: Option<Vec<String>>,
    pub body: Vec<Tok>,
}

pub type Macros = BTreeMap<String, Macro>;

/// Why a reference value does not exist
pub type NoRef = String;

/// Macro replacement (C11 6.10.3) for the sub-language: no # and ## operators; a macro name is not
/// replaced again inside its own replacement (6.10.3.4p2); arguments are completely macro replaced
/// before substitution (6.10.3.1). A function-like macro name that is not followed by `(` is not an
/// invocation. Cases whose meaning depends on rescanning together with the *following* source
/// tokens (a replacement list ending in the name of a function-like macro) are reported as NoRef.
pub fn expand(tokens: &[Tok], macros: &Macros, hide: &mut Vec<String>, depth: usize) -> Result<Vec<Tok>, NoRef> {
    if depth > 64 {
        return Err("macro nesting too deep for the model".into());
    }
    let mut out = Vec::new();
    let mut i = 0;
    while i < tokens.len() {
        let t = &tokens[i];
        let Tok::Id(name) = t else {
            out.push(t.clone());
            i += 1;
            continue;
        };
        let Some(m) = macros.get(name) else {
            out.push(t.clone());
            i += 1;
            continue;
        };
        if hide.contains(name) {
            return Err(format!("recursive macro {}", name));
        }
        match &m.params {
            None => {
                hide.push(name.clone());
                let inner = expand(&m.body, macros, hide, depth + 1)?;
                hide.pop();
                check_tail(&inner, macros)?;
                out.extend(inner);
                i += 1;
            }
            Some(params) => {
                if tokens.get(i + 1) != Some(&Tok::Punct("(")) {
                    // not an invocation
                    out.push(t.clone());
                    i += 1;
                    continue;
                }
                // collect arguments
                let mut args: Vec<Vec<Tok>> = vec![Vec::new()];
                let mut level = 0;
                let mut j = i + 2;
                let mut closed = false;
                while j < tokens.len() {
                    match &tokens[j] {
                        Tok::Punct("(") => {
                            level += 1;
                            args.last_mut().unwrap().push(tokens[j].clone());
                        }
                        Tok::Punct(")") => {
                            if level == 0 {
                                closed = true;
                                break;
                            }
                            level -= 1;
                            args.last_mut().unwrap().push(tokens[j].clone());
                        }
                        Tok::Punct(",") if level == 0 => args.push(Vec::new()),
                        other => args.last_mut().unwrap().push(other.clone()),
                    }
                    j += 1;
                }
                if !closed {
                    return Err(format!("unterminated invocation of {}", name));
                }
                if params.is_empty() {
                    if !(args.len() == 1 && args[0].is_empty()) {
                        return Err(format!("wrong number of arguments for {}", name));
                    }
                } else if args.len() != params.len() {
                    return Err(format!("wrong number of arguments for {}", name));
                }
                let mut expanded_args = Vec::new();
                for a in &args {
                    let e = expand(a, macros, hide, depth + 1)?;
                    expanded_args.push(e);
                }
                let mut substituted = Vec::new();
                for bt in &m.body {
                    if let Tok::Id(id) = bt {
                        if let Some(p) = params.iter().position(|p| p == id) {
                            substituted.extend(expanded_args[p].iter().cloned());
                            continue;
                        }
                    }
                    substituted.push(bt.clone());
                }
                hide.push(name.clone());
                let inner = expand(&substituted, macros, hide, depth + 1)?;
                hide.pop();
                check_tail(&inner, macros)?;
                out.extend(inner);
                i = j + 1;
            }
        }
    }
    Ok(out)
}

fn check_tail(expansion: &[Tok], macros: &Macros) -> Result<(), NoRef> {
    if let Some(Tok::Id(last)) = expansion.last() {
        if let Some(m) = macros.get(last) {
            if m.params.is_some() {
                return Err(format!("replacement ends in function-like macro name {}", last));
            }
        }
    }
    Ok(())
}

// ------------------------------------------------------------------------------------------------
// Conditions
// ------------------------------------------------------------------------------------------------

/// What the evaluator saw (for the evidence histograms)
#[derive(Clone, Debug, Default)]
pub struct CondStats {
    pub ops: Vec<&'static str>,
    pub defined_plain: u64,
    pub defined_paren: u64,
    pub unknown_ids: u64,
    pub big_operands: u64,
    pub max_depth: u64,
}

/// Value of a controlling expression (C11 6.10.1p1-4, restricted to the property's operators,
/// all arithmetic in u64 as the property states).
pub fn eval_condition(tokens: &[Tok], macros: &Macros, stats: &mut CondStats) -> Result<u64, NoRef> {
    // 1. `defined identifier` / `defined ( identifier )` are evaluated before macro replacement (6.10.1p1, p4)
    let mut pre = Vec::new();
    let mut i = 0;
    while i < tokens.len() {
        if tokens[i] == Tok::Id("defined".into()) {
            match (tokens.get(i + 1), tokens.get(i + 2), tokens.get(i + 3)) {
                (Some(Tok::Id(x)), _, _) => {
                    stats.defined_plain += 1;
                    pre.push(Tok::Int(macros.contains_key(x) as u64, Suffix::None));
                    i += 2;
                }
                (Some(Tok::Punct("(")), Some(Tok::Id(x)), Some(Tok::Punct(")"))) => {
                    stats.defined_paren += 1;
                    pre.push(Tok::Int(macros.contains_key(x) as u64, Suffix::None));
                    i += 4;
                }
                _ => return Err("malformed defined".into()),
            }
        } else {
            pre.push(tokens[i].clone());
            i += 1;
        }
    }
    // a `defined` hidden inside a function-like macro invocation's arguments was handled above as C
    // requires; one produced by macro replacement is undefined behaviour (6.10.1p4)
    let expanded = expand(&pre, macros, &mut Vec::new(), 0)?;
    if expanded.iter().any(|t| *t == Tok::Id("defined".into())) {
        return Err("defined produced by macro replacement".into());
    }
    if expanded.is_empty() {
        return Err("empty condition".into());
    }
    // 2. remaining identifiers are 0 (6.10.1p4)
    let mut p = Parser {
        toks: &expanded,
        pos: 0,
        stats,
        depth: 0,
    };
    let v = p.logical_or()?;
    if p.pos != expanded.len() {
        return Err(format!("trailing tokens in condition at {}", p.pos));
    }
    Ok(v)
}

struct Parser<'a> {
    toks: &'a [Tok],
    pos: usize,
    stats: &'a mut CondStats,
    depth: u64,
}

impl Parser<'_> {
    fn peek_punct(&self) -> Option<&'static str> {
        match self.toks.get(self.pos) {
            Some(Tok::Punct(p)) => Some(p),
            _ => None,
        }
    }

    // logical-OR-expression: logical-AND-expression { || logical-AND-expression }
    fn logical_or(&mut self) -> Result<u64, NoRef> {
        let mut v = self.logical_and()?;
        while self.peek_punct() == Some("||") {
            self.pos += 1;
            self.stats.ops.push("||");
            let r = self.logical_and()?;
            v = (v != 0 || r != 0) as u64;
        }
        Ok(v)
    }

    // logical-AND-expression: equality-expression { && equality-expression }   (| ^ & are not supported operators)
    fn logical_and(&mut self) -> Result<u64, NoRef> {
        let mut v = self.equality()?;
        while self.peek_punct() == Some("&&") {
            self.pos += 1;
            self.stats.ops.push("&&");
            let r = self.equality()?;
            v = (v != 0 && r != 0) as u64;
        }
        Ok(v)
    }

    // equality-expression: relational-expression { (== | !=) relational-expression }
    fn equality(&mut self) -> Result<u64, NoRef> {
        let mut v = self.relational()?;
        loop {
            match self.peek_punct() {
                Some("==") => {
                    self.pos += 1;
                    self.stats.ops.push("==");
                    let r = self.relational()?;
                    v = (v == r) as u64;
                }
                Some("!=") => {
                    self.pos += 1;
                    self.stats.ops.push("!=");
                    let r = self.relational()?;
                    v = (v != r) as u64;
                }
                _ => return Ok(v),
            }
        }
    }

    // relational-expression: unary-expression { (< | > | <= | >=) unary-expression }   (shift, additive, multiplicative not supported)
    fn relational(&mut self) -> Result<u64, NoRef> {
        let mut v = self.unary()?;
        loop {
            let op = match self.peek_punct() {
                Some(p @ ("<" | ">" | "<=" | ">=")) => p,
                _ => return Ok(v),
            };
            self.pos += 1;
            self.stats.ops.push(op);
            let r = self.unary()?;
            v = match op {
                "<" => v < r,
                ">" => v > r,
                "<=" => v <= r,
                _ => v >= r,
            } as u64;
        }
    }

    // unary-expression: ! unary-expression | primary-expression
    fn unary(&mut self) -> Result<u64, NoRef> {
        if self.peek_punct() == Some("!") {
            self.pos += 1;
            self.stats.ops.push("!");
            let v = self.unary()?;
            return Ok((v == 0) as u64);
        }
        self.primary()
    }

    fn primary(&mut self) -> Result<u64, NoRef> {
        match self.toks.get(self.pos) {
            Some(Tok::Int(v, _)) => {
                self.pos += 1;
                if *v >= (1 << 32) {
                    self.stats.big_operands += 1;
                }
                Ok(*v)
            }
            Some(Tok::Id(_)) => {
                self.pos += 1;
                self.stats.unknown_ids += 1;
                Ok(0)
            }
            Some(Tok::Punct("(")) => {
                self.pos += 1;
                self.depth += 1;
                if self.depth > self.stats.max_depth {
                    self.stats.max_depth = self.depth;
                }
                self.stats.ops.push("()");
                let v = self.logical_or()?;
                self.depth -= 1;
                if self.peek_punct() != Some(")") {
                    return Err("missing )".into());
                }
                self.pos += 1;
                Ok(v)
            }
            Some(other) => Err(format!("unsupported token in condition: {:?}", other)),
            None => Err("condition ends early".into()),
        }
    }
}

// ------------------------------------------------------------------------------------------------
// The conditional automaton and the line processor
// ------------------------------------------------------------------------------------------------

#[derive(Clone, Copy, Debug, PartialEq, Eq)]
pub enum St {
    /// no group of this chain was taken yet; a later #elif/#else may be
    NotYetTaken,
    /// the current group is the one being processed
    Taking,
    /// an earlier group of this chain was taken; nothing else of the chain is
    AlreadyTaken,
    /// the whole chain sits inside a skipped group: only nesting is tracked
    ParentInactive,
}

#[derive(Clone, Debug)]
struct Frame {
    st: St,
    seen_else: bool,
    /// include depth at which the chain was opened
    file_level: usize,
}

#[derive(Clone, Debug, PartialEq, Eq)]
pub enum Expected {
    Tokens(Vec<String>),
    Reject(String),
    NoRef(String),
}

impl Expected {
    pub fn class(&self) -> &'static str {
        match self {
            Expected::Tokens(_) => "tokens",
            Expected::Reject(_) => "reject",
            Expected::NoRef(_) => "noref",
        }
    }
}

/// Counters of what the model went through (evidence)
pub type Events = BTreeMap<&'static str, u64>;

pub struct RefPP<'a> {
    files: &'a [(String, String)],
    pub macros: Macros,
    once: BTreeSet<String>,
    stack: Vec<Frame>,
    out: Vec<String>,
    reject: Option<String>,
    noref: Option<String>,
    file_stack: Vec<String>,
    pub events: Events,
    pub cond: CondStats,
    pub max_nesting: usize,
    /// diagnosis mode only (never used for the expected value): also evaluate the #elif conditions C does
    /// not evaluate and remember whether one of them would have been malformed
    pub eager_elif: bool,
    pub eager_elif_malformed: Option<String>,
}

impl<'a> RefPP<'a> {
    pub fn new(files: &'a [(String, String)], entry: &str, defines: &[(String, String)]) -> RefPP<'a> {
        let mut macros = Macros::new();
        for (n, v) in defines {
            macros.insert(
                n.clone(),
                Macro {
                    params: None,
                    body: lex(v).unwrap_or_default(),
                },
            );
        }
        RefPP {
            files,
            macros,
            once: BTreeSet::new(),
            stack: Vec::new(),
            out: Vec::new(),
            reject: None,
            noref: None,
            file_stack: vec![entry.to_string()],
            events: Events::new(),
            cond: CondStats::default(),
            max_nesting: 0,
            eager_elif: false,
            eager_elif_malformed: None,
        }
    }

    fn ev(&mut self, k: &'static str) {
        *self.events.entry(k).or_insert(0) += 1;
    }

    pub fn is_active(&self) -> bool {
        self.stack.iter().all(|f| f.st == St::Taking)
    }

    pub fn nesting(&self) -> usize {
        self.stack.len()
    }

    /// State of the innermost chain (None at top level)
    pub fn top_state(&self) -> Option<(St, bool)> {
        self.stack.last().map(|f| (f.st, f.seen_else))
    }

    fn set_noref(&mut self, why: String) {
        if self.noref.is_none() {
            self.noref = Some(why);
        }
    }

    fn set_reject(&mut self, why: String) {
        if self.reject.is_none() {
            self.reject = Some(why);
        }
    }

    fn condition(&mut self, rest: &str) -> bool {
        let toks = match lex(rest) {
            Ok(t) => t,
            Err(e) => {
                self.set_noref(format!("condition does not lex: {}", e));
                return false;
            }
        };
        let mut stats = std::mem::take(&mut self.cond);
        let r = eval_condition(&toks, &self.macros, &mut stats);
        self.cond = stats;
        match r {
            Ok(v) => v != 0,
            Err(e) => {
                self.set_noref(format!("live condition has no value: {}", e));
                false
            }
        }
    }

    /// Process one physical line of the file on top of the file stack
    pub fn feed_line(&mut self, line: &str) {
        let trimmed = line.trim_start_matches([' ', '\t']);
        let Some(after_hash) = trimmed.strip_prefix('#') else {
            // text line
            if self.is_active() {
                match lex(line) {
                    Ok(toks) => {
                        if toks.is_empty() {
                            return;
                        }
                        self.ev("text_line:live");
                        match expand(&toks, &self.macros, &mut Vec::new(), 0) {
                            Ok(e) => {
                                for t in &e {
                                    render(t, &mut self.out);
                                }
                            }
                            Err(why) => self.set_noref(format!("text line: {}", why)),
                        }
                    }
                    Err(e) => self.set_noref(format!("text line does not lex: {}", e)),
                }
            } else if !line.trim().is_empty() {
                self.ev("text_line:skipped");
            }
            return;
        };
        let after_hash = after_hash.trim_start_matches([' ', '\t']);
        let name_len = after_hash.bytes().take_while(|c| c.is_ascii_alphanumeric() || *c == b'_').count();
        let (name, rest) = after_hash.split_at(name_len);
        let active = self.is_active();
        match name {
            "if" | "ifdef" | "ifndef" => {
                let st = if !active {
                    self.ev("if:parent_inactive");
                    St::ParentInactive
                } else {
                    let value = match name {
                        "if" => self.condition(rest),
                        _ => match lex(rest).as_deref() {
                            Ok([Tok::Id(x)]) => {
                                let d = self.macros.contains_key(x);
                                if name == "ifdef" {
                                    d
                                } else {
                                    !d
                                }
                            }
                            _ => {
                                self.set_noref(format!("malformed #{}", name));
                                false
                            }
                        },
                    };
                    self.ev(match (name, value) {
                        ("if", true) => "if:true",
                        ("if", false) => "if:false",
                        ("ifdef", true) => "ifdef:true",
                        ("ifdef", false) => "ifdef:false",
                        (_, true) => "ifndef:true",
                        (_, false) => "ifndef:false",
                    });
                    if value {
                        St::Taking
                    } else {
                        St::NotYetTaken
                    }
                };
                self.stack.push(Frame {
                    st,
                    seen_else: false,
                    file_level: self.file_stack.len(),
                });
                self.max_nesting = self.max_nesting.max(self.stack.len());
            }
            "elif" | "else" => {
                let level = self.file_stack.len();
                let Some(top) = self.stack.last().cloned() else {
                    self.ev("unmatched_else_or_elif");
                    self.set_reject(format!("#{} without #if", name));
                    return;
                };
                if top.file_level != level {
                    self.set_noref("conditional chain spans files".into());
                }
                if top.seen_else {
                    // C11 6.10.1 syntax: at most one #else, and it is last. Constraint violation; the property
                    // promises nothing about it.
                    self.ev("else_or_elif_after_else");
                    self.set_noref(format!("#{} after #else", name));
                    return;
                }
                let new_state = match top.st {
                    St::ParentInactive => {
                        self.ev("elif_else:parent_inactive");
                        St::ParentInactive
                    }
                    St::Taking | St::AlreadyTaken => {
                        self.ev("elif_else:chain_already_taken");
                        St::AlreadyTaken
                    }
                    St::NotYetTaken => {
                        // everything outside is live (the chain would be ParentInactive otherwise)
                        if name == "else" {
                            self.ev("else:taken");
                            St::Taking
                        } else if self.condition(rest) {
                            self.ev("elif:true");
                            St::Taking
                        } else {
                            self.ev("elif:false");
                            St::NotYetTaken
                        }
                    }
                };
                if name == "elif" && top.st != St::NotYetTaken {
                    self.ev("elif:not_evaluated");
                    if self.eager_elif && self.eager_elif_malformed.is_none() {
                        if let Ok(toks) = lex(rest) {
                            let mut scratch = CondStats::default();
                            if let Err(e) = eval_condition(&toks, &self.macros, &mut scratch) {
                                self.eager_elif_malformed = Some(e);
                            }
                        }
                    }
                }
                let f = self.stack.last_mut().unwrap();
                f.st = new_state;
                if name == "else" {
                    f.seen_else = true;
                    if !lex(rest).map(|t| t.is_empty()).unwrap_or(false) {
                        self.set_noref("tokens after #else".into());
                    }
                }
            }
            "endif" => {
                let level = self.file_stack.len();
                match self.stack.pop() {
                    None => {
                        self.ev("unmatched_endif");
                        self.set_reject("#endif without #if".into());
                    }
                    Some(f) => {
                        if f.file_level != level {
                            self.set_noref("conditional chain spans files".into());
                        }
                        if !lex(rest).map(|t| t.is_empty()).unwrap_or(false) {
                            self.set_noref("tokens after #endif".into());
                        }
                    }
                }
            }
            "define" => {
                if !active {
                    self.ev("define:skipped");
                    return;
                }
                self.ev("define:live");
                self.define(rest);
            }
            "undef" => {
                if !active {
                    self.ev("undef:skipped");
                    return;
                }
                self.ev("undef:live");
                match lex(rest).as_deref() {
                    Ok([Tok::Id(x)]) => {
                        self.macros.remove(x);
                    }
                    _ => self.set_noref("malformed #undef".into()),
                }
            }
            "include" => {
                if !active {
                    self.ev("include:skipped");
                    return;
                }
                self.ev("include:live");
                match lex(rest).as_deref() {
                    Ok([Tok::Str(f)]) => {
                        let f = f.clone();
                        self.include(&f);
                    }
                    _ => self.set_noref("malformed #include".into()),
                }
            }
            "pragma" => {
                if !active {
                    self.ev("pragma:skipped");
                    return;
                }
                self.ev("pragma:live");
                match lex(rest).as_deref() {
                    Ok([Tok::Id(x)]) if x == "once" => {
                        let current = self.file_stack.last().cloned().unwrap_or_default();
                        self.once.insert(current);
                    }
                    _ => self.set_noref("pragma other than once".into()),
                }
            }
            "" => {
                // null directive (6.10.7)
                if !lex(rest).map(|t| t.is_empty()).unwrap_or(false) && active {
                    self.set_noref("non-directive".into());
                }
            }
            _ => {
                if active {
                    self.set_noref(format!("directive #{} is outside the model", name));
                } else {
                    self.ev("other_directive:skipped");
                }
            }
        }
    }

    fn define(&mut self, rest: &str) {
        let rest = rest.trim_start_matches([' ', '\t']);
        let name_len = rest.bytes().take_while(|c| c.is_ascii_alphanumeric() || *c == b'_').count();
        if name_len == 0 || rest.as_bytes()[0].is_ascii_digit() {
            self.set_noref("malformed #define".into());
            return;
        }
        let (name, tail) = rest.split_at(name_len);
        if name == "defined" {
            self.set_noref("#define defined".into());
            return;
        }
        // function-like only when ( follows the name immediately (6.10.3p10)
        let (params, body_text) = if let Some(t) = tail.strip_prefix('(') {
            let Some(close) = t.find(')') else {
                self.set_noref("malformed #define parameter list".into());
                return;
            };
            let mut params = Vec::new();
            let list = &t[..close];
            if !list.trim().is_empty() {
                for p in list.split(',') {
                    let p = p.trim();
                    if p.is_empty() || !p.bytes().all(|c| c.is_ascii_alphanumeric() || c == b'_') || params.iter().any(|q: &String| q == p) {
                        self.set_noref("malformed #define parameter list".into());
                        return;
                    }
                    params.push(p.to_string());
                }
            }
            (Some(params), &t[close + 1..])
        } else {
            (None, tail)
        };
        let body = match lex(body_text) {
            Ok(b) => b,
            Err(e) => {
                self.set_noref(format!("#define body does not lex: {}", e));
                return;
            }
        };
        if body.iter().any(|t| matches!(t, Tok::Punct("#"))) {
            self.set_noref("# or ## in a macro body".into());
            return;
        }
        let m = Macro { params, body };
        if let Some(old) = self.macros.get(name) {
            if *old != m {
                // 6.10.3p2: constraint violation
                self.set_noref(format!("incompatible redefinition of {}", name));
            }
        }
        self.macros.insert(name.to_string(), m);
    }

    fn include(&mut self, name: &str) {
        if self.file_stack.len() > 12 {
            self.set_noref("include nesting too deep for the model".into());
            return;
        }
        let Some((_, contents)) = self.files.iter().find(|f| f.0 == name) else {
            self.set_noref(format!("live #include of missing file {}", name));
            return;
        };
        if self.once.contains(name) {
            self.ev("include:suppressed_by_pragma_once");
            return;
        }
        self.file_stack.push(name.to_string());
        let depth = self.stack.len();
        for line in split_lines(contents) {
            self.feed_line(line);
        }
        if self.stack.len() != depth {
            // 6.10.1: an if-section is part of one preprocessing file
            self.set_noref("conditional chain spans files".into());
        }
        self.file_stack.pop();
    }

    /// End of the entry file
    pub fn finish(mut self) -> Expected {
        if !self.stack.is_empty() {
            self.ev("unterminated");
            self.set_reject(format!("{} unterminated #if", self.stack.len()));
        }
        if let Some(r) = self.reject {
            return Expected::Reject(r);
        }
        if let Some(n) = self.noref {
            return Expected::NoRef(n);
        }
        Expected::Tokens(self.out)
    }

    /// Like finish, but hands back the counters as well
    pub fn finish_with_events(mut self) -> (Expected, Events, CondStats, usize) {
        if !self.stack.is_empty() {
            self.ev("unterminated");
            let n = self.stack.len();
            self.set_reject(format!("{} unterminated #if", n));
        }
        let events = std::mem::take(&mut self.events);
        let cond = std::mem::take(&mut self.cond);
        let nesting = self.max_nesting;
        let e = if let Some(r) = self.reject {
            Expected::Reject(r)
        } else if let Some(n) = self.noref {
            Expected::NoRef(n)
        } else {
            Expected::Tokens(self.out)
        };
        (e, events, cond, nesting)
    }
}

/// Physical lines; \n and \r\n both end a line; the sub-language has no line splicing
pub fn split_lines(text: &str) -> impl Iterator<Item = &str> {
    text.split('\n').map(|l| l.strip_suffix('\r').unwrap_or(l))
}

pub struct RunResult {
    pub expected: Expected,
    pub events: Events,
    pub cond: CondStats,
    pub max_nesting: usize,
    /// diagnosis: an #elif C does not evaluate has a condition that has no value
    pub unevaluated_elif_malformed: Option<String>,
}

/// Reference result for a complete input
pub fn run(files: &[(String, String)], entry: &str, defines: &[(String, String)]) -> RunResult {
    let mut pp = RefPP::new(files, entry, defines);
    pp.eager_elif = true;
    let Some((_, text)) = files.iter().find(|f| f.0 == entry) else {
        return RunResult {
            expected: Expected::NoRef("entry file missing".into()),
            events: Events::new(),
            cond: CondStats::default(),
            max_nesting: 0,
            unevaluated_elif_malformed: None,
        };
    };
    for line in split_lines(text) {
        pp.feed_line(line);
    }
    let diag = pp.eager_elif_malformed.clone();
    let (expected, events, cond, max_nesting) = pp.finish_with_events();
    RunResult {
        expected,
        events,
        cond,
        max_nesting,
        unevaluated_elif_malformed: diag,
    }
}

/// Value of a single condition text under a macro table (used by the oracle self check and the generator)
pub fn eval_text(text: &str, macros: &Macros) -> Result<u64, NoRef> {
    let toks = lex(text)?;
    let mut stats = CondStats::default();
    eval_condition(&toks, macros, &mut stats)
}
