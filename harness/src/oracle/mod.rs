pub mod diffexec;
pub mod irexec;
pub mod sample;
pub mod val;
