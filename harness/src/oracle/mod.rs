pub mod c11_refpp;
pub mod cexec;
pub mod diffexec;
pub mod irck;
pub mod irexec;
pub mod sample;
pub mod val;
