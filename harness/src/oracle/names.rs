//! Reserved words and built-in names of the two target languages, written for the oracle from the
//! language references (HLSL "Keywords" / "Reserved Words" / intrinsic function list; C++14 keywords
//! and the Metal Shading Language specification §2 data types and §5 qualifiers) — not copied from
//! rssl's own tables. Kept to names that are unquestionably reserved or built in, so that a hit is a
//! genuine hygiene problem.

pub const CXX_KEYWORDS: &[&str] = &[
    "alignas", "alignof", "and", "and_eq", "asm", "auto", "bitand", "bitor", "bool", "break", "case", "catch", "char", "char16_t", "char32_t", "class",
    "compl", "const", "const_cast", "constexpr", "continue", "decltype", "default", "delete", "do", "double", "dynamic_cast", "else", "enum", "explicit",
    "export", "extern", "false", "float", "for", "friend", "goto", "if", "inline", "int", "long", "mutable", "namespace", "new", "noexcept", "not", "not_eq",
    "nullptr", "operator", "or", "or_eq", "private", "protected", "public", "register", "reinterpret_cast", "return", "short", "signed", "sizeof", "static",
    "static_assert", "static_cast", "struct", "switch", "template", "this", "thread_local", "throw", "true", "try", "typedef", "typeid", "typename", "union",
    "unsigned", "using", "virtual", "void", "volatile", "wchar_t", "while", "xor", "xor_eq",
];

/// HLSL keywords beyond the C++ ones (Microsoft "Keywords" appendix), without the contextual ones
/// (sample, point, line, triangle, linear, centroid ... are usable as identifiers in DXC)
pub const HLSL_KEYWORDS: &[&str] = &[
    "cbuffer", "tbuffer", "groupshared", "in", "out", "inout", "uniform", "precise", "nointerpolation", "noperspective", "row_major", "column_major", "snorm",
    "unorm", "discard", "packoffset", "dword", "half", "uint", "vector", "matrix", "min16float", "min10float", "min16int", "min12int", "min16uint", "string",
    "interface", "shared", "technique", "pass", "compile", "stateblock",
];

pub const HLSL_SCALARS: &[&str] = &["bool", "int", "uint", "dword", "half", "float", "double", "min16float", "min16int", "min16uint", "float16_t", "int16_t", "uint16_t", "int32_t", "uint32_t", "int64_t", "uint64_t", "float32_t", "float64_t"];

pub const HLSL_OBJECTS: &[&str] = &[
    "Buffer",
    "RWBuffer",
    "ByteAddressBuffer",
    "RWByteAddressBuffer",
    "StructuredBuffer",
    "RWStructuredBuffer",
    "AppendStructuredBuffer",
    "ConsumeStructuredBuffer",
    "Texture1D",
    "Texture1DArray",
    "Texture2D",
    "Texture2DArray",
    "Texture2DMS",
    "Texture3D",
    "TextureCube",
    "TextureCubeArray",
    "RWTexture1D",
    "RWTexture2D",
    "RWTexture2DArray",
    "RWTexture3D",
    "ConstantBuffer",
    "SamplerState",
    "SamplerComparisonState",
    "RaytracingAccelerationStructure",
    "RayDesc",
    "RayQuery",
    "TriangleStream",
    "LineStream",
    "PointStream",
    "InputPatch",
    "OutputPatch",
];

pub const HLSL_INTRINSICS: &[&str] = &[
    "abs", "acos", "all", "any", "asdouble", "asfloat", "asin", "asint", "asuint", "atan", "atan2", "ceil", "clamp", "clip", "cos", "cosh", "countbits", "cross",
    "ddx", "ddy", "degrees", "determinant", "distance", "dot", "exp", "exp2", "f16tof32", "f32tof16", "faceforward", "firstbithigh", "firstbitlow", "floor", "fma",
    "fmod", "frac", "frexp", "fwidth", "isfinite", "isinf", "isnan", "ldexp", "length", "lerp", "lit", "log", "log10", "log2", "mad", "max", "min", "modf", "mul",
    "normalize", "pow", "radians", "rcp", "reflect", "refract", "reversebits", "round", "rsqrt", "saturate", "sign", "sin", "sincos", "sinh", "smoothstep", "sqrt",
    "step", "tan", "tanh", "transpose", "trunc", "select",
];

/// Metal Shading Language: function/address-space qualifiers and other keywords beyond C++14
pub const MSL_KEYWORDS: &[&str] = &[
    "kernel", "vertex", "fragment", "device", "constant", "thread", "threadgroup", "threadgroup_imageblock", "ray_data", "object_data", "visible", "stitchable",
    "intersection", "mesh", "object",
];

pub const MSL_SCALARS: &[&str] = &["bool", "char", "uchar", "short", "ushort", "int", "uint", "long", "ulong", "half", "float", "bfloat", "size_t", "ptrdiff_t", "void"];

fn numeric_suffix_forms(out: &mut Vec<String>, scalars: &[&str], matrices: bool) {
    for s in scalars {
        for n in 1..=4 {
            out.push(format!("{}{}", s, n));
            if matrices {
                for m in 1..=4 {
                    out.push(format!("{}{}x{}", s, n, m));
                }
            }
        }
    }
}

/// Names that must never be used for a declaration in emitted HLSL
pub fn hlsl_reserved() -> Vec<String> {
    let mut out: Vec<String> = Vec::new();
    for list in [CXX_KEYWORDS, HLSL_KEYWORDS, HLSL_SCALARS, HLSL_OBJECTS, HLSL_INTRINSICS] {
        out.extend(list.iter().map(|s| s.to_string()));
    }
    numeric_suffix_forms(&mut out, &["bool", "int", "uint", "half", "float", "double", "min16float", "float16_t", "uint16_t", "int16_t", "uint64_t", "int64_t"], true);
    out.sort();
    out.dedup();
    out
}

/// Names that must never be used for a declaration in emitted Metal
pub fn msl_reserved() -> Vec<String> {
    let mut out: Vec<String> = Vec::new();
    for list in [CXX_KEYWORDS, MSL_KEYWORDS, MSL_SCALARS] {
        out.extend(list.iter().map(|s| s.to_string()));
    }
    numeric_suffix_forms(&mut out, &["bool", "char", "uchar", "short", "ushort", "int", "uint", "long", "ulong", "half", "float"], false);
    for s in ["half", "float"] {
        for n in 2..=4 {
            for m in 2..=4 {
                out.push(format!("{}{}x{}", s, n, m));
            }
        }
    }
    for s in ["char", "uchar", "short", "ushort", "int", "uint", "half", "float"] {
        for n in 2..=4 {
            out.push(format!("packed_{}{}", s, n));
        }
    }
    out.push("main".to_string());
    out.push("as_type".to_string());
    out.sort();
    out.dedup();
    out
}

/// Class of a reserved / built-in name (signatures of hygiene findings are keyed on the class, not on each of the
/// several hundred vector / matrix spellings)
pub fn name_class(name: &str, msl: bool) -> &'static str {
    if CXX_KEYWORDS.contains(&name) {
        return "cxx-keyword";
    }
    if msl {
        if MSL_KEYWORDS.contains(&name) {
            return "msl-keyword";
        }
        if MSL_SCALARS.contains(&name) {
            return "scalar-type-name";
        }
        if name == "main" || name == "as_type" {
            return "special-name";
        }
        return "vector-or-matrix-type-name";
    }
    if HLSL_KEYWORDS.contains(&name) {
        return "hlsl-keyword";
    }
    if HLSL_SCALARS.contains(&name) {
        return "scalar-type-name";
    }
    if HLSL_OBJECTS.contains(&name) {
        return "object-type-name";
    }
    if HLSL_INTRINSICS.contains(&name) {
        return "intrinsic-name";
    }
    "vector-or-matrix-type-name"
}
