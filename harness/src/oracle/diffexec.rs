//! Executing one function of an IR module on one argument vector and collecting everything observable:
//! return value, out/inout parameters, final values of static globals (by name).

use super::irexec::Exec;
use super::val::*;
use rssl::ir;
use std::collections::BTreeMap;

#[derive(Clone, Debug)]
pub struct Observed {
    pub ret: Value,
    pub outs: Vec<(usize, Value)>,
    pub globals: BTreeMap<String, Value>,
}

impl Observed {
    /// First difference between two observations, if any
    pub fn diff(&self, other: &Observed) -> Option<String> {
        if !self.ret.same(&other.ret) {
            return Some(format!("return value {} vs {}", self.ret, other.ret));
        }
        if self.outs.len() != other.outs.len() {
            return Some("different number of out parameters".into());
        }
        for ((i, a), (_, b)) in self.outs.iter().zip(&other.outs) {
            if !a.same(b) {
                return Some(format!("out/inout parameter #{}: {} vs {}", i, a, b));
            }
        }
        for (name, a) in &self.globals {
            if let Some(b) = other.globals.get(name) {
                if !a.same(b) {
                    return Some(format!("static global {}: {} vs {}", name, a, b));
                }
            }
        }
        None
    }

    pub fn describe(&self) -> String {
        let mut s = format!("ret={}", self.ret);
        for (i, v) in &self.outs {
            s.push_str(&format!(" out#{}={}", i, v));
        }
        for (n, v) in &self.globals {
            s.push_str(&format!(" {}={}", n, v));
        }
        s
    }
}

/// Functions that can be called by name: implemented, not a template (instance), name unique among implemented functions,
/// not a struct method.
pub fn callable_functions(m: &ir::Module) -> Vec<(String, ir::FunctionId)> {
    let mut methods: Vec<ir::FunctionId> = Vec::new();
    for s in &m.struct_registry {
        methods.extend(s.methods.iter().cloned());
    }
    let mut out: Vec<(String, ir::FunctionId)> = Vec::new();
    let mut seen: BTreeMap<String, u32> = BTreeMap::new();
    for id in m.function_registry.iter() {
        if m.function_registry.get_function_implementation(id).is_none() {
            continue;
        }
        let name = m.function_registry.get_function_name(id).to_string();
        *seen.entry(name.clone()).or_insert(0) += 1;
        if methods.contains(&id) {
            continue;
        }
        let sig = m.function_registry.get_function_signature(id);
        if !sig.template_params.is_empty() || m.function_registry.get_template_instantiation_data(id).is_some() {
            continue;
        }
        if m.function_registry.get_function_name_definition(id).namespace.is_some() {
            continue;
        }
        out.push((name, id));
    }
    out.retain(|(n, _)| seen.get(n) == Some(&1));
    out
}

pub fn static_global_names(m: &ir::Module) -> Vec<(u32, String)> {
    let mut out = Vec::new();
    for (i, g) in m.global_registry.iter().enumerate() {
        if g.is_intrinsic || g.namespace.is_some() {
            continue;
        }
        if matches!(g.storage_class, ir::GlobalStorage::Static | ir::GlobalStorage::GroupShared) {
            out.push((i as u32, g.name.node.clone()));
        }
    }
    out
}

/// Run function `id` of module `m` on `args` (one value per parameter; values for `out` parameters are ignored)
pub fn run(m: &ir::Module, id: ir::FunctionId, args: &[Value], rtl: bool, max_steps: u64) -> R<Observed> {
    let mut exec = Exec::new(m)?;
    exec.rtl = rtl;
    exec.max_steps = max_steps;
    let r = exec.call_function(id, args)?;
    let mut globals = BTreeMap::new();
    for (gid, name) in static_global_names(m) {
        if let Some(v) = exec.globals.get(&gid) {
            globals.insert(name, v.clone());
        }
    }
    Ok(Observed {
        ret: r.ret,
        outs: r.outs,
        globals,
    })
}

/// Ground truth for one sample: evaluated left-to-right and right-to-left; only samples that are defined and
/// independent of the order of evaluation are used.
pub enum Truth {
    Defined(Observed),
    Skipped(String),
}

pub fn ground_truth(m: &ir::Module, id: ir::FunctionId, args: &[Value]) -> Truth {
    let ltr = match run(m, id, args, false, 200_000) {
        Ok(o) => o,
        Err(t) => return Truth::Skipped(trap_class(&t)),
    };
    let rtl = match run(m, id, args, true, 200_000) {
        Ok(o) => o,
        Err(t) => return Truth::Skipped(format!("rtl:{}", trap_class(&t))),
    };
    if ltr.diff(&rtl).is_some() {
        return Truth::Skipped("order-dependent".into());
    }
    if ltr.ret.has_undef() || ltr.outs.iter().any(|(_, v)| v.has_undef()) {
        return Truth::Skipped("undefined-result".into());
    }
    Truth::Defined(ltr)
}

pub fn trap_class(t: &Trap) -> String {
    match t {
        Trap::DivZero => "trap:div-zero".into(),
        Trap::IntOverflowDiv => "trap:int-min-div".into(),
        Trap::FloatToIntRange => "trap:float-to-int-range".into(),
        Trap::OutOfBounds => "trap:out-of-bounds".into(),
        Trap::Uninit => "trap:uninitialised".into(),
        Trap::Depth => "trap:depth".into(),
        Trap::Steps => "trap:steps".into(),
        Trap::Unspecified(w) => format!("trap:unspecified:{}", w.split(' ').take(4).collect::<Vec<_>>().join(" ")),
        Trap::Unsupported(w) => format!("unsupported:{}", w.split(' ').take(3).collect::<Vec<_>>().join(" ")),
        Trap::IllTyped(w) => {
            if std::env::var("VERIF_DEBUG").is_ok() {
                eprintln!("=== ill-typed: {}", w);
            }
            "ill-typed".into()
        }
    }
}

// ------------------------------------------------------------------------------------------------
// syntax trees (emitted HLSL read back by the parser, or the MSL tree from the exporter hook)
// ------------------------------------------------------------------------------------------------

use super::cexec::{CExec, CTy, Dialect};

/// Initial values of the static/groupshared globals of a module, by name (what an entry point wrapper would set up)
pub fn initial_globals(m: &ir::Module) -> R<BTreeMap<String, Value>> {
    let exec = Exec::new(m)?;
    let mut out = BTreeMap::new();
    for (gid, name) in static_global_names(m) {
        if let Some(v) = exec.globals.get(&gid) {
            out.insert(name, v.clone());
        }
    }
    Ok(out)
}

/// Execute function `name` of a syntax tree. `args` are the source function's arguments; parameters beyond them are the
/// globals the Metal exporter threads through as references: they are bound to storage initialised from `globals`.
pub fn run_tree(tree: &rssl::ast::Module, dialect: Dialect, name: &str, args: &[Value], globals: &BTreeMap<String, Value>) -> R<Observed> {
    let mut exec = CExec::new(tree, dialect)?;
    let candidates: Vec<usize> = exec.plain_free_functions().into_iter().filter(|(n, _)| n == name).map(|(_, i)| i).collect();
    // with out/inout parameters Metal has two functions of that name: callers use the one without the tag parameter
    let candidates: Vec<usize> = candidates.into_iter().filter(|f| !exec.has_trampoline_tag(*f)).collect();
    let f = match candidates.as_slice() {
        [f] => *f,
        [] => return Err(Trap::Unsupported("function not found by name in the tree".into())),
        _ => return Err(Trap::Unsupported("several functions of that name".into())),
    };
    let info = exec.param_info(f);
    if info.len() < args.len() {
        return Err(Trap::IllTyped(format!("emitted function {} takes {} parameters, the source function {}", name, info.len(), args.len())));
    }
    let mut all_args: Vec<Value> = args.to_vec();
    let mut extra_names = Vec::new();
    for (pname, is_ref, _) in &info[args.len()..] {
        let Some(pname) = pname else { return Err(Trap::Unsupported("unnamed extra parameter".into())) };
        if !is_ref {
            return Err(Trap::IllTyped(format!("extra parameter {} of {} is not passed by reference", pname, name)));
        }
        let Some(v) = globals.get(pname) else { return Err(Trap::Unsupported(format!("extra parameter {} is not a known global", pname))) };
        all_args.push(v.clone());
        extra_names.push(pname.clone());
    }
    let r = exec.call_function(f, &all_args)?;
    let mut outs = Vec::new();
    let mut gl = BTreeMap::new();
    for (i, v) in r.outs {
        if i < args.len() {
            outs.push((i, v));
        } else {
            gl.insert(extra_names[i - args.len()].clone(), v);
        }
    }
    if dialect == Dialect::Hlsl {
        for n in exec.global_names() {
            if let Some(v) = exec.global_value(&n) {
                gl.insert(n, v);
            }
        }
    }
    Ok(Observed { ret: r.ret, outs, globals: gl })
}
