//! Declared names of a syntax tree with the scope that declares them (for the hygiene monitors of C15).

use rssl::ast;

#[derive(Clone, Debug, PartialEq)]
pub struct Decl {
    pub name: String,
    /// struct / enum / enum-value / global / function / parameter / local / member / method / namespace / cbuffer / cbuffer-member
    pub kind: &'static str,
    /// scope path, e.g. "::Ns::" or "::fn3()" or "::fn3()/block2"
    pub scope: String,
}

fn declarator_name(d: &ast::Declarator) -> Option<String> {
    match d {
        ast::Declarator::Empty => None,
        ast::Declarator::Identifier(id, _) => Some(id.identifiers.last().unwrap().node.clone()),
        ast::Declarator::Pointer(p) => declarator_name(&p.inner),
        ast::Declarator::Reference(r) => declarator_name(&r.inner),
        ast::Declarator::Array(a) => declarator_name(&a.inner),
    }
}

struct Walker {
    out: Vec<Decl>,
    block_counter: usize,
}

impl Walker {
    fn push(&mut self, name: String, kind: &'static str, scope: &str) {
        self.out.push(Decl {
            name,
            kind,
            scope: scope.to_string(),
        });
    }

    fn statements(&mut self, list: &[ast::Statement], scope: &str) {
        for s in list {
            self.statement(s, scope);
        }
    }

    fn vardef(&mut self, def: &ast::VarDef, scope: &str) {
        for d in &def.defs {
            if let Some(n) = declarator_name(&d.declarator) {
                self.push(n, "local", scope);
            }
        }
    }

    fn block(&mut self, body: &ast::Statement, scope: &str) {
        self.block_counter += 1;
        let inner = format!("{}/b{}", scope, self.block_counter);
        match &body.kind {
            ast::StatementKind::Block(list) => self.statements(list, &inner),
            _ => self.statement(body, &inner),
        }
    }

    fn statement(&mut self, s: &ast::Statement, scope: &str) {
        match &s.kind {
            ast::StatementKind::Var(def) | ast::StatementKind::AmbiguousDeclarationOrExpression(def, _) => self.vardef(def, scope),
            ast::StatementKind::Block(list) => {
                self.block_counter += 1;
                let inner = format!("{}/b{}", scope, self.block_counter);
                self.statements(list, &inner);
            }
            ast::StatementKind::If(_, b) | ast::StatementKind::While(_, b) | ast::StatementKind::DoWhile(b, _) | ast::StatementKind::Switch(_, b) => self.block(b, scope),
            ast::StatementKind::IfElse(_, a, b) => {
                self.block(a, scope);
                self.block(b, scope);
            }
            ast::StatementKind::For(init, _, _, body) => {
                self.block_counter += 1;
                let inner = format!("{}/for{}", scope, self.block_counter);
                if let ast::InitStatement::Declaration(def) = init {
                    self.vardef(def, &inner);
                }
                self.block(body, &inner);
            }
            ast::StatementKind::CaseLabel(_, next) | ast::StatementKind::DefaultLabel(next) => self.statement(next, scope),
            _ => {}
        }
    }

    fn function(&mut self, f: &ast::FunctionDefinition, scope: &str, kind: &'static str) {
        self.push(f.name.node.clone(), kind, scope);
        self.block_counter += 1;
        let inner = format!("{}{}()#{}", scope, f.name.node, self.block_counter);
        // named template parameters live in the scope of the function as well
        for tp in &f.template_params.0 {
            let name = match tp {
                ast::TemplateParam::Type(t) => t.name.as_ref().map(|n| n.node.clone()),
                ast::TemplateParam::Value(v) => v.name.as_ref().map(|n| n.node.clone()),
            };
            if let Some(n) = name {
                self.push(n, "template-parameter", &inner);
            }
        }
        for p in &f.params {
            if let Some(n) = declarator_name(&p.declarator) {
                self.push(n, "parameter", &inner);
            }
        }
        if let Some(body) = &f.body {
            // the outermost block of a function shares the parameter scope (a local may not redeclare a parameter)
            self.statements(body, &inner);
        }
    }

    fn roots(&mut self, defs: &[ast::RootDefinition], scope: &str) {
        for d in defs {
            match d {
                ast::RootDefinition::Struct(s) => {
                    self.push(s.name.node.clone(), "struct", scope);
                    let inner = format!("{}{}::", scope, s.name.node);
                    for m in &s.members {
                        match m {
                            ast::StructEntry::Variable(v) => {
                                for def in &v.defs {
                                    if let Some(n) = declarator_name(&def.declarator) {
                                        self.push(n, "member", &inner);
                                    }
                                }
                            }
                            ast::StructEntry::Method(f) => self.function(f, &inner, "method"),
                        }
                    }
                }
                ast::RootDefinition::Enum(e) => {
                    self.push(e.name.node.clone(), "enum", scope);
                    // unscoped enumerators are visible in the enclosing scope
                    for v in &e.values {
                        self.push(v.name.node.clone(), "enum-value", scope);
                    }
                }
                ast::RootDefinition::Typedef(t) => {
                    if let Some(n) = declarator_name(&t.declarator) {
                        self.push(n, "typedef", scope);
                    }
                }
                ast::RootDefinition::ConstantBuffer(cb) => {
                    self.push(cb.name.node.clone(), "cbuffer", scope);
                    for m in &cb.members {
                        for def in &m.defs {
                            if let Some(n) = declarator_name(&def.declarator) {
                                self.push(n, "cbuffer-member", scope);
                            }
                        }
                    }
                }
                ast::RootDefinition::GlobalVariable(g) => {
                    for def in &g.defs {
                        if let Some(n) = declarator_name(&def.declarator) {
                            self.push(n, "global", scope);
                        }
                    }
                }
                ast::RootDefinition::Function(f) => self.function(f, scope, "function"),
                ast::RootDefinition::Namespace(name, inner) => {
                    self.push(name.node.clone(), "namespace", scope);
                    let s2 = format!("{}{}::", scope, name.node);
                    self.roots(inner, &s2);
                }
                ast::RootDefinition::Pipeline(_) => {}
            }
        }
    }
}

pub fn declared_names(m: &ast::Module) -> Vec<Decl> {
    let mut w = Walker {
        out: Vec::new(),
        block_counter: 0,
    };
    w.roots(&m.root_definitions, "::");
    w.out
}

/// Pairs of declarations of different entities sharing a name in one scope.
/// Functions may share a name with functions (overloads) and namespaces may be reopened.
pub fn clashes(decls: &[Decl]) -> Vec<(Decl, Decl)> {
    let mut out = Vec::new();
    for (i, a) in decls.iter().enumerate() {
        for b in &decls[i + 1..] {
            if a.name == b.name && a.scope == b.scope {
                let both_functions = (a.kind == "function" || a.kind == "method") && (b.kind == "function" || b.kind == "method");
                let both_namespaces = a.kind == "namespace" && b.kind == "namespace";
                if !both_functions && !both_namespaces {
                    out.push((a.clone(), b.clone()));
                }
            }
        }
    }
    out
}

// ------------------------------------------------------------------------------------------------
// Calls whose callee exists somewhere in the tree but is not visible from the call site
// ------------------------------------------------------------------------------------------------

fn collect_functions(defs: &[ast::RootDefinition], ns: &str, free: &mut Vec<String>, methods: &mut Vec<(String, String)>) {
    for d in defs {
        match d {
            ast::RootDefinition::Function(f) => free.push(format!("{}{}", ns, f.name.node)),
            ast::RootDefinition::Struct(s) => {
                for m in &s.members {
                    if let ast::StructEntry::Method(f) = m {
                        methods.push((format!("{}{}", ns, s.name.node), f.name.node.clone()));
                    }
                }
            }
            ast::RootDefinition::Namespace(name, inner) => collect_functions(inner, &format!("{}{}::", ns, name.node), free, methods),
            _ => {}
        }
    }
}

fn walk_expr_calls(e: &ast::Expression, f: &mut dyn FnMut(&ast::ScopedIdentifier)) {
    use ast::Expression as E;
    match e {
        E::Literal(_) | E::Identifier(_) | E::SizeOf(_) => {}
        E::UnaryOperation(_, a) | E::Cast(_, a) | E::Member(a, _) => walk_expr_calls(&a.node, f),
        E::BinaryOperation(_, a, b) | E::ArraySubscript(a, b) => {
            walk_expr_calls(&a.node, f);
            walk_expr_calls(&b.node, f);
        }
        E::TernaryConditional(a, b, c) => {
            walk_expr_calls(&a.node, f);
            walk_expr_calls(&b.node, f);
            walk_expr_calls(&c.node, f);
        }
        E::Call(callee, _, args) => {
            match &callee.node {
                E::Identifier(id) => f(id),
                other => walk_expr_calls(other, f),
            }
            for a in args {
                walk_expr_calls(&a.node, f);
            }
        }
        E::BracedInit(_, inits) => inits.iter().for_each(|i| walk_init_calls(i, f)),
        E::AmbiguousParseBranch(branches) => {
            if let Some(b) = branches.first() {
                walk_expr_calls(&b.expr.node, f);
            }
        }
    }
}

fn walk_init_calls(i: &ast::Initializer, f: &mut dyn FnMut(&ast::ScopedIdentifier)) {
    match i {
        ast::Initializer::Expression(e) => walk_expr_calls(&e.node, f),
        ast::Initializer::Aggregate(v) => v.iter().for_each(|x| walk_init_calls(x, f)),
        ast::Initializer::StaticSampler(_) => {}
    }
}

fn walk_stmt_calls(s: &ast::Statement, f: &mut dyn FnMut(&ast::ScopedIdentifier)) {
    use ast::StatementKind as K;
    let vardef = |d: &ast::VarDef, f: &mut dyn FnMut(&ast::ScopedIdentifier)| {
        for def in &d.defs {
            if let Some(i) = &def.init {
                walk_init_calls(i, f);
            }
        }
    };
    match &s.kind {
        K::Empty | K::Break | K::Continue | K::Discard => {}
        K::Expression(e) => walk_expr_calls(e, f),
        K::Var(d) => vardef(d, f),
        K::AmbiguousDeclarationOrExpression(d, _) => vardef(d, f),
        K::Block(v) => v.iter().for_each(|x| walk_stmt_calls(x, f)),
        K::If(c, b) | K::While(c, b) | K::Switch(c, b) => {
            walk_expr_calls(&c.node, f);
            walk_stmt_calls(b, f);
        }
        K::DoWhile(b, c) => {
            walk_stmt_calls(b, f);
            walk_expr_calls(&c.node, f);
        }
        K::IfElse(c, a, b) => {
            walk_expr_calls(&c.node, f);
            walk_stmt_calls(a, f);
            walk_stmt_calls(b, f);
        }
        K::For(init, c, inc, body) => {
            match init {
                ast::InitStatement::Empty => {}
                ast::InitStatement::Expression(e) => walk_expr_calls(&e.node, f),
                ast::InitStatement::Declaration(d) => vardef(d, f),
            }
            if let Some(c) = c {
                walk_expr_calls(&c.node, f);
            }
            if let Some(i) = inc {
                walk_expr_calls(&i.node, f);
            }
            walk_stmt_calls(body, f);
        }
        K::Return(e) => {
            if let Some(e) = e {
                walk_expr_calls(&e.node, f);
            }
        }
        K::CaseLabel(e, next) => {
            walk_expr_calls(&e.node, f);
            walk_stmt_calls(next, f);
        }
        K::DefaultLabel(next) => walk_stmt_calls(next, f),
    }
}

/// (callee as written, function that contains the call): calls to a free function that is declared somewhere in the tree under
/// that leaf name, but which C++ / HLSL name lookup from the calling function's namespace does not find.
pub fn invisible_calls(m: &ast::Module) -> Vec<(String, String)> {
    let mut free = Vec::new();
    let mut methods = Vec::new();
    collect_functions(&m.root_definitions, "", &mut free, &mut methods);
    let leafs: std::collections::HashSet<String> = free.iter().map(|q| q.rsplit("::").next().unwrap_or(q).to_string()).collect();
    let mut out = Vec::new();
    fn visit(defs: &[ast::RootDefinition], ns: &str, free: &[String], methods: &[(String, String)], leafs: &std::collections::HashSet<String>, out: &mut Vec<(String, String)>) {
        for d in defs {
            let mut check = |f: &ast::FunctionDefinition, owner: Option<String>| {
                let Some(body) = &f.body else { return };
                let caller = format!("{}{}", ns, f.name.node);
                let mut on_call = |id: &ast::ScopedIdentifier| {
                    let written: Vec<&str> = id.identifiers.iter().map(|i| i.node.as_str()).collect();
                    let leaf = *written.last().unwrap_or(&"");
                    if !leafs.contains(leaf) {
                        return;
                    }
                    // a sibling method of the same struct
                    if written.len() == 1 {
                        if let Some(o) = &owner {
                            if methods.iter().any(|(s, m)| s == o && m == leaf) {
                                return;
                            }
                        }
                    }
                    // qualified through something the tree does not declare (metal::, vk:: ...): a library function
                    if written.len() > 1 && !free.iter().any(|q| q.split("::").any(|c| c == written[0])) && !methods.iter().any(|(s, _)| s.split("::").any(|c| c == written[0])) {
                        return;
                    }
                    let path = written.join("::");
                    if id.base == ast::ScopedIdentifierBase::Absolute {
                        if !free.iter().any(|q| *q == path) {
                            out.push((format!("::{}", path), caller.clone()));
                        }
                        return;
                    }
                    let mut prefix = ns.to_string();
                    loop {
                        let candidate = format!("{}{}", prefix, path);
                        if free.iter().any(|q| *q == candidate) {
                            return;
                        }
                        if prefix.is_empty() {
                            break;
                        }
                        let trimmed = prefix.trim_end_matches("::");
                        prefix = match trimmed.rfind("::") {
                            Some(i) => trimmed[..i + 2].to_string(),
                            None => String::new(),
                        };
                    }
                    out.push((path, caller.clone()));
                };
                for s in body {
                    walk_stmt_calls(s, &mut on_call);
                }
            };
            match d {
                ast::RootDefinition::Function(f) => check(f, None),
                ast::RootDefinition::Struct(s) => {
                    for mem in &s.members {
                        if let ast::StructEntry::Method(f) = mem {
                            check(f, Some(format!("{}{}", ns, s.name.node)));
                        }
                    }
                }
                ast::RootDefinition::Namespace(name, inner) => visit(inner, &format!("{}{}::", ns, name.node), free, methods, leafs, out),
                _ => {}
            }
        }
    }
    visit(&m.root_definitions, "", &free, &methods, &leafs, &mut out);
    out
}

fn expr_mentions(e: &ast::Expression, name: &str) -> bool {
    use ast::Expression as E;
    match e {
        E::Literal(_) | E::SizeOf(_) => false,
        E::Identifier(id) => id.identifiers.len() == 1 && id.identifiers[0].node == name,
        E::UnaryOperation(_, a) | E::Cast(_, a) | E::Member(a, _) => expr_mentions(&a.node, name),
        E::BinaryOperation(_, a, b) | E::ArraySubscript(a, b) => expr_mentions(&a.node, name) || expr_mentions(&b.node, name),
        E::TernaryConditional(a, b, c) => expr_mentions(&a.node, name) || expr_mentions(&b.node, name) || expr_mentions(&c.node, name),
        E::Call(callee, _, args) => (!matches!(callee.node, E::Identifier(_)) && expr_mentions(&callee.node, name)) || args.iter().any(|a| expr_mentions(&a.node, name)),
        E::BracedInit(_, inits) => inits.iter().any(|i| init_mentions(i, name)),
        E::AmbiguousParseBranch(branches) => branches.first().map(|b| expr_mentions(&b.expr.node, name)).unwrap_or(false),
    }
}

fn init_mentions(i: &ast::Initializer, name: &str) -> bool {
    match i {
        ast::Initializer::Expression(e) => expr_mentions(&e.node, name),
        ast::Initializer::Aggregate(v) => v.iter().any(|x| init_mentions(x, name)),
        ast::Initializer::StaticSampler(_) => false,
    }
}

fn stmt_self_named(s: &ast::Statement, out: &mut Vec<String>) {
    use ast::StatementKind as K;
    let vardef = |d: &ast::VarDef, out: &mut Vec<String>| {
        for def in &d.defs {
            if let (Some(i), Some(n)) = (&def.init, declarator_name(&def.declarator)) {
                if init_mentions(i, &n) {
                    out.push(n);
                }
            }
        }
    };
    match &s.kind {
        K::Empty | K::Break | K::Continue | K::Discard | K::Expression(_) | K::Return(_) => {}
        K::Var(d) | K::AmbiguousDeclarationOrExpression(d, _) => vardef(d, out),
        K::Block(v) => v.iter().for_each(|x| stmt_self_named(x, out)),
        K::If(_, b) | K::While(_, b) | K::Switch(_, b) | K::DoWhile(b, _) | K::CaseLabel(_, b) | K::DefaultLabel(b) => stmt_self_named(b, out),
        K::IfElse(_, a, b) => {
            stmt_self_named(a, out);
            stmt_self_named(b, out);
        }
        K::For(init, _, _, body) => {
            if let ast::InitStatement::Declaration(d) = init {
                vardef(d, out);
            }
            stmt_self_named(body, out);
        }
    }
}

/// Names of local variables whose initialiser mentions the variable's own name (`int x = x + 1;`): by the C++ point of
/// declaration rule that is the new variable itself, whatever the name denoted in front of the declaration.
pub fn self_named_initialisers(m: &ast::Module) -> Vec<String> {
    fn visit(defs: &[ast::RootDefinition], out: &mut Vec<String>) {
        for d in defs {
            match d {
                ast::RootDefinition::Function(f) => {
                    if let Some(body) = &f.body {
                        body.iter().for_each(|s| stmt_self_named(s, out));
                    }
                }
                ast::RootDefinition::Struct(sd) => {
                    for member in &sd.members {
                        if let ast::StructEntry::Method(f) = member {
                            if let Some(body) = &f.body {
                                body.iter().for_each(|s| stmt_self_named(s, out));
                            }
                        }
                    }
                }
                ast::RootDefinition::Namespace(_, inner) => visit(inner, out),
                _ => {}
            }
        }
    }
    let mut out = Vec::new();
    visit(&m.root_definitions, &mut out);
    out
}

fn each_subexpr(e: &ast::Expression, f: &mut dyn FnMut(&ast::Expression)) {
    use ast::Expression as E;
    f(e);
    match e {
        E::Literal(_) | E::SizeOf(_) | E::Identifier(_) => {}
        E::UnaryOperation(_, a) | E::Cast(_, a) | E::Member(a, _) => each_subexpr(&a.node, f),
        E::BinaryOperation(_, a, b) | E::ArraySubscript(a, b) => {
            each_subexpr(&a.node, f);
            each_subexpr(&b.node, f);
        }
        E::TernaryConditional(a, b, c) => {
            each_subexpr(&a.node, f);
            each_subexpr(&b.node, f);
            each_subexpr(&c.node, f);
        }
        E::Call(callee, _, args) => {
            each_subexpr(&callee.node, f);
            args.iter().for_each(|a| each_subexpr(&a.node, f));
        }
        E::BracedInit(_, inits) => inits.iter().for_each(|i| each_init_expr(i, f)),
        E::AmbiguousParseBranch(branches) => {
            if let Some(b) = branches.first() {
                each_subexpr(&b.expr.node, f);
            }
        }
    }
}

fn each_init_expr(i: &ast::Initializer, f: &mut dyn FnMut(&ast::Expression)) {
    match i {
        ast::Initializer::Expression(e) => each_subexpr(&e.node, f),
        ast::Initializer::Aggregate(v) => v.iter().for_each(|x| each_init_expr(x, f)),
        ast::Initializer::StaticSampler(_) => {}
    }
}

fn each_stmt_expr(s: &ast::Statement, f: &mut dyn FnMut(&ast::Expression)) {
    use ast::StatementKind as K;
    let vardef = |d: &ast::VarDef, f: &mut dyn FnMut(&ast::Expression)| {
        for def in &d.defs {
            if let Some(i) = &def.init {
                each_init_expr(i, f);
            }
        }
    };
    match &s.kind {
        K::Empty | K::Break | K::Continue | K::Discard => {}
        K::Expression(e) => each_subexpr(e, f),
        K::Var(d) => vardef(d, f),
        K::AmbiguousDeclarationOrExpression(d, e) => {
            vardef(d, f);
            each_subexpr(e, f);
        }
        K::Block(v) => v.iter().for_each(|x| each_stmt_expr(x, f)),
        K::If(c, b) | K::While(c, b) | K::Switch(c, b) => {
            each_subexpr(&c.node, f);
            each_stmt_expr(b, f);
        }
        K::DoWhile(b, c) => {
            each_stmt_expr(b, f);
            each_subexpr(&c.node, f);
        }
        K::IfElse(c, a, b) => {
            each_subexpr(&c.node, f);
            each_stmt_expr(a, f);
            each_stmt_expr(b, f);
        }
        K::For(init, c, inc, body) => {
            match init {
                ast::InitStatement::Empty => {}
                ast::InitStatement::Expression(e) => each_subexpr(&e.node, f),
                ast::InitStatement::Declaration(d) => vardef(d, f),
            }
            if let Some(c) = c {
                each_subexpr(&c.node, f);
            }
            if let Some(i) = inc {
                each_subexpr(&i.node, f);
            }
            each_stmt_expr(body, f);
        }
        K::Return(e) => {
            if let Some(e) = e {
                each_subexpr(&e.node, f);
            }
        }
        K::CaseLabel(e, next) => {
            each_subexpr(&e.node, f);
            each_stmt_expr(next, f);
        }
        K::DefaultLabel(next) => each_stmt_expr(next, f),
    }
}

fn lvalue_root(e: &ast::Expression) -> Option<&str> {
    match e {
        ast::Expression::Identifier(id) if id.identifiers.len() == 1 => Some(id.identifiers[0].node.as_str()),
        ast::Expression::ArraySubscript(a, _) | ast::Expression::Member(a, _) => lvalue_root(&a.node),
        _ => None,
    }
}

/// (function, parameter) for every parameter declared as a plain array (`int a[2]`, no reference) that the function body
/// assigns to, increments or decrements: in C++ / Metal such a parameter is a pointer to the caller's array.
pub fn written_array_parameters(m: &ast::Module) -> Vec<(String, String)> {
    fn is_plain_array(d: &ast::Declarator) -> bool {
        match d {
            ast::Declarator::Array(a) => matches!(*a.inner, ast::Declarator::Identifier(..)) || is_plain_array(&a.inner),
            _ => false,
        }
    }
    fn function(f: &ast::FunctionDefinition, out: &mut Vec<(String, String)>) {
        let Some(body) = &f.body else { return };
        for p in &f.params {
            if !is_plain_array(&p.declarator) {
                continue;
            }
            let Some(name) = declarator_name(&p.declarator) else { continue };
            let mut written = false;
            for s in body {
                each_stmt_expr(s, &mut |e| {
                    use ast::BinOp as B;
                    use ast::UnaryOp as U;
                    match e {
                        ast::Expression::BinaryOperation(
                            B::Assignment | B::SumAssignment | B::DifferenceAssignment | B::ProductAssignment | B::QuotientAssignment | B::RemainderAssignment | B::LeftShiftAssignment | B::RightShiftAssignment | B::BitwiseAndAssignment | B::BitwiseOrAssignment | B::BitwiseXorAssignment,
                            target,
                            _,
                        ) => written |= lvalue_root(&target.node) == Some(name.as_str()),
                        ast::Expression::UnaryOperation(U::PrefixIncrement | U::PrefixDecrement | U::PostfixIncrement | U::PostfixDecrement, target) => written |= lvalue_root(&target.node) == Some(name.as_str()),
                        _ => {}
                    }
                });
            }
            if written {
                out.push((f.name.node.clone(), name));
            }
        }
    }
    fn visit(defs: &[ast::RootDefinition], out: &mut Vec<(String, String)>) {
        for d in defs {
            match d {
                ast::RootDefinition::Function(f) => function(f, out),
                ast::RootDefinition::Struct(sd) => {
                    for member in &sd.members {
                        if let ast::StructEntry::Method(f) = member {
                            function(f, out);
                        }
                    }
                }
                ast::RootDefinition::Namespace(_, inner) => visit(inner, out),
                _ => {}
            }
        }
    }
    let mut out = Vec::new();
    visit(&m.root_definitions, &mut out);
    out
}

/// First segments of the qualified names (`a::b::c`) used in expressions, with the function that uses them
pub fn qualified_name_roots(m: &ast::Module) -> Vec<(String, String, String)> {
    fn function(f: &ast::FunctionDefinition, out: &mut Vec<(String, String, String)>) {
        let Some(body) = &f.body else { return };
        for s in body {
            each_stmt_expr(s, &mut |e| {
                if let ast::Expression::Identifier(id) = e {
                    if id.identifiers.len() >= 2 {
                        let full: Vec<&str> = id.identifiers.iter().map(|x| x.node.as_str()).collect();
                        out.push((id.identifiers[0].node.clone(), full.join("::"), f.name.node.clone()));
                    }
                }
            });
        }
    }
    fn visit(defs: &[ast::RootDefinition], out: &mut Vec<(String, String, String)>) {
        for d in defs {
            match d {
                ast::RootDefinition::Function(f) => function(f, out),
                ast::RootDefinition::Struct(sd) => {
                    for member in &sd.members {
                        if let ast::StructEntry::Method(f) = member {
                            function(f, out);
                        }
                    }
                }
                ast::RootDefinition::Namespace(_, inner) => visit(inner, out),
                _ => {}
            }
        }
    }
    let mut out = Vec::new();
    visit(&m.root_definitions, &mut out);
    out
}
