//! Declared names of a syntax tree with the scope that declares them (for the hygiene monitors of C15).

use rssl::ast;

#[derive(Clone, Debug, PartialEq)]
pub struct Decl {
    pub name: String,
    /// struct / enum / enum-value / global / function / parameter / local / member / method / namespace / cbuffer
    pub kind: &'static str,
    /// scope path, e.g. "::Ns::" or "::fn3()" or "::fn3()/block2"
    pub scope: String,
}

fn declarator_name(d: &ast::Declarator) -> Option<String> {
    match d {
        ast::Declarator::Empty => None,
        ast::Declarator::Identifier(id, _) => Some(id.identifiers.last().unwrap().node.clone()),
        ast::Declarator::Pointer(p) => declarator_name(&p.inner),
        ast::Declarator::Reference(r) => declarator_name(&r.inner),
        ast::Declarator::Array(a) => declarator_name(&a.inner),
    }
}

struct Walker {
    out: Vec<Decl>,
    block_counter: usize,
}

impl Walker {
    fn push(&mut self, name: String, kind: &'static str, scope: &str) {
        self.out.push(Decl {
            name,
            kind,
            scope: scope.to_string(),
        });
    }

    fn statements(&mut self, list: &[ast::Statement], scope: &str) {
        for s in list {
            self.statement(s, scope);
        }
    }

    fn vardef(&mut self, def: &ast::VarDef, scope: &str) {
        for d in &def.defs {
            if let Some(n) = declarator_name(&d.declarator) {
                self.push(n, "local", scope);
            }
        }
    }

    fn block(&mut self, body: &ast::Statement, scope: &str) {
        self.block_counter += 1;
        let inner = format!("{}/b{}", scope, self.block_counter);
        match &body.kind {
            ast::StatementKind::Block(list) => self.statements(list, &inner),
            _ => self.statement(body, &inner),
        }
    }

    fn statement(&mut self, s: &ast::Statement, scope: &str) {
        match &s.kind {
            ast::StatementKind::Var(def) | ast::StatementKind::AmbiguousDeclarationOrExpression(def, _) => self.vardef(def, scope),
            ast::StatementKind::Block(list) => {
                self.block_counter += 1;
                let inner = format!("{}/b{}", scope, self.block_counter);
                self.statements(list, &inner);
            }
            ast::StatementKind::If(_, b) | ast::StatementKind::While(_, b) | ast::StatementKind::DoWhile(b, _) | ast::StatementKind::Switch(_, b) => self.block(b, scope),
            ast::StatementKind::IfElse(_, a, b) => {
                self.block(a, scope);
                self.block(b, scope);
            }
            ast::StatementKind::For(init, _, _, body) => {
                self.block_counter += 1;
                let inner = format!("{}/for{}", scope, self.block_counter);
                if let ast::InitStatement::Declaration(def) = init {
                    self.vardef(def, &inner);
                }
                self.block(body, &inner);
            }
            ast::StatementKind::CaseLabel(_, next) | ast::StatementKind::DefaultLabel(next) => self.statement(next, scope),
            _ => {}
        }
    }

    fn function(&mut self, f: &ast::FunctionDefinition, scope: &str, kind: &'static str) {
        self.push(f.name.node.clone(), kind, scope);
        self.block_counter += 1;
        let inner = format!("{}{}()#{}", scope, f.name.node, self.block_counter);
        // named template parameters live in the scope of the function as well
        for tp in &f.template_params.0 {
            let name = match tp {
                ast::TemplateParam::Type(t) => t.name.as_ref().map(|n| n.node.clone()),
                ast::TemplateParam::Value(v) => v.name.as_ref().map(|n| n.node.clone()),
            };
            if let Some(n) = name {
                self.push(n, "template-parameter", &inner);
            }
        }
        for p in &f.params {
            if let Some(n) = declarator_name(&p.declarator) {
                self.push(n, "parameter", &inner);
            }
        }
        if let Some(body) = &f.body {
            // the outermost block of a function shares the parameter scope (a local may not redeclare a parameter)
            self.statements(body, &inner);
        }
    }

    fn roots(&mut self, defs: &[ast::RootDefinition], scope: &str) {
        for d in defs {
            match d {
                ast::RootDefinition::Struct(s) => {
                    self.push(s.name.node.clone(), "struct", scope);
                    let inner = format!("{}{}::", scope, s.name.node);
                    for m in &s.members {
                        match m {
                            ast::StructEntry::Variable(v) => {
                                for def in &v.defs {
                                    if let Some(n) = declarator_name(&def.declarator) {
                                        self.push(n, "member", &inner);
                                    }
                                }
                            }
                            ast::StructEntry::Method(f) => self.function(f, &inner, "method"),
                        }
                    }
                }
                ast::RootDefinition::Enum(e) => {
                    self.push(e.name.node.clone(), "enum", scope);
                    // unscoped enumerators are visible in the enclosing scope
                    for v in &e.values {
                        self.push(v.name.node.clone(), "enum-value", scope);
                    }
                }
                ast::RootDefinition::Typedef(t) => {
                    if let Some(n) = declarator_name(&t.declarator) {
                        self.push(n, "typedef", scope);
                    }
                }
                ast::RootDefinition::ConstantBuffer(cb) => {
                    self.push(cb.name.node.clone(), "cbuffer", scope);
                    for m in &cb.members {
                        for def in &m.defs {
                            if let Some(n) = declarator_name(&def.declarator) {
                                self.push(n, "global", scope);
                            }
                        }
                    }
                }
                ast::RootDefinition::GlobalVariable(g) => {
                    for def in &g.defs {
                        if let Some(n) = declarator_name(&def.declarator) {
                            self.push(n, "global", scope);
                        }
                    }
                }
                ast::RootDefinition::Function(f) => self.function(f, scope, "function"),
                ast::RootDefinition::Namespace(name, inner) => {
                    self.push(name.node.clone(), "namespace", scope);
                    let s2 = format!("{}{}::", scope, name.node);
                    self.roots(inner, &s2);
                }
                ast::RootDefinition::Pipeline(_) => {}
            }
        }
    }
}

pub fn declared_names(m: &ast::Module) -> Vec<Decl> {
    let mut w = Walker {
        out: Vec::new(),
        block_counter: 0,
    };
    w.roots(&m.root_definitions, "::");
    w.out
}

/// Pairs of declarations of different entities sharing a name in one scope.
/// Functions may share a name with functions (overloads) and namespaces may be reopened.
pub fn clashes(decls: &[Decl]) -> Vec<(Decl, Decl)> {
    let mut out = Vec::new();
    for (i, a) in decls.iter().enumerate() {
        for b in &decls[i + 1..] {
            if a.name == b.name && a.scope == b.scope {
                let both_functions = (a.kind == "function" || a.kind == "method") && (b.kind == "function" || b.kind == "method");
                let both_namespaces = a.kind == "namespace" && b.kind == "namespace";
                if !both_functions && !both_namespaces {
                    out.push((a.clone(), b.clone()));
                }
            }
        }
    }
    out
}
