//! Independent well-typedness checker for `rssl::ir::Module` (C03, positive monitor).
//!
//! Rules are written from the property text: every expression has a well defined type; every
//! operation, call, assignment, initialiser, return and constructor receives operands of exactly the
//! types it requires (all implicit conversions explicit); every referenced definition exists; targets of
//! assignment / increment / out arguments are non-const lvalues. Conditions of if/while/for are not
//! required to be bool (the property does not list them).
//!
//! One documented relaxation: an *untyped literal* operand (literal int / literal float scalar kind)
//! is accepted where a typed scalar of the same class is required - rssl keeps literals untyped in a few
//! places (default arguments, case labels) and the property's "implicit conversions" are between types.

use rssl::ir;
use std::collections::HashSet;

#[derive(Clone, Copy, Debug, PartialEq)]
pub struct T {
    /// type without modifier
    pub ty: ir::TypeId,
    pub is_const: bool,
    pub lvalue: bool,
}

#[derive(Clone, Debug)]
pub struct Problem {
    /// stable class, e.g. "operand-types-differ:Add"
    pub class: String,
    pub detail: String,
}

pub struct Checker<'m> {
    m: &'m ir::Module,
    scope: Vec<HashSet<u32>>,
    pub problems: Vec<Problem>,
    pub expressions_checked: u64,
    pub statements_checked: u64,
    current_struct: Option<ir::StructId>,
    function_name: String,
}

type CR = Result<T, ()>;

impl<'m> Checker<'m> {
    pub fn new(m: &'m ir::Module) -> Checker<'m> {
        Checker {
            m,
            scope: Vec::new(),
            problems: Vec::new(),
            expressions_checked: 0,
            statements_checked: 0,
            current_struct: None,
            function_name: String::new(),
        }
    }

    fn problem(&mut self, class: &str, detail: String) {
        if self.problems.len() < 50 {
            self.problems.push(Problem {
                class: class.to_string(),
                detail: format!("in function {}: {}", self.function_name, detail),
            });
        }
    }

    fn name(&self, ty: ir::TypeId) -> String {
        self.m.get_type_name_short(ty)
    }

    fn split(&self, ty: ir::TypeId) -> (ir::TypeId, bool) {
        let (base, modifier) = self.m.type_registry.extract_modifier(ty);
        (base, modifier.is_const)
    }

    fn layer(&self, ty: ir::TypeId) -> ir::TypeLayer {
        self.m.type_registry.get_type_layer(self.m.type_registry.remove_modifier(ty))
    }

    fn valid_type(&mut self, ty: ir::TypeId, what: &str) -> bool {
        if ty.0 >= self.m.type_registry.get_type_count() {
            self.problem("dangling-type-id", format!("{} refers to type id {} which does not exist", what, ty.0));
            return false;
        }
        true
    }

    fn scalar_of(&self, ty: ir::TypeId) -> Option<(ir::ScalarType, u32)> {
        match self.layer(ty) {
            ir::TypeLayer::Scalar(s) => Some((s, 1)),
            ir::TypeLayer::Vector(inner, n) => match self.layer(inner) {
                ir::TypeLayer::Scalar(s) => Some((s, n)),
                _ => None,
            },
            ir::TypeLayer::Matrix(inner, x, y) => match self.layer(inner) {
                ir::TypeLayer::Scalar(s) => Some((s, x * y)),
                _ => None,
            },
            _ => None,
        }
    }

    /// `have` is acceptable where exactly `want` is required
    fn same_type(&self, have: ir::TypeId, want: ir::TypeId) -> bool {
        let have = self.m.type_registry.remove_modifier(have);
        let want = self.m.type_registry.remove_modifier(want);
        if have == want {
            return true;
        }
        // untyped literal relaxation (scalars only)
        match (self.layer(have), self.layer(want)) {
            (ir::TypeLayer::Scalar(ir::ScalarType::IntLiteral), ir::TypeLayer::Scalar(s)) => matches!(s, ir::ScalarType::Int32 | ir::ScalarType::UInt32 | ir::ScalarType::IntLiteral),
            (ir::TypeLayer::Scalar(ir::ScalarType::FloatLiteral), ir::TypeLayer::Scalar(s)) => {
                matches!(s, ir::ScalarType::Float16 | ir::ScalarType::Float32 | ir::ScalarType::Float64 | ir::ScalarType::FloatLiteral)
            }
            _ => false,
        }
    }

    fn reg(&self, layer: ir::TypeLayer) -> ir::TypeId {
        self.m.type_registry.register_type(layer)
    }

    fn bool_like(&self, ty: ir::TypeId) -> ir::TypeId {
        let b = self.reg(ir::TypeLayer::Scalar(ir::ScalarType::Bool));
        match self.layer(ty) {
            ir::TypeLayer::Vector(_, n) => self.reg(ir::TypeLayer::Vector(b, n)),
            ir::TypeLayer::Matrix(_, x, y) => self.reg(ir::TypeLayer::Matrix(b, x, y)),
            _ => b,
        }
    }

    fn rvalue(&self, ty: ir::TypeId) -> T {
        T {
            ty: self.m.type_registry.remove_modifier(ty),
            is_const: false,
            lvalue: false,
        }
    }

    fn var_in_scope(&self, id: u32) -> bool {
        self.scope.iter().any(|s| s.contains(&id))
    }

    // ---------------------------------------------------------------------------------------------

    /// type of an already walked sub-expression, without recording problems or counting it again
    fn expr_quiet(&mut self, e: &ir::Expression) -> CR {
        let problems = self.problems.len();
        let counted = self.expressions_checked;
        let r = self.expr(e);
        self.problems.truncate(problems);
        self.expressions_checked = counted;
        r
    }

    pub fn expr(&mut self, e: &ir::Expression) -> CR {
        self.expressions_checked += 1;
        use ir::Expression as E;
        match e {
            E::Literal(c) => {
                let layer = match c {
                    ir::Constant::Bool(_) => ir::TypeLayer::Scalar(ir::ScalarType::Bool),
                    ir::Constant::IntLiteral(_) => ir::TypeLayer::Scalar(ir::ScalarType::IntLiteral),
                    ir::Constant::Int32(_) => ir::TypeLayer::Scalar(ir::ScalarType::Int32),
                    ir::Constant::UInt32(_) => ir::TypeLayer::Scalar(ir::ScalarType::UInt32),
                    ir::Constant::FloatLiteral(_) => ir::TypeLayer::Scalar(ir::ScalarType::FloatLiteral),
                    ir::Constant::Float16(_) => ir::TypeLayer::Scalar(ir::ScalarType::Float16),
                    ir::Constant::Float32(_) => ir::TypeLayer::Scalar(ir::ScalarType::Float32),
                    ir::Constant::Float64(_) => ir::TypeLayer::Scalar(ir::ScalarType::Float64),
                    ir::Constant::Enum(id, _) => {
                        if id.0 >= self.m.enum_registry.get_enum_count() {
                            self.problem("dangling-enum-id", format!("literal of enum {}", id.0));
                            return Err(());
                        }
                        ir::TypeLayer::Enum(*id)
                    }
                    // 64 bit and string literals have no type in the IR's own rules either: outside the modelled subset
                    ir::Constant::Int64(_) | ir::Constant::UInt64(_) | ir::Constant::String(_) => return Err(()),
                };
                Ok(self.rvalue(self.reg(layer)))
            }
            E::Variable(id) => {
                if id.0 >= self.m.variable_registry.get_variable_count() {
                    self.problem("dangling-variable-id", format!("variable id {}", id.0));
                    return Err(());
                }
                if !self.var_in_scope(id.0) {
                    let name = self.m.variable_registry.get_local_variable(*id).name.node.clone();
                    self.problem("variable-out-of-scope", format!("local variable {} ({}) used outside the scope that declares it", name, id.0));
                }
                let v = self.m.variable_registry.get_local_variable(*id);
                if !self.valid_type(v.type_id, "local variable") {
                    return Err(());
                }
                let (ty, c) = self.split(v.type_id);
                Ok(T { ty, is_const: c, lvalue: true })
            }
            E::MemberVariable(sid, idx) => {
                let Some(def) = self.m.struct_registry.get(sid.0 as usize) else {
                    self.problem("dangling-struct-id", format!("member variable of struct {}", sid.0));
                    return Err(());
                };
                let Some(mem) = def.members.get(*idx as usize) else {
                    self.problem("dangling-member-index", format!("member {} of struct {}", idx, def.name.node));
                    return Err(());
                };
                let (ty, c) = self.split(mem.type_id);
                Ok(T { ty, is_const: c, lvalue: true })
            }
            E::Global(id) => {
                let Some(g) = self.m.global_registry.get(id.0 as usize) else {
                    self.problem("dangling-global-id", format!("global id {}", id.0));
                    return Err(());
                };
                let (ty, c) = self.split(g.type_id);
                Ok(T { ty, is_const: c, lvalue: true })
            }
            E::ConstantVariable(id) => {
                let Some(cb) = self.m.cbuffer_registry.get(id.0 .0 as usize) else {
                    self.problem("dangling-cbuffer-id", format!("cbuffer {}", id.0 .0));
                    return Err(());
                };
                let Some(mem) = cb.members.get(id.1 as usize) else {
                    self.problem("dangling-cbuffer-member", format!("member {} of cbuffer {}", id.1, cb.name.node));
                    return Err(());
                };
                let (ty, _) = self.split(mem.type_id);
                Ok(T { ty, is_const: true, lvalue: true })
            }
            E::EnumValue(id) => {
                // no count accessor: guard the lookup
                let r = crate::par::guard(|| self.m.enum_registry.get_enum_value(*id).type_id);
                match r {
                    Ok(ty) => Ok(self.rvalue(ty)),
                    Err(_) => {
                        self.problem("dangling-enum-value-id", format!("enum value id {}", id.0));
                        Err(())
                    }
                }
            }
            E::TernaryConditional(c, a, b) => {
                let _ = self.expr(c);
                let (ta, tb) = (self.expr(a), self.expr(b));
                let (ta, tb) = (ta?, tb?);
                if !(self.same_type(ta.ty, tb.ty) || self.same_type(tb.ty, ta.ty)) {
                    self.problem("ternary-arms-differ", format!("{} vs {}", self.name(ta.ty), self.name(tb.ty)));
                }
                Ok(self.rvalue(ta.ty))
            }
            E::Sequence(items) => {
                let mut last = Err(());
                if items.is_empty() {
                    self.problem("empty-sequence", String::new());
                }
                for it in items {
                    last = self.expr(it);
                }
                last
            }
            E::Swizzle(inner, slots) => {
                let t = self.expr(inner)?;
                let Some((s, n)) = self.scalar_of(t.ty) else {
                    self.problem("swizzle-of-non-numeric", self.name(t.ty));
                    return Err(());
                };
                if matches!(self.layer(t.ty), ir::TypeLayer::Matrix(..)) {
                    self.problem("swizzle-of-matrix", self.name(t.ty));
                    return Err(());
                }
                let mut repeated = false;
                for (i, slot) in slots.iter().enumerate() {
                    let idx = match slot {
                        ir::SwizzleSlot::X => 0,
                        ir::SwizzleSlot::Y => 1,
                        ir::SwizzleSlot::Z => 2,
                        ir::SwizzleSlot::W => 3,
                    };
                    if idx >= n {
                        self.problem("swizzle-component-out-of-range", format!("component {} of {}", idx, self.name(t.ty)));
                    }
                    if slots[..i].contains(slot) {
                        repeated = true;
                    }
                }
                if slots.is_empty() || slots.len() > 4 {
                    self.problem("swizzle-length", format!("{} components", slots.len()));
                    return Err(());
                }
                let sty = self.reg(ir::TypeLayer::Scalar(s));
                let ty = if slots.len() == 1 { sty } else { self.reg(ir::TypeLayer::Vector(sty, slots.len() as u32)) };
                Ok(T {
                    ty,
                    is_const: t.is_const,
                    lvalue: t.lvalue && !repeated,
                })
            }
            E::MatrixSwizzle(inner, _) => {
                let _ = self.expr(inner);
                Err(())
            }
            E::ArraySubscript(arr, index) => {
                let ta = self.expr(arr);
                let ti = self.expr(index);
                let ta = ta?;
                if let Ok(ti) = ti {
                    match self.scalar_of(ti.ty) {
                        Some((ir::ScalarType::Int32 | ir::ScalarType::UInt32 | ir::ScalarType::IntLiteral, _)) => {}
                        _ => self.problem("subscript-index-not-integer", self.name(ti.ty)),
                    }
                }
                match self.layer(ta.ty) {
                    ir::TypeLayer::Array(elem, _) => {
                        let (ty, c) = self.split(elem);
                        Ok(T {
                            ty,
                            is_const: c || ta.is_const,
                            lvalue: true,
                        })
                    }
                    ir::TypeLayer::Vector(inner, _) => Ok(T {
                        ty: inner,
                        is_const: ta.is_const,
                        lvalue: true,
                    }),
                    ir::TypeLayer::Matrix(inner, _, y) => Ok(T {
                        ty: self.reg(ir::TypeLayer::Vector(inner, y)),
                        is_const: ta.is_const,
                        lvalue: true,
                    }),
                    // resource indexing is outside the executable subset: no rule here
                    ir::TypeLayer::Object(_) => Err(()),
                    _ => {
                        self.problem("subscript-of-non-indexable", self.name(ta.ty));
                        Err(())
                    }
                }
            }
            E::StructMember(inner, sid, idx) => {
                let t = self.expr(inner)?;
                let Some(def) = self.m.struct_registry.get(sid.0 as usize) else {
                    self.problem("dangling-struct-id", format!("struct {}", sid.0));
                    return Err(());
                };
                let Some(mem) = def.members.get(*idx as usize) else {
                    self.problem("dangling-member-index", format!("member {} of struct {}", idx, def.name.node));
                    return Err(());
                };
                match self.layer(t.ty) {
                    ir::TypeLayer::Struct(s2) if s2 == *sid => {}
                    ir::TypeLayer::Object(_) => {}
                    _ => self.problem("member-of-wrong-type", format!("member {} of struct {} accessed on a value of type {}", mem.name, def.name.node, self.name(t.ty))),
                }
                let (ty, c) = self.split(mem.type_id);
                Ok(T {
                    ty,
                    is_const: c || t.is_const,
                    lvalue: t.lvalue,
                })
            }
            E::ObjectMember(inner, _) => {
                let _ = self.expr(inner);
                Err(())
            }
            E::Call(id, call_type, args) => self.call(*id, call_type, args),
            E::Constructor(ty, slots) => {
                if !self.valid_type(*ty, "constructor") {
                    return Err(());
                }
                let Some((scalar, n)) = self.scalar_of(*ty) else {
                    self.problem("constructor-of-non-numeric", self.name(*ty));
                    return Err(());
                };
                let mut total = 0;
                for slot in slots {
                    total += slot.arity;
                    if let Ok(t) = self.expr(&slot.expr) {
                        match self.scalar_of(t.ty) {
                            Some((s, lanes)) => {
                                let sty = self.reg(ir::TypeLayer::Scalar(s));
                                let want = self.reg(ir::TypeLayer::Scalar(scalar));
                                if !self.same_type(sty, want) {
                                    self.problem("constructor-slot-scalar-type", format!("slot of type {} in a constructor of {}", self.name(t.ty), self.name(*ty)));
                                }
                                if lanes != slot.arity {
                                    self.problem("constructor-slot-arity", format!("slot arity {} but expression has {} components", slot.arity, lanes));
                                }
                            }
                            None => self.problem("constructor-slot-not-numeric", self.name(t.ty)),
                        }
                    }
                }
                if total != n {
                    self.problem("constructor-arity-sum", format!("{} components for {}", total, self.name(*ty)));
                }
                Ok(self.rvalue(*ty))
            }
            E::Cast(ty, inner) => {
                if !self.valid_type(*ty, "cast") {
                    return Err(());
                }
                let t = self.expr(inner);
                if let Ok(t) = t {
                    let ok = match (self.layer(t.ty), self.layer(*ty)) {
                        (a, b) if a == b => true,
                        (ir::TypeLayer::Scalar(_) | ir::TypeLayer::Vector(..) | ir::TypeLayer::Matrix(..) | ir::TypeLayer::Enum(_), ir::TypeLayer::Scalar(_) | ir::TypeLayer::Vector(..) | ir::TypeLayer::Matrix(..) | ir::TypeLayer::Enum(_)) => true,
                        (_, ir::TypeLayer::Void) => true,
                        // casts involving objects / structs (e.g. (S)0) are outside the modelled subset
                        (ir::TypeLayer::Object(_), _) | (_, ir::TypeLayer::Object(_)) => true,
                        (_, ir::TypeLayer::Struct(_)) | (_, ir::TypeLayer::Array(..)) => true,
                        _ => false,
                    };
                    if !ok {
                        self.problem("cast-between-unrelated-types", format!("{} -> {}", self.name(t.ty), self.name(*ty)));
                    }
                }
                Ok(self.rvalue(*ty))
            }
            E::SizeOf(ty) => {
                self.valid_type(*ty, "sizeof");
                Ok(self.rvalue(self.reg(ir::TypeLayer::Scalar(ir::ScalarType::UInt32))))
            }
            E::IntrinsicOp(op, args) => self.intrinsic_op(op, args),
        }
    }

    fn require_target(&mut self, t: &T, what: &str) {
        if !t.lvalue {
            self.problem(&format!("{}-of-non-lvalue", what), format!("operand of type {}", self.name(t.ty)));
        } else if t.is_const {
            self.problem(&format!("{}-of-const", what), format!("operand of type const {}", self.name(t.ty)));
        }
    }

    fn intrinsic_op(&mut self, op: &ir::IntrinsicOp, args: &[ir::Expression]) -> CR {
        use ir::IntrinsicOp::*;
        let mut ts = Vec::new();
        for a in args {
            ts.push(self.expr(a));
        }
        let opname = format!("{:?}", op);
        let arity = match op {
            PrefixIncrement | PrefixDecrement | PostfixIncrement | PostfixDecrement | Plus | Minus | LogicalNot | BitwiseNot | MakeSigned | MakeSignedPushZero => 1,
            MeshOutputSetVertex | MeshOutputSetPrimitive | MeshOutputSetIndices => return Err(()),
            _ => 2,
        };
        if args.len() != arity {
            self.problem(&format!("operator-arity:{}", opname), format!("{} operands", args.len()));
            return Err(());
        }
        match op {
            PrefixIncrement | PrefixDecrement | PostfixIncrement | PostfixDecrement => {
                let t = ts[0]?;
                self.require_target(&t, "increment");
                if self.scalar_of(t.ty).is_none() {
                    self.problem("increment-of-non-numeric", self.name(t.ty));
                }
                if matches!(op, PrefixIncrement | PrefixDecrement) {
                    Ok(t)
                } else {
                    Ok(self.rvalue(t.ty))
                }
            }
            Plus | Minus | BitwiseNot => {
                let t = ts[0]?;
                // enums are integer like
                if self.scalar_of(t.ty).is_none() && !matches!(self.layer(t.ty), ir::TypeLayer::Enum(_)) {
                    self.problem(&format!("operand-not-numeric:{}", opname), self.name(t.ty));
                }
                Ok(self.rvalue(t.ty))
            }
            LogicalNot => {
                let t = ts[0]?;
                if self.scalar_of(t.ty).is_none() {
                    self.problem("operand-not-numeric:LogicalNot", self.name(t.ty));
                }
                Ok(self.rvalue(self.bool_like(t.ty)))
            }
            MakeSigned | MakeSignedPushZero => Err(()),
            Add | Subtract | Multiply | Divide | Modulus | LeftShift | RightShift | BitwiseAnd | BitwiseOr | BitwiseXor | BooleanAnd | BooleanOr | LessThan | LessEqual
            | GreaterThan | GreaterEqual | Equality | Inequality => {
                let (a, b) = (ts[0]?, ts[1]?);
                if !(self.same_type(a.ty, b.ty) || self.same_type(b.ty, a.ty)) {
                    self.problem(&format!("operand-types-differ:{}", opname), format!("{} and {}", self.name(a.ty), self.name(b.ty)));
                }
                let numeric_or_enum = |s: &Self, t: ir::TypeId| s.scalar_of(t).is_some() || matches!(s.layer(t), ir::TypeLayer::Enum(_));
                if !numeric_or_enum(self, a.ty) {
                    self.problem(&format!("operand-not-numeric:{}", opname), self.name(a.ty));
                }
                match op {
                    LessThan | LessEqual | GreaterThan | GreaterEqual | Equality | Inequality => Ok(self.rvalue(self.bool_like(a.ty))),
                    _ => Ok(self.rvalue(a.ty)),
                }
            }
            _ => {
                // assignments
                let a = ts[0];
                let b = ts[1];
                let a = a?;
                self.require_target(&a, "assignment");
                if let Ok(b) = b {
                    if !self.same_type(b.ty, a.ty) {
                        self.problem(&format!("assigned-type-differs:{}", opname), format!("{} assigned to {}", self.name(b.ty), self.name(a.ty)));
                    }
                }
                Ok(T {
                    ty: a.ty,
                    is_const: a.is_const,
                    lvalue: true,
                })
            }
        }
    }

    fn call(&mut self, id: ir::FunctionId, call_type: &ir::CallType, args: &[ir::Expression]) -> CR {
        if id.0 >= self.m.function_registry.get_function_count() {
            self.problem("dangling-function-id", format!("function id {}", id.0));
            return Err(());
        }
        let sig = self.m.function_registry.get_function_signature(id).clone();
        let fname = self.m.function_registry.get_function_name(id).to_string();
        let mut ts = Vec::new();
        for a in args {
            ts.push(self.expr(a));
        }
        let is_intrinsic = self.m.function_registry.get_intrinsic_data(id).is_some();
        let skip = match call_type {
            ir::CallType::MethodExternal => 1,
            _ => 0,
        };
        if args.len() < skip {
            self.problem("method-call-without-object", fname.clone());
            return Err(());
        }
        let rest = &ts[skip..];
        if rest.len() > sig.param_types.len() || rest.len() < sig.non_default_params.min(sig.param_types.len()) {
            self.problem("call-argument-count", format!("{} arguments for {} which takes {}..{}", rest.len(), fname, sig.non_default_params, sig.param_types.len()));
        }
        for (i, (t, p)) in rest.iter().zip(&sig.param_types).enumerate() {
            let Ok(t) = t else { continue };
            let arg_expr = &args[skip + i];
            // template parameter types are resolved per instantiation; object methods take object typed arguments
            if matches!(self.layer(p.type_id), ir::TypeLayer::TemplateParam(_) | ir::TypeLayer::Object(_)) {
                continue;
            }
            if self.contains_template_param(p.type_id) {
                continue;
            }
            match p.input_modifier {
                ir::InputModifier::In => {
                    if !self.same_type(t.ty, p.type_id) {
                        self.problem("call-argument-type", format!("argument {} of {}: {} passed for {}", i, fname, self.name(t.ty), self.name(p.type_id)));
                    }
                }
                ir::InputModifier::Out | ir::InputModifier::InOut => {
                    if !t.lvalue {
                        // an implicit conversion made explicit as a Cast node yields an rvalue (Expression::get_type): classify it by
                        // what is converted, so that a known instance does not hide a different one
                        let mut class = "out-argument-not-lvalue".to_string();
                        if let ir::Expression::Cast(_, inner) = arg_expr {
                            if let Ok(ti) = self.expr_quiet(inner) {
                                if ti.lvalue {
                                    let shape = |me: &Self, ty: ir::TypeId| -> (String, Option<ir::TypeId>) {
                                        match me.layer(ty) {
                                            ir::TypeLayer::Scalar(_) => ("scalar".to_string(), Some(ty)),
                                            ir::TypeLayer::Vector(inner, n) => (format!("vector{}", n), Some(me.m.type_registry.remove_modifier(inner))),
                                            ir::TypeLayer::Matrix(inner, a, b) => (format!("matrix{}x{}", a, b), Some(me.m.type_registry.remove_modifier(inner))),
                                            _ => ("other".to_string(), None),
                                        }
                                    };
                                    let (from, fs) = shape(self, ti.ty);
                                    let (to, ts) = shape(self, t.ty);
                                    let scalar = if fs.is_some() && fs == ts { "same-scalar-type" } else { "other-scalar-type" };
                                    class = format!("out-argument-is-cast-of-lvalue:{}-to-{}:{}", from, to, scalar);
                                }
                            }
                        }
                        self.problem(&class, format!("argument {} of {}", i, fname));
                    } else if t.is_const {
                        self.problem("out-argument-const", format!("argument {} of {}", i, fname));
                    }
                    let want = self.m.type_registry.remove_modifier(p.type_id);
                    if t.ty != want && !is_intrinsic {
                        self.problem("out-argument-type", format!("argument {} of {}: {} passed for {}", i, fname, self.name(t.ty), self.name(p.type_id)));
                    }
                }
            }
        }
        let ret = sig.return_type.return_type;
        if !self.valid_type(ret, "return type") {
            return Err(());
        }
        Ok(self.rvalue(ret))
    }

    fn contains_template_param(&self, ty: ir::TypeId) -> bool {
        match self.layer(ty) {
            ir::TypeLayer::TemplateParam(_) => true,
            ir::TypeLayer::Vector(inner, _) | ir::TypeLayer::Matrix(inner, _, _) | ir::TypeLayer::Array(inner, _) => self.contains_template_param(inner),
            _ => false,
        }
    }

    // ---------------------------------------------------------------------------------------------

    fn initializer(&mut self, init: &ir::Initializer, ty: ir::TypeId, what: &str) {
        match init {
            ir::Initializer::Expression(e) => {
                if let Ok(t) = self.expr(e) {
                    if !self.same_type(t.ty, ty) {
                        self.problem("initialiser-type", format!("{} of type {} initialised with {}", what, self.name(ty), self.name(t.ty)));
                    }
                }
            }
            ir::Initializer::Aggregate(items) => match self.layer(ty) {
                ir::TypeLayer::Array(inner, n) => {
                    if let Some(n) = n {
                        if items.len() as u64 != n {
                            self.problem("aggregate-length", format!("{} elements for {}", items.len(), self.name(ty)));
                        }
                    }
                    for it in items {
                        self.initializer(it, inner, what);
                    }
                }
                ir::TypeLayer::Struct(id) => {
                    let def = &self.m.struct_registry[id.0 as usize];
                    if items.len() != def.members.len() {
                        self.problem("aggregate-length", format!("{} elements for struct {}", items.len(), def.name.node));
                    }
                    let member_types: Vec<ir::TypeId> = def.members.iter().map(|m| m.type_id).collect();
                    for (it, mty) in items.iter().zip(member_types) {
                        self.initializer(it, mty, what);
                    }
                }
                ir::TypeLayer::Vector(inner, n) => {
                    if items.len() as u32 != n {
                        self.problem("aggregate-length", format!("{} elements for {}", items.len(), self.name(ty)));
                    }
                    for it in items {
                        self.initializer(it, inner, what);
                    }
                }
                _ => {
                    // scalar / matrix aggregates: not modelled, but still walk the expressions
                    for it in items {
                        if let ir::Initializer::Expression(e) = it {
                            let _ = self.expr(e);
                        }
                    }
                }
            },
        }
    }

    fn block(&mut self, b: &ir::ScopeBlock, ret: ir::TypeId) {
        self.scope.push(b.1.variables.iter().map(|v| v.0).collect());
        for s in &b.0 {
            self.statement(s, ret);
        }
        self.scope.pop();
    }

    fn vardef(&mut self, def: &ir::VarDef) {
        if def.id.0 >= self.m.variable_registry.get_variable_count() {
            self.problem("dangling-variable-id", format!("definition of variable {}", def.id.0));
            return;
        }
        if !self.var_in_scope(def.id.0) {
            self.problem("definition-not-in-scope-declarations", format!("variable {} is defined but not listed in any enclosing scope", def.id.0));
        }
        let v = self.m.variable_registry.get_local_variable(def.id);
        let ty = v.type_id;
        if let Some(init) = &def.init {
            self.initializer(init, ty, "local variable");
        }
    }

    fn statement(&mut self, s: &ir::Statement, ret: ir::TypeId) {
        self.statements_checked += 1;
        use ir::StatementKind as K;
        match &s.kind {
            K::Expression(e) => {
                let _ = self.expr(e);
            }
            K::Var(def) => self.vardef(def),
            K::Block(b) => self.block(b, ret),
            K::If(c, b) => {
                let _ = self.expr(c);
                self.block(b, ret);
            }
            K::IfElse(c, a, b) => {
                let _ = self.expr(c);
                self.block(a, ret);
                self.block(b, ret);
            }
            K::For(init, c, inc, body) => {
                // the loop variable belongs to the body's scope
                self.scope.push(body.1.variables.iter().map(|v| v.0).collect());
                match init {
                    ir::ForInit::Empty => {}
                    ir::ForInit::Expression(e) => {
                        let _ = self.expr(e);
                    }
                    ir::ForInit::Definitions(defs) => {
                        for d in defs {
                            self.vardef(d);
                        }
                    }
                }
                if let Some(c) = c {
                    let _ = self.expr(c);
                }
                if let Some(i) = inc {
                    let _ = self.expr(i);
                }
                for st in &body.0 {
                    self.statement(st, ret);
                }
                self.scope.pop();
            }
            K::While(c, b) => {
                let _ = self.expr(c);
                self.block(b, ret);
            }
            K::DoWhile(b, c) => {
                self.block(b, ret);
                let _ = self.expr(c);
            }
            K::Switch(e, b) => {
                let _ = self.expr(e);
                self.block(b, ret);
            }
            K::Return(None) => {
                if !matches!(self.layer(ret), ir::TypeLayer::Void) {
                    self.problem("return-without-value", format!("function returns {}", self.name(ret)));
                }
            }
            K::Return(Some(e)) => {
                if let Ok(t) = self.expr(e) {
                    if matches!(self.layer(ret), ir::TypeLayer::Void) {
                        if !matches!(self.layer(t.ty), ir::TypeLayer::Void) {
                            self.problem("return-value-from-void", format!("returns {}", self.name(t.ty)));
                        }
                    } else if !self.same_type(t.ty, ret) {
                        self.problem("return-type", format!("returns {} from a function returning {}", self.name(t.ty), self.name(ret)));
                    }
                }
            }
            K::Break | K::Continue | K::Discard | K::CaseLabel(_) | K::DefaultLabel => {}
        }
    }

    /// Check every implemented function (incl. template instances and methods), global initialisers and default arguments
    pub fn module(&mut self) {
        let m = self.m;
        // which struct owns which method
        let mut owner = std::collections::HashMap::new();
        for s in &m.struct_registry {
            for f in &s.methods {
                owner.insert(f.0, s.id);
            }
        }
        for id in m.function_registry.iter() {
            let Some(imp) = m.function_registry.get_function_implementation(id).as_ref() else { continue };
            let sig = m.function_registry.get_function_signature(id);
            // uninstantiated templates keep template parameter types: skip their bodies
            if !sig.template_params.is_empty() && m.function_registry.get_template_instantiation_data(id).is_none() {
                continue;
            }
            self.function_name = m.function_registry.get_function_name(id).to_string();
            self.current_struct = owner.get(&id.0).cloned();
            self.scope.clear();
            self.scope.push(imp.params.iter().map(|p| p.id.0).collect());
            if imp.params.len() != sig.param_types.len() {
                self.problem("parameter-count-mismatch", format!("{} parameters, signature has {}", imp.params.len(), sig.param_types.len()));
            }
            for p in &imp.params {
                if let Some(d) = &p.default_expr {
                    // default arguments cannot name parameters
                    let saved = std::mem::take(&mut self.scope);
                    self.scope.push(HashSet::new());
                    if let Ok(t) = self.expr(d) {
                        // default arguments are kept as written: an untyped literal of either class is accepted for any numeric
                        // parameter (the property lists operations, calls, assignments, initialisers, returns and constructors)
                        let literal_default = matches!(self.layer(t.ty), ir::TypeLayer::Scalar(ir::ScalarType::IntLiteral | ir::ScalarType::FloatLiteral))
                            && self.scalar_of(p.param_type.type_id).is_some();
                        if !literal_default && !self.same_type(t.ty, p.param_type.type_id) {
                            self.problem("default-argument-type", format!("{} for parameter of type {}", self.name(t.ty), self.name(p.param_type.type_id)));
                        }
                    }
                    self.scope = saved;
                }
            }
            let ret = sig.return_type.return_type;
            self.block(&imp.scope_block, ret);
        }
        self.function_name = "<global initialiser>".into();
        self.scope.clear();
        self.scope.push(HashSet::new());
        for g in &m.global_registry {
            if g.is_intrinsic {
                continue;
            }
            if let Some(init) = &g.init {
                self.initializer(init, g.type_id, "global variable");
            }
        }
    }
}

/// The IR's own typing function must neither panic nor disagree (unmodified type and value category) on any expression
/// of any function body. Returns (expressions asked, problems).
pub fn ask_ir_types(m: &ir::Module) -> (u64, Vec<Problem>) {
    let mut asked = 0;
    let mut problems = Vec::new();
    fn walk_expr(e: &ir::Expression, f: &mut dyn FnMut(&ir::Expression)) {
        f(e);
        use ir::Expression as E;
        match e {
            E::TernaryConditional(a, b, c) => {
                walk_expr(a, f);
                walk_expr(b, f);
                walk_expr(c, f);
            }
            E::Sequence(v) => v.iter().for_each(|x| walk_expr(x, f)),
            E::Swizzle(a, _) | E::MatrixSwizzle(a, _) | E::StructMember(a, _, _) | E::ObjectMember(a, _) | E::Cast(_, a) => walk_expr(a, f),
            E::ArraySubscript(a, b) => {
                walk_expr(a, f);
                walk_expr(b, f);
            }
            E::Call(_, _, v) | E::IntrinsicOp(_, v) => v.iter().for_each(|x| walk_expr(x, f)),
            E::Constructor(_, slots) => slots.iter().for_each(|s| walk_expr(&s.expr, f)),
            _ => {}
        }
    }
    fn walk_init(i: &ir::Initializer, f: &mut dyn FnMut(&ir::Expression)) {
        match i {
            ir::Initializer::Expression(e) => walk_expr(e, f),
            ir::Initializer::Aggregate(v) => v.iter().for_each(|x| walk_init(x, f)),
        }
    }
    fn walk_block(b: &ir::ScopeBlock, f: &mut dyn FnMut(&ir::Expression)) {
        for s in &b.0 {
            use ir::StatementKind as K;
            match &s.kind {
                K::Expression(e) => walk_expr(e, f),
                K::Var(d) => {
                    if let Some(i) = &d.init {
                        walk_init(i, f)
                    }
                }
                K::Block(b) => walk_block(b, f),
                K::If(c, b) | K::While(c, b) | K::Switch(c, b) => {
                    walk_expr(c, f);
                    walk_block(b, f);
                }
                K::IfElse(c, a, b) => {
                    walk_expr(c, f);
                    walk_block(a, f);
                    walk_block(b, f);
                }
                K::For(init, c, inc, body) => {
                    match init {
                        ir::ForInit::Expression(e) => walk_expr(e, f),
                        ir::ForInit::Definitions(defs) => {
                            for d in defs {
                                if let Some(i) = &d.init {
                                    walk_init(i, f);
                                }
                            }
                        }
                        ir::ForInit::Empty => {}
                    }
                    if let Some(c) = c {
                        walk_expr(c, f);
                    }
                    if let Some(i) = inc {
                        walk_expr(i, f);
                    }
                    walk_block(body, f);
                }
                K::DoWhile(b, c) => {
                    walk_block(b, f);
                    walk_expr(c, f);
                }
                K::Return(Some(e)) => walk_expr(e, f),
                _ => {}
            }
        }
    }
    for id in m.function_registry.iter() {
        let Some(imp) = m.function_registry.get_function_implementation(id).as_ref() else { continue };
        let sig = m.function_registry.get_function_signature(id);
        if !sig.template_params.is_empty() && m.function_registry.get_template_instantiation_data(id).is_none() {
            continue;
        }
        let fname = m.function_registry.get_function_name(id).to_string();
        let mut visit = |e: &ir::Expression| {
            // 64-bit / string literals have no type in the IR by construction (`unimplemented!`): C08 owns that
            if matches!(e, ir::Expression::Literal(ir::Constant::Int64(_) | ir::Constant::UInt64(_) | ir::Constant::String(_))) {
                return;
            }
            asked += 1;
            match crate::par::guard(|| e.get_type(m)) {
                Ok(Ok(_)) => {}
                Ok(Err(_)) => {
                    if problems.len() < 20 {
                        problems.push(Problem {
                            class: "ir-get_type:invalid-module".into(),
                            detail: format!("in function {}: the IR's own typing rules call the module invalid for {:?}", fname, short(e)),
                        });
                    }
                }
                Err(c) => {
                    if problems.len() < 20 {
                        problems.push(Problem {
                            class: format!("ir-get_type-panics:{}", c.signature()),
                            detail: format!("in function {}: asking the IR for the type of {:?} panics at {}: {}", fname, short(e), c.location, c.message),
                        });
                    }
                }
            }
        };
        walk_block(&imp.scope_block, &mut visit);
    }
    (asked, problems)
}

fn short(e: &ir::Expression) -> String {
    let s = format!("{:?}", e);
    s.chars().take(160).collect()
}
