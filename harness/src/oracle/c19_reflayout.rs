//! Reference layout calculator for C19 ("layout-consistency validation is sound").
//!
//! Written from the documented rules of the two languages, not from rssl's checker:
//!
//! * HLSL structured-buffer packing (dxc, `-enable-16bit-types` as rssl's HLSL backend documents for
//!   `half`): a scalar is aligned to its size (half 2, int/uint/float 4, double 8); a vector has the
//!   alignment of its scalar and size n x scalar; a struct is aligned to its largest member alignment,
//!   every member is placed at the next multiple of its alignment, and the struct size is rounded up
//!   to the struct alignment; array stride = element size rounded up to the element alignment;
//!   enums are 4 byte ints.
//! * Metal Shading Language (spec table "size and alignment of vector data types"): scalars as
//!   above; a vector's size AND alignment are next_power_of_two(n) x scalar size (float3 = 16/16,
//!   half3 = 8/8); structs and arrays as in C++ (member at next multiple of its alignment, struct size
//!   rounded up to the maximum member alignment, array stride = sizeof(element)); an unscoped enum
//!   without fixed underlying type whose enumerators fit `int` is a 4 byte int.
//!   rssl's Metal backend emits struct members with the plain vector types (`float3`, never
//!   `packed_float3`; checked by the monitor on emitted MSL text), so these are the rules for the
//!   struct as emitted. `double` does not exist in Metal; the property quantifies over it anyway, so
//!   it is laid out like the other scalars (8/8, vectors by the same power-of-two rule).
//!
//! The result holds the total size, the alignment and the byte offset of every leaf field (scalar,
//! vector or enum; array elements and nested struct fields expanded recursively).

#[derive(Clone, Copy, PartialEq, Eq, Debug, Hash)]
pub enum Scalar {
    Half,
    Int,
    Uint,
    Float,
    Double,
}

pub const SCALARS: [Scalar; 5] = [Scalar::Half, Scalar::Int, Scalar::Uint, Scalar::Float, Scalar::Double];

impl Scalar {
    pub fn name(self) -> &'static str {
        match self {
            Scalar::Half => "half",
            Scalar::Int => "int",
            Scalar::Uint => "uint",
            Scalar::Float => "float",
            Scalar::Double => "double",
        }
    }
    pub fn size(self) -> u32 {
        match self {
            Scalar::Half => 2,
            Scalar::Int | Scalar::Uint | Scalar::Float => 4,
            Scalar::Double => 8,
        }
    }
    pub fn from_name(s: &str) -> Option<Scalar> {
        SCALARS.iter().copied().find(|x| x.name() == s)
    }
}

/// Element type of a member before array dimensions
#[derive(Clone, Debug, PartialEq, Eq, Hash)]
pub enum Base {
    /// scalar (width 1) or vector (width 2..=4)
    Num(Scalar, u32),
    Enum(String),
    Struct(String),
}

impl Base {
    pub fn type_name(&self) -> String {
        match self {
            Base::Num(s, 1) => s.name().to_string(),
            Base::Num(s, n) => format!("{}{}", s.name(), n),
            Base::Enum(n) | Base::Struct(n) => n.clone(),
        }
    }
}

#[derive(Clone, Debug, PartialEq, Eq, Hash)]
pub struct Member {
    pub name: String,
    pub base: Base,
    /// `T name[d0][d1]`: outermost dimension first
    pub dims: Vec<u32>,
}

#[derive(Clone, Debug, PartialEq, Eq, Hash)]
pub struct StructDef {
    pub name: String,
    pub members: Vec<Member>,
}

#[derive(Clone, Debug, Default, PartialEq, Eq, Hash)]
pub struct Decls {
    pub enums: Vec<String>,
    /// in definition order (a struct only refers to earlier ones)
    pub structs: Vec<StructDef>,
}

impl Decls {
    pub fn find(&self, name: &str) -> Option<&StructDef> {
        self.structs.iter().find(|s| s.name == name)
    }
}

#[derive(Clone, Copy, PartialEq, Eq, Debug)]
pub enum Rules {
    Hlsl,
    Metal,
}

/// NOT part of the reference. Deliberately wrong variants of the rules, used only to attribute an
/// already established violation to a cause (so that known findings can be keyed narrowly):
/// `member_tail` drops the tail padding of a struct that is a direct member of another struct,
/// `array_tail` drops it for a struct that is an array element (stride = unpadded size).
#[derive(Clone, Copy, PartialEq, Eq, Debug, Default)]
pub struct Relax {
    pub member_tail: bool,
    pub array_tail: bool,
}

pub const EXACT: Relax = Relax {
    member_tail: false,
    array_tail: false,
};

#[derive(Clone, Debug, PartialEq)]
pub struct Lay {
    /// sizeof: end of the last member rounded up to the alignment
    pub size: u32,
    pub align: u32,
    /// end of the last member (before tail padding)
    pub end: u32,
    /// (path, byte offset, byte size) of every leaf field, in declaration order
    pub leaves: Vec<(String, u32, u32)>,
}

fn round_up(v: u32, a: u32) -> u32 {
    debug_assert!(a > 0);
    v.div_ceil(a) * a
}

fn lay_base(d: &Decls, base: &Base, rules: Rules, relax: Relax, depth: u32) -> Option<Lay> {
    match base {
        Base::Num(s, n) => {
            let n = *n;
            if !(1..=4).contains(&n) {
                return None;
            }
            let (size, align) = if n == 1 {
                (s.size(), s.size())
            } else {
                match rules {
                    Rules::Hlsl => (n * s.size(), s.size()),
                    Rules::Metal => {
                        let v = n.next_power_of_two() * s.size();
                        (v, v)
                    }
                }
            };
            Some(Lay {
                size,
                align,
                end: size,
                leaves: vec![(String::new(), 0, size)],
            })
        }
        Base::Enum(name) => {
            if !d.enums.iter().any(|e| e == name) {
                return None;
            }
            Some(Lay {
                size: 4,
                align: 4,
                end: 4,
                leaves: vec![(String::new(), 0, 4)],
            })
        }
        Base::Struct(name) => lay_struct(d, name, rules, relax, depth + 1),
    }
}

fn lay_member(d: &Decls, m: &Member, rules: Rules, relax: Relax, depth: u32) -> Option<Lay> {
    let mut cur = lay_base(d, &m.base, rules, relax, depth)?;
    let is_struct = matches!(m.base, Base::Struct(_));
    // innermost dimension is the last one
    for n in m.dims.iter().rev() {
        let n = *n;
        if n == 0 {
            return None;
        }
        let stride = if is_struct && relax.array_tail { cur.end } else { round_up(cur.size, cur.align) };
        let mut leaves = Vec::with_capacity(cur.leaves.len() * n as usize);
        for i in 0..n {
            for (p, o, s) in &cur.leaves {
                leaves.push((format!("[{}]{}", i, p), o + i * stride, *s));
            }
        }
        let size = stride.checked_mul(n)?;
        cur = Lay {
            size,
            align: cur.align,
            end: size,
            leaves,
        };
    }
    Some(cur)
}

fn lay_struct(d: &Decls, name: &str, rules: Rules, relax: Relax, depth: u32) -> Option<Lay> {
    if depth > 16 {
        return None;
    }
    let def = d.find(name)?;
    if def.members.is_empty() {
        // empty structs have no agreed size (1 in C++, 0/illegal in HLSL): outside the reference
        return None;
    }
    let mut off = 0u32;
    let mut align = 1u32;
    let mut leaves = Vec::new();
    for m in &def.members {
        let l = lay_member(d, m, rules, relax, depth)?;
        let msize = if relax.member_tail && m.dims.is_empty() && matches!(m.base, Base::Struct(_)) { l.end } else { l.size };
        off = round_up(off, l.align);
        for (p, o, s) in l.leaves {
            leaves.push((format!(".{}{}", m.name, p), off + o, s));
        }
        off = off.checked_add(msize)?;
        align = align.max(l.align);
    }
    Some(Lay {
        size: round_up(off, align),
        align,
        end: off,
        leaves,
    })
}

/// Layout of struct `root` used as a buffer element. None = outside the reference (unknown name, empty struct)
pub fn layout_of(d: &Decls, root: &str, rules: Rules, relax: Relax) -> Option<Lay> {
    lay_struct(d, root, rules, relax, 0)
}

#[derive(Clone, Debug, PartialEq)]
pub enum Truth {
    /// same total size and same offset for every leaf field
    Equal,
    /// same total size but some field sits elsewhere: (path, hlsl offset, metal offset)
    SameSizeOffsetsDiffer(String, u32, u32),
    /// total sizes differ; the first field that sits elsewhere, if any
    SizeDiffers(Option<(String, u32, u32)>),
}

impl Truth {
    pub fn name(&self) -> &'static str {
        match self {
            Truth::Equal => "equal",
            Truth::SameSizeOffsetsDiffer(..) => "same-size-offsets-differ",
            Truth::SizeDiffers(..) => "size-differs",
        }
    }
}

/// Only offsets and the total size are compared (the property's wording): a 3-vector occupies 12 bytes
/// in HLSL and 16 in Metal, but its components sit at the same places; the difference only matters
/// through the offsets of what follows and through the total size.
pub fn compare(h: &Lay, m: &Lay) -> Truth {
    debug_assert_eq!(h.leaves.len(), m.leaves.len());
    let first = h
        .leaves
        .iter()
        .zip(m.leaves.iter())
        .find(|(a, b)| a.1 != b.1)
        .map(|(a, b)| (a.0.clone(), a.1, b.1));
    if h.size != m.size {
        Truth::SizeDiffers(first)
    } else if let Some((p, a, b)) = first {
        Truth::SameSizeOffsetsDiffer(p, a, b)
    } else {
        Truth::Equal
    }
}
