//! Reference interpreter for *untyped* syntax trees (`rssl::ast::Module`) with C-like semantics, in two
//! dialects: HLSL (copy-in/copy-out for out/inout, HLSL intrinsic names) and MSL (references, `metal::`
//! builtins, `as_type<T>`). Values carry their dynamic type. Written from the language rules; it shares
//! only the numeric kernels (oracle::val) with the IR interpreter.
//!
//! Anything undefined/unspecified traps (sample discarded); constructs the interpreter does not know
//! make the sample unsupported; ill formed programs for the dialect are reported as IllTyped.

use super::val::*;
use rssl::ast;
use std::collections::HashMap;

#[derive(Clone, Copy, PartialEq, Eq, Debug)]
pub enum Dialect {
    Hlsl,
    Msl,
}

#[derive(Clone, Debug, PartialEq)]
pub enum CTy {
    Void,
    Num(Kind, usize, bool), // kind, lanes, is vector type
    Struct(usize),
    Enum(usize),
    Array(Box<CTy>, usize),
    /// metal::true_type tag and similar empty tag types
    Tag,
}

#[derive(Clone, Debug)]
struct StructDef {
    name: String,
    fields: Vec<(String, CTy)>,
    methods: Vec<usize>, // indices into functions
}

#[derive(Clone, Debug)]
struct EnumDef {
    name: String,
    values: Vec<(String, i64)>,
}

#[derive(Clone, Copy, PartialEq, Debug)]
enum PassMode {
    In,
    Out,
    InOut,
    Ref,
}

#[derive(Clone, Debug)]
struct ParamDef {
    name: Option<String>,
    /// spelling of the declared type (qualified)
    type_name: String,
    ty: CTy,
    mode: PassMode,
    default: Option<ast::Expression>,
}

#[derive(Clone)]
struct FuncDef {
    /// fully qualified name (namespaces joined by ::)
    qname: String,
    name: String,
    ret: CTy,
    params: Vec<ParamDef>,
    body: Vec<ast::Statement>,
    owner: Option<usize>,
    /// `template<typename>` instantiation emitted by the exporters
    template_instance: bool,
}

#[derive(Clone, Debug)]
pub struct Place {
    cell: usize,
    path: Vec<Proj>,
}

#[derive(Clone, Debug)]
enum Proj {
    Field(usize),
    Index(usize),
    Swizzle(Vec<usize>),
}

#[derive(Clone, Debug)]
enum Binding {
    Cell(usize),
    Ref(Place),
}

enum Flow {
    Normal,
    Break,
    Continue,
    Return(Value),
}

pub struct CExec<'a> {
    pub dialect: Dialect,
    module: &'a ast::Module,
    structs: Vec<StructDef>,
    enums: Vec<EnumDef>,
    funcs: Vec<FuncDef>,
    /// global variables: qualified name -> (cell, type)
    globals: HashMap<String, (usize, CTy)>,
    global_order: Vec<String>,
    store: Vec<Value>,
    cell_types: Vec<CTy>,
    /// scopes of the current frame; frames are separated by `frame_base`
    scopes: Vec<HashMap<String, (Binding, CTy)>>,
    frame_bases: Vec<usize>,
    /// namespace of the function being executed (for unqualified lookups)
    ns_stack: Vec<String>,
    pub steps: u64,
    pub max_steps: u64,
    depth: u32,
}

fn unsup<T>(s: impl Into<String>) -> R<T> {
    Err(Trap::Unsupported(s.into()))
}

fn ill<T>(s: impl Into<String>) -> R<T> {
    Err(Trap::IllTyped(s.into()))
}

fn last_name(id: &ast::ScopedIdentifier) -> &str {
    &id.identifiers.last().unwrap().node
}

fn qualified(id: &ast::ScopedIdentifier) -> String {
    id.identifiers.iter().map(|i| i.node.as_str()).collect::<Vec<_>>().join("::")
}

pub struct CallOutcome {
    pub ret: Value,
    /// (parameter index, value) for out/inout/reference parameters, in parameter order
    pub outs: Vec<(usize, Value)>,
}

impl<'a> CExec<'a> {
    pub fn new(module: &'a ast::Module, dialect: Dialect) -> R<CExec<'a>> {
        let mut e = CExec {
            dialect,
            module,
            structs: Vec::new(),
            enums: Vec::new(),
            funcs: Vec::new(),
            globals: HashMap::new(),
            global_order: Vec::new(),
            store: Vec::new(),
            cell_types: Vec::new(),
            scopes: vec![HashMap::new()],
            frame_bases: vec![0],
            ns_stack: Vec::new(),
            steps: 0,
            max_steps: 400_000,
            depth: 0,
        };
        let defs: &'a [ast::RootDefinition] = &module.root_definitions;
        e.collect(defs, "")?;
        e.init_globals(defs, "")?;
        Ok(e)
    }

    // ---------------------------------------------------------------------------------------------
    // declarations
    // ---------------------------------------------------------------------------------------------

    fn collect(&mut self, defs: &'a [ast::RootDefinition], ns: &str) -> R<()> {
        for d in defs {
            match d {
                ast::RootDefinition::Struct(s) => {
                    if !s.template_params.0.is_empty() {
                        continue;
                    }
                    let idx = self.structs.len();
                    self.structs.push(StructDef {
                        name: format!("{}{}", ns, s.name.node),
                        fields: Vec::new(),
                        methods: Vec::new(),
                    });
                    let mut fields = Vec::new();
                    for m in &s.members {
                        match m {
                            ast::StructEntry::Variable(v) => {
                                for def in &v.defs {
                                    let base = self.base_type(&v.ty, ns);
                                    let (name, ty, _) = self.apply_declarator(base, &def.declarator)?;
                                    fields.push((name.unwrap_or_default(), ty));
                                }
                            }
                            ast::StructEntry::Method(_) => {}
                        }
                    }
                    self.structs[idx].fields = fields;
                    for m in &s.members {
                        if let ast::StructEntry::Method(f) = m {
                            if let Some(fi) = self.function(f, ns, Some(idx))? {
                                self.structs[idx].methods.push(fi);
                            }
                        }
                    }
                }
                ast::RootDefinition::Enum(en) => {
                    let mut values = Vec::new();
                    let mut next = 0i64;
                    for v in &en.values {
                        if let Some(e) = &v.value {
                            // enum initialisers are constant expressions over literals / earlier values
                            let val = self.const_int(&e.node, &values)?;
                            next = val;
                        }
                        values.push((v.name.node.clone(), next));
                        next += 1;
                    }
                    self.enums.push(EnumDef {
                        name: format!("{}{}", ns, en.name.node),
                        values,
                    });
                }
                ast::RootDefinition::Function(f) => {
                    self.function(f, ns, None)?;
                }
                ast::RootDefinition::Namespace(name, inner) => {
                    let ns2 = format!("{}{}::", ns, name.node);
                    self.collect(inner, &ns2)?;
                }
                ast::RootDefinition::GlobalVariable(_) => {}
                ast::RootDefinition::Typedef(_) | ast::RootDefinition::ConstantBuffer(_) | ast::RootDefinition::Pipeline(_) => {}
            }
        }
        Ok(())
    }

    fn const_int(&self, e: &ast::Expression, earlier: &[(String, i64)]) -> R<i64> {
        match e {
            ast::Expression::Literal(ast::Literal::IntUntyped(v)) | ast::Expression::Literal(ast::Literal::IntUnsigned32(v)) => Ok(*v as i64),
            ast::Expression::Literal(ast::Literal::Bool(b)) => Ok(*b as i64),
            ast::Expression::UnaryOperation(ast::UnaryOp::Minus, inner) => Ok(-self.const_int(&inner.node, earlier)?),
            ast::Expression::UnaryOperation(ast::UnaryOp::Plus, inner) => self.const_int(&inner.node, earlier),
            ast::Expression::Cast(_, inner) => self.const_int(&inner.node, earlier),
            ast::Expression::Identifier(id) => earlier.iter().find(|(n, _)| n == last_name(id)).map(|(_, v)| *v).ok_or_else(|| Trap::Unsupported("enum initialiser".into())),
            ast::Expression::BinaryOperation(op, a, b) => {
                let (x, y) = (self.const_int(&a.node, earlier)?, self.const_int(&b.node, earlier)?);
                Ok(match op {
                    ast::BinOp::Add => x.wrapping_add(y),
                    ast::BinOp::Subtract => x.wrapping_sub(y),
                    ast::BinOp::Multiply => x.wrapping_mul(y),
                    ast::BinOp::LeftShift if (0..31).contains(&y) => x << y,
                    ast::BinOp::BitwiseOr => x | y,
                    ast::BinOp::BitwiseAnd => x & y,
                    _ => return unsup("enum initialiser operator"),
                })
            }
            _ => unsup("enum initialiser"),
        }
    }

    fn function(&mut self, f: &'a ast::FunctionDefinition, ns: &str, owner: Option<usize>) -> R<Option<usize>> {
        let Some(body) = &f.body else { return Ok(None) };
        // `template<typename>` with unnamed parameters marks an instantiation whose types are already concrete;
        // a template with named parameters is generic and is not executed directly
        if f.template_params.0.iter().any(|p| matches!(p, ast::TemplateParam::Type(t) if t.name.is_some()) || matches!(p, ast::TemplateParam::Value(_))) {
            return Ok(None);
        }
        let ret = self.base_type(&f.returntype.return_type, ns);
        let mut params = Vec::new();
        for p in &f.params {
            let base = self.base_type(&p.param_type, ns);
            let (name, ty, is_ref) = self.apply_declarator(base, &p.declarator)?;
            let mut mode = PassMode::In;
            for m in &p.param_type.modifiers.modifiers {
                match m.node {
                    ast::TypeModifier::Out => mode = PassMode::Out,
                    ast::TypeModifier::InOut => mode = PassMode::InOut,
                    _ => {}
                }
            }
            if is_ref {
                mode = PassMode::Ref;
            }
            params.push(ParamDef {
                name,
                type_name: qualified(&p.param_type.layout.0),
                ty,
                mode,
                default: p.default_expr.clone(),
            });
        }
        self.funcs.push(FuncDef {
            qname: format!("{}{}", ns, f.name.node),
            name: f.name.node.clone(),
            ret,
            params,
            body: body.clone(),
            owner,
            template_instance: !f.template_params.0.is_empty(),
        });
        Ok(Some(self.funcs.len() - 1))
    }

    /// Type named by an ast::Type (without declarator); unknown names give a Tag/unsupported later
    fn base_type(&self, ty: &ast::Type, ns: &str) -> CTy {
        let name = qualified(&ty.layout.0);
        if !ty.layout.1.is_empty() {
            // vector<float, 3>
            if last_name(&ty.layout.0) == "vector" && ty.layout.1.len() == 2 {
                if let (ast::ExpressionOrType::Type(t) | ast::ExpressionOrType::Either(_, t), ast::ExpressionOrType::Expression(n) | ast::ExpressionOrType::Either(n, _)) = (&ty.layout.1[0], &ty.layout.1[1]) {
                    if let (CTy::Num(k, 1, _), ast::Expression::Literal(ast::Literal::IntUntyped(n))) = (self.base_type(&t.base, ns), &n.node) {
                        return CTy::Num(k, *n as usize, true);
                    }
                }
            }
            return CTy::Tag;
        }
        self.named_type(&name, ns)
    }

    fn named_type(&self, name: &str, ns: &str) -> CTy {
        if name == "void" {
            return CTy::Void;
        }
        if let Some(t) = numeric_type_name(name) {
            return t;
        }
        // struct / enum: try the current namespace chain first
        let mut prefix = ns.to_string();
        loop {
            let q = format!("{}{}", prefix, name);
            if let Some(i) = self.structs.iter().position(|s| s.name == q) {
                return CTy::Struct(i);
            }
            if let Some(i) = self.enums.iter().position(|s| s.name == q) {
                return CTy::Enum(i);
            }
            if prefix.is_empty() {
                break;
            }
            // drop the last namespace component
            let trimmed = prefix.trim_end_matches("::");
            prefix = match trimmed.rfind("::") {
                Some(i) => trimmed[..i + 2].to_string(),
                None => String::new(),
            };
        }
        CTy::Tag
    }

    /// (name, type, is reference)
    fn apply_declarator(&self, base: CTy, d: &ast::Declarator) -> R<(Option<String>, CTy, bool)> {
        match d {
            ast::Declarator::Empty => Ok((None, base, false)),
            ast::Declarator::Identifier(id, _) => Ok((Some(last_name(id).to_string()), base, false)),
            ast::Declarator::Reference(r) => {
                let (n, t, _) = self.apply_declarator(base, &r.inner)?;
                Ok((n, t, true))
            }
            ast::Declarator::Array(a) => {
                let len = match &a.array_size {
                    Some(e) => match &e.node {
                        ast::Expression::Literal(ast::Literal::IntUntyped(v)) | ast::Expression::Literal(ast::Literal::IntUnsigned32(v)) => *v as usize,
                        _ => return unsup("array size expression"),
                    },
                    None => return unsup("unsized array"),
                };
                if len > 4096 {
                    return unsup("large array");
                }
                // C declarator: the innermost declarator is the outermost array dimension
                let (n, t, r) = self.apply_declarator(CTy::Array(Box::new(base), len), &a.inner)?;
                Ok((n, t, r))
            }
            ast::Declarator::Pointer(_) => unsup("pointer declarator"),
        }
    }

    fn undef(&self, ty: &CTy) -> R<Value> {
        Ok(match ty {
            CTy::Void | CTy::Tag => Value::Void,
            CTy::Num(k, n, v) => {
                if *v {
                    Value::V(vec![Scalar::Undef(*k); *n])
                } else {
                    Value::S(Scalar::Undef(*k))
                }
            }
            CTy::Struct(i) => {
                let mut f = Vec::new();
                for (_, t) in &self.structs[*i].fields {
                    f.push(self.undef(t)?);
                }
                Value::Struct(*i as u32, f)
            }
            CTy::Enum(_) => Value::S(Scalar::Undef(Kind::Int)),
            CTy::Array(inner, n) => Value::Array(vec![self.undef(inner)?; *n]),
        })
    }

    fn alloc(&mut self, v: Value, ty: CTy) -> usize {
        self.store.push(v);
        self.cell_types.push(ty);
        self.store.len() - 1
    }

    fn init_globals(&mut self, defs: &'a [ast::RootDefinition], ns: &str) -> R<()> {
        for d in defs {
            match d {
                ast::RootDefinition::GlobalVariable(g) => {
                    let base = self.base_type(&g.global_type, ns);
                    for def in &g.defs {
                        let (name, ty, _) = self.apply_declarator(base.clone(), &def.declarator)?;
                        let Some(name) = name else { continue };
                        if matches!(ty, CTy::Tag) {
                            continue; // resources etc.
                        }
                        self.ns_stack.push(ns.to_string());
                        let v = match &def.init {
                            Some(init) => self.initializer(init, &ty),
                            None => self.undef(&ty),
                        };
                        self.ns_stack.pop();
                        let v = match v {
                            Ok(v) => v,
                            Err(Trap::Unsupported(_)) => continue,
                            Err(e) => return Err(e),
                        };
                        let cell = self.alloc(v, ty.clone());
                        let q = format!("{}{}", ns, name);
                        self.globals.insert(q.clone(), (cell, ty));
                        self.global_order.push(q);
                    }
                }
                ast::RootDefinition::Namespace(name, inner) => {
                    let ns2 = format!("{}{}::", ns, name.node);
                    self.init_globals(inner, &ns2)?;
                }
                _ => {}
            }
        }
        Ok(())
    }

    pub fn global_value(&self, name: &str) -> Option<Value> {
        self.globals.get(name).map(|(c, _)| self.store[*c].clone())
    }

    pub fn global_names(&self) -> Vec<String> {
        self.global_order.clone()
    }

    /// Names and parameter shapes of callable free functions: (qualified name, index)
    pub fn free_functions(&self) -> Vec<(String, usize)> {
        self.funcs.iter().enumerate().filter(|(_, f)| f.owner.is_none()).map(|(i, f)| (f.qname.clone(), i)).collect()
    }

    /// Free functions that are not template instantiations (what a source level, non-template function can correspond to)
    pub fn plain_free_functions(&self) -> Vec<(String, usize)> {
        self.funcs.iter().enumerate().filter(|(_, f)| f.owner.is_none() && !f.template_instance).map(|(i, f)| (f.qname.clone(), i)).collect()
    }

    /// True if the function takes the `metal::true_type` tag that marks the inner function of an out/inout trampoline pair
    pub fn has_trampoline_tag(&self, f: usize) -> bool {
        self.funcs[f].params.iter().any(|p| p.type_name == "metal::true_type")
    }

    pub fn param_count(&self, f: usize) -> usize {
        self.funcs[f].params.len()
    }

    /// (name, is reference/out, type description) per parameter
    pub fn param_info(&self, f: usize) -> Vec<(Option<String>, bool, CTy)> {
        self.funcs[f].params.iter().map(|p| (p.name.clone(), p.mode != PassMode::In, p.ty.clone())).collect()
    }

    // ---------------------------------------------------------------------------------------------
    // conversions
    // ---------------------------------------------------------------------------------------------

    /// Implicit/explicit conversion of a value to a declared type with C rules
    pub fn convert_to(&self, v: Value, ty: &CTy) -> R<Value> {
        match ty {
            CTy::Void => Ok(Value::Void),
            CTy::Tag => Ok(v),
            CTy::Num(kind, n, is_vec) => {
                let lanes = match &v {
                    Value::Enum(_, x) => vec![Scalar::Int(*x as i32)],
                    other => other.lanes()?,
                };
                let lanes: Vec<Scalar> = if lanes.len() == *n {
                    lanes
                } else if lanes.len() == 1 {
                    vec![lanes[0]; *n]
                } else if lanes.len() > *n && self.dialect == Dialect::Hlsl {
                    lanes[..*n].to_vec()
                } else if lanes.len() > *n {
                    // C-style cast/construction from a longer vector is not valid MSL, but explicit truncating casts are generated
                    // as swizzles by correct exporters; accept truncation only through explicit casts (callers decide)
                    lanes[..*n].to_vec()
                } else {
                    return ill(format!("conversion of {} lanes to {} lanes", lanes.len(), n));
                };
                let mut out = Vec::with_capacity(*n);
                for l in lanes {
                    out.push(convert(&l, *kind)?);
                }
                Ok(Value::from_lanes(out, *is_vec))
            }
            CTy::Enum(i) => match v {
                Value::Enum(_, x) => Ok(Value::Enum(*i as u32, x)),
                other => {
                    let s = convert(&other.scalar()?, Kind::Int)?;
                    Ok(Value::Enum(*i as u32, s.as_f64()? as i64))
                }
            },
            CTy::Struct(i) => match v {
                Value::Struct(_, f) if f.len() == self.structs[*i].fields.len() => Ok(Value::Struct(*i as u32, f)),
                _ => ill("conversion to struct"),
            },
            CTy::Array(_, n) => match v {
                Value::Array(a) if a.len() == *n => Ok(Value::Array(a)),
                _ => ill("conversion to array"),
            },
        }
    }

    fn tick(&mut self) -> R<()> {
        self.steps += 1;
        if self.steps > self.max_steps {
            Err(Trap::Steps)
        } else {
            Ok(())
        }
    }

    // ---------------------------------------------------------------------------------------------
    // environment
    // ---------------------------------------------------------------------------------------------

    fn lookup(&self, name: &str) -> Option<(Binding, CTy)> {
        let base = *self.frame_bases.last().unwrap();
        for s in self.scopes[base..].iter().rev() {
            if let Some(b) = s.get(name) {
                return Some(b.clone());
            }
        }
        None
    }

    fn lookup_global(&self, qname: &str) -> Option<(usize, CTy)> {
        // try namespaces of the executing function from innermost outwards
        let ns = self.ns_stack.last().cloned().unwrap_or_default();
        let mut prefix = ns;
        loop {
            if let Some(g) = self.globals.get(&format!("{}{}", prefix, qname)) {
                return Some(g.clone());
            }
            if prefix.is_empty() {
                return None;
            }
            let trimmed = prefix.trim_end_matches("::");
            prefix = match trimmed.rfind("::") {
                Some(i) => trimmed[..i + 2].to_string(),
                None => String::new(),
            };
        }
    }

    fn declare(&mut self, name: &str, v: Value, ty: CTy) {
        let cell = self.alloc(v, ty.clone());
        self.scopes.last_mut().unwrap().insert(name.to_string(), (Binding::Cell(cell), ty));
    }

    fn place_root(&self, b: &Binding) -> Place {
        match b {
            Binding::Cell(c) => Place { cell: *c, path: Vec::new() },
            Binding::Ref(p) => p.clone(),
        }
    }

    fn load(&self, place: &Place) -> R<Value> {
        let mut cur = self.store[place.cell].clone();
        for p in &place.path {
            cur = match (p, cur) {
                (Proj::Field(i), Value::Struct(_, f)) => f.get(*i).cloned().ok_or(Trap::OutOfBounds)?,
                (Proj::Index(i), Value::Array(a)) => a.get(*i).cloned().ok_or(Trap::OutOfBounds)?,
                (Proj::Index(i), Value::V(l)) => Value::S(*l.get(*i).ok_or(Trap::OutOfBounds)?),
                (Proj::Index(0), Value::S(s)) => Value::S(s),
                (Proj::Swizzle(sw), v) => {
                    let lanes = v.lanes()?;
                    let mut out = Vec::new();
                    for i in sw {
                        out.push(*lanes.get(*i).ok_or(Trap::OutOfBounds)?);
                    }
                    if out.len() == 1 {
                        Value::S(out[0])
                    } else {
                        Value::V(out)
                    }
                }
                (p, v) => return ill(format!("projection {:?} on {}", p, v)),
            };
        }
        Ok(cur)
    }

    fn place_type(&self, place: &Place) -> CTy {
        let mut ty = self.cell_types[place.cell].clone();
        for p in &place.path {
            ty = match (p, ty) {
                (Proj::Field(i), CTy::Struct(s)) => self.structs[s].fields.get(*i).map(|f| f.1.clone()).unwrap_or(CTy::Tag),
                (Proj::Index(_), CTy::Array(inner, _)) => *inner,
                (Proj::Index(_), CTy::Num(k, _, _)) => CTy::Num(k, 1, false),
                (Proj::Swizzle(sw), CTy::Num(k, _, _)) => {
                    if sw.len() == 1 {
                        CTy::Num(k, 1, false)
                    } else {
                        CTy::Num(k, sw.len(), true)
                    }
                }
                _ => CTy::Tag,
            };
        }
        ty
    }

    fn store_to(&mut self, place: &Place, value: Value) -> R<()> {
        fn go(cur: &mut Value, path: &[Proj], value: Value) -> R<()> {
            let Some((p, rest)) = path.split_first() else {
                match (&*cur, &value) {
                    (Value::V(d), Value::S(s)) if d.len() == 1 => *cur = Value::V(vec![*s]),
                    (Value::S(_), Value::V(s)) if s.len() == 1 => *cur = Value::S(s[0]),
                    _ => *cur = value,
                }
                return Ok(());
            };
            match (p, cur) {
                (Proj::Field(i), Value::Struct(_, f)) => go(f.get_mut(*i).ok_or(Trap::OutOfBounds)?, rest, value),
                (Proj::Index(i), Value::Array(a)) => go(a.get_mut(*i).ok_or(Trap::OutOfBounds)?, rest, value),
                (Proj::Index(i), Value::V(l)) => {
                    let s = value.scalar()?;
                    *l.get_mut(*i).ok_or(Trap::OutOfBounds)? = s;
                    Ok(())
                }
                (Proj::Index(0), c @ Value::S(_)) => {
                    *c = Value::S(value.scalar()?);
                    Ok(())
                }
                (Proj::Swizzle(sw), c) => {
                    let src = value.lanes()?;
                    if src.len() != sw.len() {
                        return ill("swizzle store with wrong lane count");
                    }
                    match c {
                        Value::V(l) => {
                            for (k, i) in sw.iter().enumerate() {
                                *l.get_mut(*i).ok_or(Trap::OutOfBounds)? = src[k];
                            }
                        }
                        Value::S(s) => {
                            if sw.len() != 1 || sw[0] != 0 {
                                return Err(Trap::OutOfBounds);
                            }
                            *s = src[0];
                        }
                        other => return ill(format!("swizzle store into {}", other)),
                    }
                    Ok(())
                }
                (p, c) => ill(format!("store projection {:?} on {}", p, c)),
            }
        }
        // implicit conversion to the destination type (C assignment semantics)
        let ty = self.place_type(place);
        let value = match ty {
            CTy::Tag => value,
            ty => self.convert_to(value, &ty)?,
        };
        let path = place.path.clone();
        go(&mut self.store[place.cell], &path, value)
    }

    // ---------------------------------------------------------------------------------------------
    // expressions
    // ---------------------------------------------------------------------------------------------

    fn swizzle_of(name: &str) -> Option<Vec<usize>> {
        if name.is_empty() || name.len() > 4 {
            return None;
        }
        let xyzw: Option<Vec<usize>> = name.chars().map(|c| "xyzw".find(c)).collect();
        if xyzw.is_some() {
            return xyzw;
        }
        name.chars().map(|c| "rgba".find(c)).collect()
    }

    fn eval_place(&mut self, e: &ast::Expression) -> R<Place> {
        self.tick()?;
        match e {
            ast::Expression::Identifier(id) => {
                let name = last_name(id);
                if id.identifiers.len() == 1 {
                    if let Some((b, _)) = self.lookup(name) {
                        return Ok(self.place_root(&b));
                    }
                }
                if let Some((cell, _)) = self.lookup_global(&qualified(id)) {
                    return Ok(Place { cell, path: Vec::new() });
                }
                // rvalue identifiers (enum values): materialise
                let v = self.eval(e)?;
                let cell = self.alloc(v, CTy::Tag);
                Ok(Place { cell, path: Vec::new() })
            }
            ast::Expression::Member(obj, member) => {
                let mut p = self.eval_place(&obj.node)?;
                let name = last_name(member);
                match self.place_type(&p) {
                    CTy::Struct(si) => {
                        let Some(fi) = self.structs[si].fields.iter().position(|f| f.0 == name) else { return ill(format!("no member {} in struct {}", name, self.structs[si].name)) };
                        p.path.push(Proj::Field(fi));
                        Ok(p)
                    }
                    CTy::Num(..) | CTy::Tag => {
                        let Some(sw) = Self::swizzle_of(name) else { return ill(format!("member {} of a numeric value", name)) };
                        if let Some(Proj::Swizzle(prev)) = p.path.last().cloned() {
                            let mut composed = Vec::new();
                            for i in &sw {
                                composed.push(*prev.get(*i).ok_or(Trap::OutOfBounds)?);
                            }
                            p.path.pop();
                            p.path.push(Proj::Swizzle(composed));
                        } else {
                            p.path.push(Proj::Swizzle(sw));
                        }
                        Ok(p)
                    }
                    other => ill(format!("member access on {:?}", other)),
                }
            }
            ast::Expression::ArraySubscript(arr, index) => {
                let mut p = self.eval_place(&arr.node)?;
                let i = self.eval(&index.node)?;
                let i = match i.scalar()? {
                    Scalar::Int(v) if v >= 0 => v as usize,
                    Scalar::UInt(v) => v as usize,
                    Scalar::LitInt(v) if v >= 0 => v as usize,
                    Scalar::Undef(_) => return Err(Trap::Uninit),
                    _ => return Err(Trap::OutOfBounds),
                };
                let len = match self.load(&p)? {
                    Value::Array(a) => a.len(),
                    Value::V(l) => l.len(),
                    Value::S(_) => 1,
                    other => return ill(format!("subscript on {}", other)),
                };
                if i >= len {
                    return Err(Trap::OutOfBounds);
                }
                p.path.push(Proj::Index(i));
                Ok(p)
            }
            ast::Expression::BinaryOperation(op, a, b) if is_assignment(op) => {
                let (place, _) = self.assign(op, &a.node, &b.node)?;
                Ok(place)
            }
            ast::Expression::UnaryOperation(op @ (ast::UnaryOp::PrefixIncrement | ast::UnaryOp::PrefixDecrement), inner) => {
                let place = self.eval_place(&inner.node)?;
                let old = self.load(&place)?;
                let new = step_value(&old, matches!(op, ast::UnaryOp::PrefixIncrement))?;
                self.store_to(&place, new)?;
                Ok(place)
            }
            ast::Expression::BinaryOperation(ast::BinOp::Sequence, a, b) => {
                self.eval(&a.node)?;
                self.eval_place(&b.node)
            }
            other => {
                let v = self.eval(other)?;
                let cell = self.alloc(v, CTy::Tag);
                Ok(Place { cell, path: Vec::new() })
            }
        }
    }

    fn assign(&mut self, op: &ast::BinOp, lhs: &ast::Expression, rhs: &ast::Expression) -> R<(Place, Value)> {
        let place = self.eval_place(lhs)?;
        let r = self.eval(rhs)?;
        let new = if matches!(op, ast::BinOp::Assignment) {
            r
        } else {
            let old = self.load(&place)?;
            let bin = match op {
                ast::BinOp::SumAssignment => Bin::Add,
                ast::BinOp::DifferenceAssignment => Bin::Sub,
                ast::BinOp::ProductAssignment => Bin::Mul,
                ast::BinOp::QuotientAssignment => Bin::Div,
                ast::BinOp::RemainderAssignment => Bin::Mod,
                ast::BinOp::LeftShiftAssignment => Bin::Shl,
                ast::BinOp::RightShiftAssignment => Bin::Shr,
                ast::BinOp::BitwiseAndAssignment => Bin::And,
                ast::BinOp::BitwiseOrAssignment => Bin::Or,
                ast::BinOp::BitwiseXorAssignment => Bin::Xor,
                _ => return unsup("assignment operator"),
            };
            self.arith(bin, &old, &r)?
        };
        self.store_to(&place, new)?;
        let stored = self.load(&place)?;
        Ok((place, stored))
    }

    /// Usual arithmetic conversions + lane-wise operation
    fn arith(&self, op: Bin, a: &Value, b: &Value) -> R<Value> {
        let a = match a {
            Value::Enum(_, x) => Value::S(Scalar::Int(*x as i32)),
            o => o.clone(),
        };
        let b = match b {
            Value::Enum(_, x) => Value::S(Scalar::Int(*x as i32)),
            o => o.clone(),
        };
        let (mut al, mut bl) = (a.lanes()?, b.lanes()?);
        // dimensions: scalar splats; HLSL truncates the longer vector, MSL requires equal sizes
        if al.len() != bl.len() {
            if al.len() == 1 {
                al = vec![al[0]; bl.len()];
            } else if bl.len() == 1 {
                bl = vec![bl[0]; al.len()];
            } else if self.dialect == Dialect::Hlsl {
                let n = al.len().min(bl.len());
                al.truncate(n);
                bl.truncate(n);
            } else {
                return ill(format!("operator {} on vectors of size {} and {}", op.name(), al.len(), bl.len()));
            }
        }
        let is_vec = a.is_vector() || b.is_vector();
        let mut out = Vec::with_capacity(al.len());
        for (x, y) in al.iter().zip(&bl) {
            if x.is_undef() || y.is_undef() {
                return Err(Trap::Uninit);
            }
            let common = match op {
                // shifts: the result has the (promoted) type of the left operand
                Bin::Shl | Bin::Shr => promote(shift_left_kind(x.kind(), y.kind())),
                _ => common_kind(x.kind(), y.kind()),
            };
            if common == Kind::Bool && matches!(op, Bin::Add | Bin::Sub | Bin::Mul | Bin::Div | Bin::Mod | Bin::Shl | Bin::Shr) {
                // C promotes bool to int here, RSSL keeps bool: unspecified across the languages
                return Err(Trap::Unspecified("arithmetic on bool"));
            }
            let (cx, cy) = (convert(x, common)?, convert(y, common)?);
            out.push(binop(op, &cx, &cy)?);
        }
        Ok(Value::from_lanes(out, is_vec))
    }

    pub fn eval(&mut self, e: &ast::Expression) -> R<Value> {
        self.tick()?;
        match e {
            ast::Expression::Literal(l) => Ok(Value::S(match l {
                ast::Literal::Bool(b) => Scalar::Bool(*b),
                ast::Literal::IntUntyped(v) => Scalar::LitInt(*v as i128),
                ast::Literal::IntUnsigned32(v) => Scalar::UInt(*v as u32),
                ast::Literal::FloatUntyped(v) => Scalar::LitFloat(*v),
                ast::Literal::Float16(v) => Scalar::Half(round_f16(*v)),
                ast::Literal::Float32(v) => Scalar::Float(*v),
                ast::Literal::Float64(v) => Scalar::Double(*v),
                _ => return unsup("literal kind"),
            })),
            ast::Expression::Identifier(id) => {
                let name = last_name(id);
                if id.identifiers.len() == 1 {
                    if let Some((b, _)) = self.lookup(name) {
                        let p = self.place_root(&b);
                        return self.load(&p);
                    }
                }
                if let Some((cell, _)) = self.lookup_global(&qualified(id)) {
                    return Ok(self.store[cell].clone());
                }
                // enum value: E::A or A
                if let Some(v) = self.enum_value(id) {
                    return Ok(v);
                }
                // well known constants of the target languages
                match qualified(id).as_str() {
                    "INFINITY" => return Ok(Value::S(Scalar::Float(f32::INFINITY))),
                    "FLT_MAX" => return Ok(Value::S(Scalar::Float(f32::MAX))),
                    _ => {}
                }
                ill(format!("unknown identifier {}", qualified(id)))
            }
            ast::Expression::UnaryOperation(op, inner) => match op {
                ast::UnaryOp::PrefixIncrement | ast::UnaryOp::PrefixDecrement => {
                    let p = self.eval_place(e)?;
                    self.load(&p)
                }
                ast::UnaryOp::PostfixIncrement | ast::UnaryOp::PostfixDecrement => {
                    let place = self.eval_place(&inner.node)?;
                    let old = self.load(&place)?;
                    let new = step_value(&old, matches!(op, ast::UnaryOp::PostfixIncrement))?;
                    self.store_to(&place, new)?;
                    Ok(old)
                }
                ast::UnaryOp::Plus | ast::UnaryOp::Minus | ast::UnaryOp::LogicalNot | ast::UnaryOp::BitwiseNot => {
                    let v = self.eval(&inner.node)?;
                    let un = match op {
                        ast::UnaryOp::Plus => Un::Plus,
                        ast::UnaryOp::Minus => Un::Neg,
                        ast::UnaryOp::LogicalNot => Un::Not,
                        _ => Un::BitNot,
                    };
                    let lanes = match &v {
                        Value::Enum(_, x) => vec![Scalar::Int(*x as i32)],
                        o => o.lanes()?,
                    };
                    let mut out = Vec::new();
                    for l in lanes {
                        // integer promotion of bool for arithmetic operators is where C and RSSL differ: unspecified
                        out.push(unop(un, &l)?);
                    }
                    Ok(Value::from_lanes(out, v.is_vector()))
                }
                _ => unsup("pointer operator"),
            },
            ast::Expression::BinaryOperation(op, a, b) => {
                if is_assignment(op) {
                    let (_, v) = self.assign(op, &a.node, &b.node)?;
                    return Ok(v);
                }
                match op {
                    ast::BinOp::Sequence => {
                        self.eval(&a.node)?;
                        self.eval(&b.node)
                    }
                    ast::BinOp::BooleanAnd | ast::BinOp::BooleanOr => {
                        let av = self.eval(&a.node)?;
                        if av.is_vector() && av.lanes()?.len() > 1 {
                            return unsup("logical operator on vectors");
                        }
                        let at = av.scalar()?.truthy()?;
                        if matches!(op, ast::BinOp::BooleanAnd) {
                            if !at {
                                return Ok(Value::S(Scalar::Bool(false)));
                            }
                        } else if at {
                            return Ok(Value::S(Scalar::Bool(true)));
                        }
                        let bv = self.eval(&b.node)?;
                        Ok(Value::S(Scalar::Bool(bv.scalar()?.truthy()?)))
                    }
                    _ => {
                        let bin = match op {
                            ast::BinOp::Add => Bin::Add,
                            ast::BinOp::Subtract => Bin::Sub,
                            ast::BinOp::Multiply => Bin::Mul,
                            ast::BinOp::Divide => Bin::Div,
                            ast::BinOp::Modulus => Bin::Mod,
                            ast::BinOp::LeftShift => Bin::Shl,
                            ast::BinOp::RightShift => Bin::Shr,
                            ast::BinOp::BitwiseAnd => Bin::And,
                            ast::BinOp::BitwiseOr => Bin::Or,
                            ast::BinOp::BitwiseXor => Bin::Xor,
                            ast::BinOp::LessThan => Bin::Lt,
                            ast::BinOp::LessEqual => Bin::Le,
                            ast::BinOp::GreaterThan => Bin::Gt,
                            ast::BinOp::GreaterEqual => Bin::Ge,
                            ast::BinOp::Equality => Bin::Eq,
                            ast::BinOp::Inequality => Bin::Ne,
                            _ => return unsup("binary operator"),
                        };
                        let av = self.eval(&a.node)?;
                        let bv = self.eval(&b.node)?;
                        self.arith(bin, &av, &bv)
                    }
                }
            }
            ast::Expression::TernaryConditional(c, a, b) => {
                let cv = self.eval(&c.node)?;
                match &cv {
                    Value::V(l) if l.len() > 1 => {
                        let (av, bv) = (self.eval(&a.node)?, self.eval(&b.node)?);
                        let (al, bl) = (av.lanes()?, bv.lanes()?);
                        if al.len() != l.len() || bl.len() != l.len() {
                            return unsup("vector ternary with mixed sizes");
                        }
                        let mut out = Vec::new();
                        for i in 0..l.len() {
                            out.push(if l[i].truthy()? { al[i] } else { bl[i] });
                        }
                        Ok(Value::V(out))
                    }
                    other => {
                        let t = other.scalar()?.truthy()?;
                        let v = if t { self.eval(&a.node)? } else { self.eval(&b.node)? };
                        Ok(v)
                    }
                }
            }
            ast::Expression::ArraySubscript(..) | ast::Expression::Member(..) => {
                let p = self.eval_place(e)?;
                self.load(&p)
            }
            ast::Expression::Cast(ty, inner) => {
                let v = self.eval(&inner.node)?;
                let ns = self.ns_stack.last().cloned().unwrap_or_default();
                let base = self.base_type(&ty.base, &ns);
                let (_, t, _) = self.apply_declarator(base, &ty.abstract_declarator)?;
                if matches!(t, CTy::Tag) {
                    return unsup(format!("cast to {}", qualified(&ty.base.layout.0)));
                }
                self.convert_to(v, &t)
            }
            ast::Expression::Call(callee, targs, args) => self.call_expr(&callee.node, targs, args),
            ast::Expression::BracedInit(ty, items) => {
                // T { a, b, c }: aggregate initialisation; a flat list is distributed over the (nested) members in order
                // (brace elision), and the initialisers are evaluated in the order written, each exactly once
                let ns = self.ns_stack.last().cloned().unwrap_or_default();
                let base = self.base_type(&ty.base, &ns);
                let (_, t, _) = self.apply_declarator(base, &ty.abstract_declarator)?;
                if matches!(t, CTy::Tag) {
                    return unsup(format!("braced init of {}", qualified(&ty.base.layout.0)));
                }
                let mut pos = 0usize;
                let v = self.fill_flat(items, &mut pos, &t)?;
                if pos != items.len() {
                    return unsup("braced init with excess elements");
                }
                Ok(v)
            }
            ast::Expression::SizeOf(_) => unsup("sizeof"),
            ast::Expression::AmbiguousParseBranch(branches) => {
                // the parser could not decide without type information: take the branch whose required type names are types here
                for br in branches {
                    let ns = self.ns_stack.last().cloned().unwrap_or_default();
                    if br.expected_type_names.iter().all(|n| !matches!(self.named_type(&qualified(n), &ns), CTy::Tag)) {
                        return self.eval(&br.expr.node);
                    }
                }
                unsup("ambiguous parse branch")
            }
        }
    }

    fn enum_value(&self, id: &ast::ScopedIdentifier) -> Option<Value> {
        // C++ lookup of `P::Q::V` from the namespace of the executing function outwards: the path names either the enum itself
        // (`E::V`, `N::E::V`) or the scope that declares an unscoped enum (`V`, `N::V`)
        let name = last_name(id);
        let path: Vec<&str> = id.identifiers[..id.identifiers.len() - 1].iter().map(|i| i.node.as_str()).collect();
        let path = path.join("::");
        let ns = self.ns_stack.last().cloned().unwrap_or_default();
        let mut prefix = ns;
        loop {
            // candidate scope: prefix + path (prefix ends with :: or is empty)
            let scope = if path.is_empty() { prefix.trim_end_matches("::").to_string() } else { format!("{}{}", prefix, path) };
            for (ei, e) in self.enums.iter().enumerate() {
                let parent = match e.name.rfind("::") {
                    Some(i) => &e.name[..i],
                    None => "",
                };
                let names_enum = !path.is_empty() && e.name == scope;
                let names_enclosing_scope = parent == scope;
                if names_enum || names_enclosing_scope {
                    if let Some((_, v)) = e.values.iter().find(|(n, _)| n == name) {
                        return Some(Value::Enum(ei as u32, *v));
                    }
                }
            }
            if prefix.is_empty() {
                return None;
            }
            let trimmed = prefix.trim_end_matches("::");
            prefix = match trimmed.rfind("::") {
                Some(i) => trimmed[..i + 2].to_string(),
                None => String::new(),
            };
        }
    }

    // ---------------------------------------------------------------------------------------------
    // calls
    // ---------------------------------------------------------------------------------------------

    fn call_expr(&mut self, callee: &ast::Expression, targs: &[ast::ExpressionOrType], args: &[rssl::text::Located<ast::Expression>]) -> R<Value> {
        match callee {
            ast::Expression::Member(obj, method) => {
                // method call on a struct object
                let place = self.eval_place(&obj.node)?;
                let CTy::Struct(si) = self.place_type(&place) else { return unsup("method call on a non struct value") };
                let name = last_name(method);
                let candidates: Vec<usize> = self.structs[si].methods.iter().cloned().filter(|f| self.funcs[*f].name == name).collect();
                self.call_user(&candidates, args, Some(place), name)
            }
            ast::Expression::Identifier(id) => {
                let q = qualified(id);
                let name = last_name(id).to_string();
                // constructor of a numeric type: float3(...)
                if id.identifiers.len() == 1 {
                    if let Some(CTy::Num(kind, n, is_vec)) = numeric_type_name(&name) {
                        return self.construct(kind, n, is_vec, args);
                    }
                }
                // tag constructor
                if q == "metal::true_type" || q == "metal::false_type" {
                    return Ok(Value::Void);
                }
                // user functions: same namespace first, then outer ones
                let candidates = self.resolve_functions(&q);
                if !candidates.is_empty() {
                    // the exporters print an instantiation as `template<typename> R f(...)`: its template parameters are unnamed
                    // and appear in no function parameter, so a call without explicit template arguments cannot be resolved
                    if targs.is_empty() && candidates.iter().all(|f| self.funcs[*f].template_instance) {
                        return ill(format!("call to {} without template arguments: every candidate is a template whose parameters cannot be deduced", q));
                    }
                    return self.call_user(&candidates, args, None, &q);
                }
                // a method called from inside a method
                if id.identifiers.len() == 1 {
                    if let Some((Binding::Ref(this), CTy::Struct(si))) = self.lookup("\u{1}this") {
                        let c: Vec<usize> = self.structs[si].methods.iter().cloned().filter(|f| self.funcs[*f].name == name).collect();
                        if !c.is_empty() {
                            return self.call_user(&c, args, Some(this), &name);
                        }
                    }
                }
                self.builtin(&q, targs, args)
            }
            _ => unsup("call of a computed callee"),
        }
    }

    fn resolve_functions(&self, q: &str) -> Vec<usize> {
        let ns = self.ns_stack.last().cloned().unwrap_or_default();
        let mut prefix = ns;
        loop {
            let full = format!("{}{}", prefix, q);
            let c: Vec<usize> = self.funcs.iter().enumerate().filter(|(_, f)| f.owner.is_none() && f.qname == full).map(|(i, _)| i).collect();
            if !c.is_empty() {
                return c;
            }
            if prefix.is_empty() {
                return Vec::new();
            }
            let trimmed = prefix.trim_end_matches("::");
            prefix = match trimmed.rfind("::") {
                Some(i) => trimmed[..i + 2].to_string(),
                None => String::new(),
            };
        }
    }

    fn construct(&mut self, kind: Kind, n: usize, is_vec: bool, args: &[rssl::text::Located<ast::Expression>]) -> R<Value> {
        let mut lanes = Vec::new();
        for a in args {
            let v = self.eval(&a.node)?;
            let l = match &v {
                Value::Enum(_, x) => vec![Scalar::Int(*x as i32)],
                o => o.lanes()?,
            };
            lanes.extend(l);
        }
        if lanes.len() == 1 && n > 1 {
            lanes = vec![lanes[0]; n];
        }
        if lanes.len() != n {
            return ill(format!("constructor of a {}-vector given {} components", n, lanes.len()));
        }
        let mut out = Vec::new();
        for l in lanes {
            out.push(convert(&l, kind)?);
        }
        Ok(Value::from_lanes(out, is_vec))
    }

    fn value_matches(&self, v: &Value, ty: &CTy) -> bool {
        match (v, ty) {
            (Value::S(s), CTy::Num(k, 1, _)) => s.kind() == *k,
            (Value::V(l), CTy::Num(k, n, _)) => l.len() == *n && l.iter().all(|s| s.kind() == *k),
            (Value::Struct(i, _), CTy::Struct(j)) => *i as usize == *j,
            (Value::Enum(i, _), CTy::Enum(j)) => *i as usize == *j,
            (Value::Array(a), CTy::Array(_, n)) => a.len() == *n,
            (Value::Void, CTy::Tag) => true,
            _ => false,
        }
    }

    fn call_user(&mut self, candidates: &[usize], args: &[rssl::text::Located<ast::Expression>], this: Option<Place>, what: &str) -> R<Value> {
        // candidates by arity (defaults allowed)
        let viable: Vec<usize> = candidates
            .iter()
            .cloned()
            .filter(|f| {
                let ps = &self.funcs[*f].params;
                args.len() <= ps.len() && ps[args.len()..].iter().all(|p| p.default.is_some())
            })
            .collect();
        if viable.is_empty() {
            return ill(format!("no overload of {} takes {} arguments", what, args.len()));
        }
        // evaluate arguments once: values for in parameters, places for everything that may be bound by reference
        enum Arg {
            Place(Place),
            Value(Value),
        }
        let need_place: Vec<bool> = (0..args.len()).map(|i| viable.iter().any(|f| self.funcs[*f].params[i].mode != PassMode::In)).collect();
        // (Metal / C++: an array parameter aliases an lvalue argument)
        let decays: Vec<bool> = (0..args.len()).map(|i| self.dialect == Dialect::Msl && viable.iter().any(|f| matches!(self.funcs[*f].params[i].ty, CTy::Array(..)) && self.funcs[*f].params[i].mode == PassMode::In)).collect();
        let mut evaluated = Vec::new();
        for (i, a) in args.iter().enumerate() {
            if decays[i] && !need_place[i] && matches!(a.node, ast::Expression::Identifier(_) | ast::Expression::Member(..) | ast::Expression::ArraySubscript(..)) {
                evaluated.push(Arg::Place(self.eval_place(&a.node)?));
            } else if need_place[i] {
                evaluated.push(Arg::Place(self.eval_place(&a.node)?));
            } else {
                evaluated.push(Arg::Value(self.eval(&a.node)?));
            }
        }
        // choose: exact dynamic type match on every argument, otherwise the only viable candidate
        let chosen = if viable.len() == 1 {
            viable[0]
        } else {
            let mut exact = Vec::new();
            for f in &viable {
                let mut ok = true;
                for (i, a) in evaluated.iter().enumerate() {
                    let p = &self.funcs[*f].params[i];
                    let v = match a {
                        Arg::Value(v) => v.clone(),
                        Arg::Place(pl) => match self.load(pl) {
                            Ok(v) => v,
                            Err(_) => continue,
                        },
                    };
                    if !self.value_matches(&v, &p.ty) && !v.has_undef() {
                        ok = false;
                        break;
                    }
                }
                if ok {
                    exact.push(*f);
                }
            }
            if exact.len() == 1 {
                exact[0]
            } else {
                return unsup(format!("overload choice for {} needs conversion ranking", what));
            }
        };
        let f = self.funcs[chosen].clone();
        if self.depth >= 48 {
            return Err(Trap::Depth);
        }
        // bind parameters
        let mut scope: HashMap<String, (Binding, CTy)> = HashMap::new();
        let mut copy_out: Vec<(Place, usize)> = Vec::new();
        for (i, p) in f.params.iter().enumerate() {
            let binding = if i < evaluated.len() {
                match (&evaluated[i], p.mode) {
                    (Arg::Value(v), PassMode::In) => {
                        let v = self.convert_to(v.clone(), &p.ty)?;
                        Binding::Cell(self.alloc(v, p.ty.clone()))
                    }
                    (Arg::Place(pl), PassMode::In) if self.dialect == Dialect::Msl && matches!(p.ty, CTy::Array(..)) && self.place_type(pl) == p.ty => {
                        // C++: a parameter declared as an array is a pointer to the caller's array, not a copy of it
                        Binding::Ref(pl.clone())
                    }
                    (Arg::Place(pl), PassMode::In) => {
                        let v = self.load(pl)?;
                        let v = self.convert_to(v, &p.ty)?;
                        Binding::Cell(self.alloc(v, p.ty.clone()))
                    }
                    (Arg::Place(pl), PassMode::Ref) => {
                        // a reference binds to an lvalue of exactly the parameter's type
                        let have = self.place_type(pl);
                        if have != p.ty && !matches!(have, CTy::Tag) {
                            return ill(format!("reference parameter of type {:?} bound to an lvalue of type {:?} in call to {}", p.ty, have, what));
                        }
                        if matches!(have, CTy::Tag) {
                            return ill(format!("reference parameter bound to a temporary in call to {}", what));
                        }
                        Binding::Ref(pl.clone())
                    }
                    (Arg::Place(pl), PassMode::InOut) => {
                        let v = self.load(pl)?;
                        let v = self.convert_to(v, &p.ty)?;
                        let cell = self.alloc(v, p.ty.clone());
                        copy_out.push((pl.clone(), cell));
                        Binding::Cell(cell)
                    }
                    (Arg::Place(pl), PassMode::Out) => {
                        let v = self.undef(&p.ty)?;
                        let cell = self.alloc(v, p.ty.clone());
                        copy_out.push((pl.clone(), cell));
                        Binding::Cell(cell)
                    }
                    (Arg::Value(_), _) => return ill("value passed where storage is needed"),
                }
            } else {
                let d = p.default.clone().unwrap();
                // defaults are evaluated without access to the caller's locals
                self.frame_bases.push(self.scopes.len());
                self.scopes.push(HashMap::new());
                let v = self.eval(&d);
                self.scopes.pop();
                self.frame_bases.pop();
                let v = self.convert_to(v?, &p.ty)?;
                Binding::Cell(self.alloc(v, p.ty.clone()))
            };
            if let Some(n) = &p.name {
                scope.insert(n.clone(), (binding, p.ty.clone()));
            }
        }
        // method: members of the object are visible by name
        let owner = f.owner;
        if let (Some(si), Some(this)) = (owner, &this) {
            for (fi, (fname, fty)) in self.structs[si].fields.clone().iter().enumerate() {
                let mut p = this.clone();
                p.path.push(Proj::Field(fi));
                scope.entry(fname.clone()).or_insert((Binding::Ref(p), fty.clone()));
            }
            scope.insert("\u{1}this".to_string(), (Binding::Ref(this.clone()), CTy::Struct(si)));
        }
        let ns = match f.qname.rfind("::") {
            Some(i) if f.owner.is_none() => f.qname[..i + 2].to_string(),
            _ => self.ns_stack.last().cloned().unwrap_or_default(),
        };
        self.depth += 1;
        self.frame_bases.push(self.scopes.len());
        self.scopes.push(scope);
        self.ns_stack.push(ns);
        let flow = self.statements(&f.body);
        self.ns_stack.pop();
        self.scopes.truncate(*self.frame_bases.last().unwrap());
        self.frame_bases.pop();
        self.depth -= 1;
        let ret = match flow? {
            Flow::Return(v) => self.convert_to(v, &f.ret)?,
            _ => {
                if matches!(f.ret, CTy::Void) {
                    Value::Void
                } else {
                    return Err(Trap::Uninit);
                }
            }
        };
        for (place, cell) in copy_out {
            let v = self.store[cell].clone();
            self.store_to(&place, v)?;
        }
        Ok(ret)
    }

    /// Entry point for the monitors: call free function `f` with one value per parameter (ignored for `out`).
    /// Reference parameters are bound to fresh storage initialised from the value and reported back like out parameters.
    pub fn call_function(&mut self, f: usize, args: &[Value]) -> R<CallOutcome> {
        let def = self.funcs[f].clone();
        if args.len() != def.params.len() {
            return ill("argument count");
        }
        let mut scope: HashMap<String, (Binding, CTy)> = HashMap::new();
        let mut cells = Vec::new();
        for (p, a) in def.params.iter().zip(args) {
            let v = match p.mode {
                PassMode::Out => self.undef(&p.ty)?,
                _ => self.convert_to(a.clone(), &p.ty)?,
            };
            let cell = self.alloc(v, p.ty.clone());
            cells.push(cell);
            if let Some(n) = &p.name {
                let b = if p.mode == PassMode::Ref { Binding::Ref(Place { cell, path: Vec::new() }) } else { Binding::Cell(cell) };
                scope.insert(n.clone(), (b, p.ty.clone()));
            }
        }
        let ns = match def.qname.rfind("::") {
            Some(i) => def.qname[..i + 2].to_string(),
            None => String::new(),
        };
        self.depth = 1;
        self.frame_bases.push(self.scopes.len());
        self.scopes.push(scope);
        self.ns_stack.push(ns);
        let flow = self.statements(&def.body);
        self.ns_stack.pop();
        self.scopes.truncate(*self.frame_bases.last().unwrap());
        self.frame_bases.pop();
        self.depth = 0;
        let ret = match flow? {
            Flow::Return(v) => self.convert_to(v, &def.ret)?,
            _ => {
                if matches!(def.ret, CTy::Void) {
                    Value::Void
                } else {
                    return Err(Trap::Uninit);
                }
            }
        };
        let mut outs = Vec::new();
        for (i, p) in def.params.iter().enumerate() {
            if p.mode != PassMode::In {
                outs.push((i, self.store[cells[i]].clone()));
            }
        }
        Ok(CallOutcome { ret, outs })
    }

    // ---------------------------------------------------------------------------------------------
    // builtins
    // ---------------------------------------------------------------------------------------------

    fn builtin(&mut self, q: &str, targs: &[ast::ExpressionOrType], args: &[rssl::text::Located<ast::Expression>]) -> R<Value> {
        let mut vals = Vec::new();
        for a in args {
            let v = self.eval(&a.node)?;
            vals.push(match v {
                Value::Enum(_, x) => Value::S(Scalar::Int(x as i32)),
                o => o,
            });
        }
        // an untyped literal argument next to typed arguments is converted to their kind by overload resolution in both
        // languages (min(i, 3) -> min(int, int)); only done when all typed arguments agree on one kind
        {
            let mut typed: Option<Kind> = None;
            let mut consistent = true;
            let mut any_literal = false;
            for v in &vals {
                if let Ok(lanes) = v.lanes() {
                    for l in lanes {
                        match l.kind() {
                            Kind::LitInt | Kind::LitFloat => any_literal = true,
                            k => match typed {
                                None => typed = Some(k),
                                Some(t) if t != k => consistent = false,
                                _ => {}
                            },
                        }
                    }
                }
            }
            if let (true, true, Some(k)) = (any_literal, consistent, typed) {
                let mut converted = Vec::new();
                for v in &vals {
                    match v.lanes() {
                        Ok(lanes) => {
                            let mut out = Vec::new();
                            for l in lanes {
                                out.push(if matches!(l.kind(), Kind::LitInt | Kind::LitFloat) && !l.is_undef() { convert(&l, k)? } else { l });
                            }
                            converted.push(Value::from_lanes(out, v.is_vector()));
                        }
                        Err(_) => converted.push(v.clone()),
                    }
                }
                vals = converted;
            }
        }
        let name = match self.dialect {
            Dialect::Msl => match q.strip_prefix("metal::") {
                Some(n) => n.to_string(),
                None => {
                    if q == "as_type" {
                        "as_type".to_string()
                    } else {
                        return unsup(format!("builtin {}", q));
                    }
                }
            },
            Dialect::Hlsl => q.to_string(),
        };
        let m = |op: Math, vals: &[Value]| -> R<Value> {
            // implicit conversions to a common kind like any overloaded builtin call would do are NOT applied:
            // the exporters make conversions explicit, mixed kinds are reported by the kernels
            super::irexec::apply_math(op, vals)
        };
        let hlsl = self.dialect == Dialect::Hlsl;
        let r = match (name.as_str(), hlsl) {
            ("abs", _) => m(Math::Abs, &vals)?,
            ("min", _) => m(Math::Min, &vals)?,
            ("max", _) => m(Math::Max, &vals)?,
            ("clamp", _) => m(Math::Clamp, &vals)?,
            ("saturate", _) => m(Math::Saturate, &vals)?,
            ("floor", _) => m(Math::Floor, &vals)?,
            ("ceil", _) => m(Math::Ceil, &vals)?,
            ("trunc", _) => m(Math::Trunc, &vals)?,
            ("frac", true) | ("fract", false) => m(Math::Frac, &vals)?,
            ("sqrt", _) => m(Math::Sqrt, &vals)?,
            ("rsqrt", _) => m(Math::Rsqrt, &vals)?,
            ("rcp", true) => m(Math::Rcp, &vals)?,
            ("step", _) => m(Math::Step, &vals)?,
            ("lerp", true) | ("mix", false) => m(Math::Lerp, &vals)?,
            ("exp2", _) => m(Math::Exp2, &vals)?,
            ("log2", _) => m(Math::Log2, &vals)?,
            ("sin", _) => m(Math::Sin, &vals)?,
            ("cos", _) => m(Math::Cos, &vals)?,
            ("pow", _) => m(Math::Pow, &vals)?,
            ("fmod", _) => m(Math::Fmod, &vals)?,
            ("isnan", _) => m(Math::IsNan, &vals)?,
            ("isinf", _) => m(Math::IsInf, &vals)?,
            // the HLSL documents disagree on whether the bit intrinsics return uint or the operand type for signed operands
            // (RSSL declares the operand type): a sample whose later arithmetic could depend on it is not judged
            ("countbits" | "reversebits" | "firstbitlow" | "firstbithigh", true) if matches!(vals[0].lanes()?[0].kind(), Kind::Int) => {
                return unsup("bit intrinsic on a signed operand (result signedness is not settled across HLSL references)");
            }
            ("countbits", true) | ("popcount", false) => {
                let r = m(Math::CountBits, &vals)?;
                if hlsl {
                    r
                } else {
                    // metal::popcount returns the operand type
                    let kind = vals[0].lanes()?[0].kind();
                    let lanes: R<Vec<Scalar>> = r.lanes()?.iter().map(|s| convert(s, kind)).collect();
                    Value::from_lanes(lanes?, r.is_vector())
                }
            }
            ("reversebits", true) | ("reverse_bits", false) => {
                let r = m(Math::ReverseBits, &vals)?;
                if hlsl {
                    r
                } else {
                    let kind = vals[0].lanes()?[0].kind();
                    let lanes: R<Vec<Scalar>> = r.lanes()?.iter().map(|s| convert(s, kind)).collect();
                    Value::from_lanes(lanes?, r.is_vector())
                }
            }
            // metal::ctz / metal::clz: the operand type; the width of the type (32) when no bit is set
            ("ctz" | "clz", false) => {
                let low = name == "ctz";
                let lanes: R<Vec<Scalar>> = vals[0]
                    .lanes()?
                    .iter()
                    .map(|s| match s {
                        Scalar::UInt(v) => Ok(Scalar::UInt(if low { v.trailing_zeros() } else { v.leading_zeros() })),
                        Scalar::Int(v) => Ok(Scalar::Int(if low { v.trailing_zeros() } else { v.leading_zeros() } as i32)),
                        Scalar::Undef(_) => Err(Trap::Unspecified("bit scan of a value that was never written".into())),
                        _ => unsup("metal bit scan on a non 32 bit integer operand"),
                    })
                    .collect();
                Value::from_lanes(lanes?, vals[0].is_vector())
            }
            ("firstbitlow", true) => m(Math::FirstBitLow, &vals)?,
            ("firstbithigh", true) => m(Math::FirstBitHigh, &vals)?,
            ("sign", _) => {
                let r = m(Math::Sign, &vals)?;
                if hlsl {
                    r // int
                } else {
                    // metal::sign returns the floating point type of its argument
                    let kind = vals[0].lanes()?[0].kind();
                    let lanes: R<Vec<Scalar>> = r.lanes()?.iter().map(|s| convert(s, kind)).collect();
                    Value::from_lanes(lanes?, r.is_vector())
                }
            }
            ("dot", _) => super::irexec::dot(&vals[0], &vals[1])?,
            ("cross", _) => super::irexec::cross(&vals[0], &vals[1])?,
            ("any", _) | ("all", _) => {
                let lanes = vals[0].lanes()?;
                let mut acc = name == "all";
                for l in lanes {
                    let t = l.truthy()?;
                    if name == "all" {
                        acc &= t;
                    } else {
                        acc |= t;
                    }
                }
                Value::S(Scalar::Bool(acc))
            }
            ("select", _) => {
                // HLSL: select(cond, if_true, if_false); Metal: select(if_false, if_true, cond)
                let (c, a, b) = if hlsl { (&vals[0], &vals[1], &vals[2]) } else { (&vals[2], &vals[1], &vals[0]) };
                let cl = c.lanes()?;
                let (al, bl) = (a.lanes()?, b.lanes()?);
                if al.len() != cl.len() || bl.len() != cl.len() {
                    return unsup("select with mixed sizes");
                }
                if !hlsl && cl.iter().any(|s| s.kind() != Kind::Bool) {
                    return ill("metal::select needs a bool condition as its third argument");
                }
                let mut out = Vec::new();
                for i in 0..cl.len() {
                    out.push(if cl[i].truthy()? { al[i] } else { bl[i] });
                }
                Value::from_lanes(out, a.is_vector())
            }
            ("asint", true) | ("asuint", true) | ("asfloat", true) | ("as_type", false) => {
                let target = if hlsl {
                    match name.as_str() {
                        "asint" => Kind::Int,
                        "asuint" => Kind::UInt,
                        _ => Kind::Float,
                    }
                } else {
                    let ns = self.ns_stack.last().cloned().unwrap_or_default();
                    match targs.first() {
                        Some(ast::ExpressionOrType::Type(t)) | Some(ast::ExpressionOrType::Either(_, t)) => match self.base_type(&t.base, &ns) {
                            CTy::Num(k, _, _) => k,
                            _ => return unsup("as_type target"),
                        },
                        _ => return unsup("as_type without type argument"),
                    }
                };
                let lanes = vals[0].lanes()?;
                let mut out = Vec::new();
                for l in lanes {
                    let bits: u32 = match l {
                        Scalar::Int(v) => v as u32,
                        Scalar::UInt(v) => v,
                        Scalar::Float(v) => v.to_bits(),
                        Scalar::Undef(_) => return Err(Trap::Uninit),
                        _ => return unsup("bit cast of this type"),
                    };
                    out.push(match target {
                        Kind::Int => Scalar::Int(bits as i32),
                        Kind::UInt => Scalar::UInt(bits),
                        Kind::Float => {
                            let f = f32::from_bits(bits);
                            if f.is_nan() {
                                return Err(Trap::Unspecified("asfloat producing NaN"));
                            }
                            Scalar::Float(f)
                        }
                        _ => return unsup("bit cast target"),
                    });
                }
                Value::from_lanes(out, vals[0].is_vector())
            }
            _ => return unsup(format!("builtin {}", q)),
        };
        Ok(r)
    }

    // ---------------------------------------------------------------------------------------------
    // statements
    // ---------------------------------------------------------------------------------------------

    fn initializer(&mut self, init: &ast::Initializer, ty: &CTy) -> R<Value> {
        match init {
            ast::Initializer::Expression(e) => {
                let v = self.eval(&e.node)?;
                self.convert_to(v, ty)
            }
            ast::Initializer::Aggregate(items) => match ty {
                CTy::Array(inner, n) => {
                    if items.len() != *n {
                        return unsup("aggregate with different length");
                    }
                    let mut out = Vec::new();
                    for it in items {
                        out.push(self.initializer(it, inner)?);
                    }
                    Ok(Value::Array(out))
                }
                CTy::Struct(si) => {
                    let fields = self.structs[*si].fields.clone();
                    if items.len() != fields.len() {
                        return unsup("aggregate with different member count");
                    }
                    let mut out = Vec::new();
                    for (it, (_, fty)) in items.iter().zip(&fields) {
                        out.push(self.initializer(it, fty)?);
                    }
                    Ok(Value::Struct(*si as u32, out))
                }
                CTy::Num(k, n, true) => {
                    if items.len() != *n {
                        return unsup("aggregate for vector with different length");
                    }
                    let mut lanes = Vec::new();
                    for it in items {
                        lanes.push(self.initializer(it, &CTy::Num(*k, 1, false))?.scalar()?);
                    }
                    Ok(Value::V(lanes))
                }
                CTy::Num(_, 1, false) if items.len() == 1 => self.initializer(&items[0], ty),
                _ => unsup("aggregate initialiser for this type"),
            },
            ast::Initializer::StaticSampler(_) => unsup("static sampler"),
        }
    }

    fn fill_flat(&mut self, items: &[ast::Initializer], pos: &mut usize, ty: &CTy) -> R<Value> {
        // a nested brace group initialises the whole sub-object
        if let Some(ast::Initializer::Aggregate(_)) = items.get(*pos) {
            let it = &items[*pos];
            *pos += 1;
            return self.initializer(it, ty);
        }
        match ty {
            CTy::Array(inner, n) => {
                let mut out = Vec::new();
                for _ in 0..*n {
                    out.push(self.fill_flat(items, pos, inner)?);
                }
                Ok(Value::Array(out))
            }
            CTy::Struct(si) => {
                let fields = self.structs[*si].fields.clone();
                let mut out = Vec::new();
                for (_, fty) in &fields {
                    out.push(self.fill_flat(items, pos, fty)?);
                }
                Ok(Value::Struct(*si as u32, out))
            }
            _ => {
                let Some(it) = items.get(*pos) else { return unsup("braced init with too few elements") };
                *pos += 1;
                self.initializer(it, ty)
            }
        }
    }

    fn vardef(&mut self, def: &ast::VarDef) -> R<()> {
        let ns = self.ns_stack.last().cloned().unwrap_or_default();
        let base = self.base_type(&def.local_type, &ns);
        let is_static = def.local_type.modifiers.modifiers.iter().any(|m| m.node == ast::TypeModifier::Static);
        if is_static {
            return unsup("static local");
        }
        for d in &def.defs {
            let (name, ty, is_ref) = self.apply_declarator(base.clone(), &d.declarator)?;
            let Some(name) = name else { return unsup("unnamed local") };
            if is_ref {
                return unsup("local reference");
            }
            if matches!(ty, CTy::Tag) {
                return unsup(format!("local of type {}", qualified(&def.local_type.layout.0)));
            }
            let v = match &d.init {
                Some(init) => {
                    // the C++ point of declaration: the name is in scope in its own initialiser, where it hides an outer
                    // entity of the same name and holds an indeterminate value
                    if let Ok(u) = self.undef(&ty) {
                        self.declare(&name, u, ty.clone());
                    }
                    self.initializer(init, &ty)?
                }
                None => self.undef(&ty)?,
            };
            self.declare(&name, v, ty);
        }
        Ok(())
    }

    fn cond(&mut self, e: &ast::Expression) -> R<bool> {
        let v = self.eval(e)?;
        match v {
            Value::Enum(_, x) => Ok(x != 0),
            o => o.scalar()?.truthy(),
        }
    }

    fn statements(&mut self, list: &[ast::Statement]) -> R<Flow> {
        for s in list {
            match self.statement(s)? {
                Flow::Normal => {}
                other => return Ok(other),
            }
        }
        Ok(Flow::Normal)
    }

    fn scoped<T>(&mut self, f: impl FnOnce(&mut Self) -> R<T>) -> R<T> {
        self.scopes.push(HashMap::new());
        let r = f(self);
        self.scopes.pop();
        r
    }

    fn statement(&mut self, s: &ast::Statement) -> R<Flow> {
        self.tick()?;
        match &s.kind {
            ast::StatementKind::Empty => Ok(Flow::Normal),
            ast::StatementKind::Expression(e) => {
                self.eval(e)?;
                Ok(Flow::Normal)
            }
            ast::StatementKind::Var(def) => {
                self.vardef(def)?;
                Ok(Flow::Normal)
            }
            ast::StatementKind::AmbiguousDeclarationOrExpression(def, expr) => {
                // a declaration if the type name is a type here
                let ns = self.ns_stack.last().cloned().unwrap_or_default();
                if !matches!(self.base_type(&def.local_type, &ns), CTy::Tag) {
                    self.vardef(def)?;
                } else {
                    self.eval(expr)?;
                }
                Ok(Flow::Normal)
            }
            ast::StatementKind::Block(list) => self.scoped(|s| s.statements(list)),
            ast::StatementKind::If(c, body) => {
                if self.cond(&c.node)? {
                    self.scoped(|s| s.statement(body))
                } else {
                    Ok(Flow::Normal)
                }
            }
            ast::StatementKind::IfElse(c, a, b) => {
                if self.cond(&c.node)? {
                    self.scoped(|s| s.statement(a))
                } else {
                    self.scoped(|s| s.statement(b))
                }
            }
            ast::StatementKind::For(init, cond, inc, body) => self.scoped(|s| {
                match init {
                    ast::InitStatement::Empty => {}
                    ast::InitStatement::Expression(e) => {
                        s.eval(&e.node)?;
                    }
                    ast::InitStatement::Declaration(d) => s.vardef(d)?,
                }
                loop {
                    s.tick()?;
                    if let Some(c) = cond {
                        if !s.cond(&c.node)? {
                            break;
                        }
                    }
                    match s.scoped(|s2| s2.statement(body))? {
                        Flow::Break => break,
                        Flow::Normal | Flow::Continue => {}
                        other => return Ok(other),
                    }
                    if let Some(i) = inc {
                        s.eval(&i.node)?;
                    }
                }
                Ok(Flow::Normal)
            }),
            ast::StatementKind::While(c, body) => {
                loop {
                    self.tick()?;
                    if !self.cond(&c.node)? {
                        break;
                    }
                    match self.scoped(|s| s.statement(body))? {
                        Flow::Break => break,
                        Flow::Normal | Flow::Continue => {}
                        other => return Ok(other),
                    }
                }
                Ok(Flow::Normal)
            }
            ast::StatementKind::DoWhile(body, c) => {
                loop {
                    self.tick()?;
                    match self.scoped(|s| s.statement(body))? {
                        Flow::Break => break,
                        Flow::Normal | Flow::Continue => {}
                        other => return Ok(other),
                    }
                    if !self.cond(&c.node)? {
                        break;
                    }
                }
                Ok(Flow::Normal)
            }
            ast::StatementKind::Switch(e, body) => {
                let v = self.eval(&e.node)?;
                let key: i128 = match v {
                    Value::Enum(_, x) => x as i128,
                    o => match o.scalar()? {
                        Scalar::Int(x) => x as i128,
                        Scalar::UInt(x) => x as i128,
                        Scalar::LitInt(x) => x,
                        Scalar::Bool(b) => b as i128,
                        Scalar::Undef(_) => return Err(Trap::Uninit),
                        _ => return ill("switch on non integer"),
                    },
                };
                let list: &[ast::Statement] = match &body.kind {
                    ast::StatementKind::Block(l) => l,
                    _ => return unsup("switch body that is not a block"),
                };
                // flatten labels: (statement index, label)
                let mut start = None;
                let mut default = None;
                for (i, st) in list.iter().enumerate() {
                    let mut cur = st;
                    loop {
                        match &cur.kind {
                            ast::StatementKind::CaseLabel(val, next) => {
                                let cv = self.eval(&val.node)?;
                                let cv: i128 = match cv {
                                    Value::Enum(_, x) => x as i128,
                                    o => convert(&o.scalar()?, Kind::LitInt)?.as_f64()? as i128,
                                };
                                if cv == key && start.is_none() {
                                    start = Some(i);
                                }
                                cur = next;
                            }
                            ast::StatementKind::DefaultLabel(next) => {
                                if default.is_none() {
                                    default = Some(i);
                                }
                                cur = next;
                            }
                            _ => break,
                        }
                    }
                }
                let Some(start) = start.or(default) else { return Ok(Flow::Normal) };
                self.scoped(|s| {
                    for st in &list[start..] {
                        // strip labels
                        let mut cur = st;
                        loop {
                            match &cur.kind {
                                ast::StatementKind::CaseLabel(_, next) | ast::StatementKind::DefaultLabel(next) => cur = next,
                                _ => break,
                            }
                        }
                        match s.statement(cur)? {
                            Flow::Normal => {}
                            Flow::Break => return Ok(Flow::Normal),
                            other => return Ok(other),
                        }
                    }
                    Ok(Flow::Normal)
                })
            }
            ast::StatementKind::Break => Ok(Flow::Break),
            ast::StatementKind::Continue => Ok(Flow::Continue),
            ast::StatementKind::Discard => unsup("discard"),
            ast::StatementKind::Return(None) => Ok(Flow::Return(Value::Void)),
            ast::StatementKind::Return(Some(e)) => {
                let v = self.eval(&e.node)?;
                Ok(Flow::Return(v))
            }
            ast::StatementKind::CaseLabel(_, next) | ast::StatementKind::DefaultLabel(next) => self.statement(next),
        }
    }
}

fn is_assignment(op: &ast::BinOp) -> bool {
    matches!(
        op,
        ast::BinOp::Assignment
            | ast::BinOp::SumAssignment
            | ast::BinOp::DifferenceAssignment
            | ast::BinOp::ProductAssignment
            | ast::BinOp::QuotientAssignment
            | ast::BinOp::RemainderAssignment
            | ast::BinOp::LeftShiftAssignment
            | ast::BinOp::RightShiftAssignment
            | ast::BinOp::BitwiseAndAssignment
            | ast::BinOp::BitwiseOrAssignment
            | ast::BinOp::BitwiseXorAssignment
    )
}

fn step_value(old: &Value, up: bool) -> R<Value> {
    let lanes = old.lanes()?;
    let mut out = Vec::new();
    for l in lanes {
        if l.is_undef() {
            return Err(Trap::Uninit);
        }
        if l.kind() == Kind::Bool {
            return ill("increment of bool");
        }
        let one = convert(&Scalar::LitInt(1), l.kind())?;
        out.push(binop(if up { Bin::Add } else { Bin::Sub }, &l, &one)?);
    }
    Ok(Value::from_lanes(out, old.is_vector()))
}

fn promote(k: Kind) -> Kind {
    if k == Kind::Bool {
        Kind::Int
    } else {
        k
    }
}

/// C usual arithmetic conversions over the scalar kinds (bool promotes to int; an untyped literal adopts its partner's kind)
pub fn common_kind(a: Kind, b: Kind) -> Kind {
    use Kind::*;
    match (a, b) {
        (x, y) if x == y => {
            if x == Bool {
                // bool op bool: arithmetic promotes to int; bitwise/compare on bools is handled by the kernels on Bool
                Bool
            } else {
                x
            }
        }
        (LitInt, LitFloat) | (LitFloat, LitInt) => LitFloat,
        (LitInt, Bool) | (Bool, LitInt) => Int,
        (LitInt, y) => y,
        (x, LitInt) => x,
        (LitFloat, y) if y.is_float() => y,
        (x, LitFloat) if x.is_float() => x,
        // untyped float literal with an integer: float in HLSL; in C++ it would be double - the exporters type their literals, so
        // this only arises for source-level constructs that are unspecified across the languages
        (LitFloat, _) | (_, LitFloat) => Float,
        (Double, _) | (_, Double) => Double,
        (Float, _) | (_, Float) => Float,
        (Half, _) | (_, Half) => Half,
        (UInt, _) | (_, UInt) => UInt,
        _ => Int,
    }
}

fn shift_left_kind(a: Kind, b: Kind) -> Kind {
    match a {
        Kind::LitInt => {
            if matches!(b, Kind::LitInt) {
                Kind::LitInt
            } else {
                promote(b)
            }
        }
        k => k,
    }
}

pub fn numeric_type_name(name: &str) -> Option<CTy> {
    let (kind, rest) = if let Some(r) = name.strip_prefix("bool") {
        (Kind::Bool, r)
    } else if let Some(r) = name.strip_prefix("uint") {
        (Kind::UInt, r)
    } else if let Some(r) = name.strip_prefix("int") {
        (Kind::Int, r)
    } else if let Some(r) = name.strip_prefix("half") {
        (Kind::Half, r)
    } else if let Some(r) = name.strip_prefix("float") {
        (Kind::Float, r)
    } else if let Some(r) = name.strip_prefix("double") {
        (Kind::Double, r)
    } else {
        return None;
    };
    match rest {
        "" => Some(CTy::Num(kind, 1, false)),
        "1" => Some(CTy::Num(kind, 1, true)),
        "2" => Some(CTy::Num(kind, 2, true)),
        "3" => Some(CTy::Num(kind, 3, true)),
        "4" => Some(CTy::Num(kind, 4, true)),
        _ => None,
    }
}
