//! Argument vectors for executing functions: boundary values and random values per IR type.

use super::irexec::Exec;
use super::val::*;
use crate::rng::Rng;
use rssl::ir;

fn int_values() -> &'static [i32] {
    &[0, 1, -1, 2, 3, 7, -2, 31, 32, 33, 100, -100, 255, 256, 65535, 65536, i32::MAX, i32::MIN, i32::MAX - 1, i32::MIN + 1, 0x5555_5555, 12345]
}

fn uint_values() -> &'static [u32] {
    &[0, 1, 2, 3, 7, 31, 32, 33, 255, 256, 65535, 65536, 0x7fff_ffff, 0x8000_0000, u32::MAX, u32::MAX - 1, 0xAAAA_AAAA, 12345]
}

fn float_values() -> &'static [f32] {
    &[
        0.0,
        -0.0,
        1.0,
        -1.0,
        0.5,
        -0.5,
        2.0,
        3.0,
        1.5,
        0.25,
        0.1,
        100.0,
        -100.0,
        16777216.0,
        16777217.0,
        1e-3,
        1e10,
        -1e10,
        3.4028235e38,
        1.17549435e-38,
        1e-45,
        f32::INFINITY,
        f32::NEG_INFINITY,
        f32::NAN,
        2147483648.0,
        -2147483648.0,
        4294967296.0,
        0.9999999,
        7.25,
    ]
}

pub fn scalar_value(kind: Kind, rng: &mut Rng, calm: bool) -> Scalar {
    // `calm` keeps values small so that more samples stay defined (no conversion traps)
    match kind {
        Kind::Bool => Scalar::Bool(rng.chance(1, 2)),
        Kind::Int => {
            if calm {
                Scalar::Int(rng.range(-8, 16) as i32)
            } else if rng.chance(3, 4) {
                Scalar::Int(*rng.pick(int_values()))
            } else {
                Scalar::Int(rng.next_u32() as i32)
            }
        }
        Kind::UInt => {
            if calm {
                Scalar::UInt(rng.range(0, 24) as u32)
            } else if rng.chance(3, 4) {
                Scalar::UInt(*rng.pick(uint_values()))
            } else {
                Scalar::UInt(rng.next_u32())
            }
        }
        Kind::Half => {
            let f = if calm { rng.range(-16, 32) as f32 * 0.25 } else { *rng.pick(float_values()) };
            Scalar::Half(round_f16(f))
        }
        Kind::Float => {
            if calm {
                Scalar::Float(rng.range(-32, 64) as f32 * 0.125)
            } else if rng.chance(3, 4) {
                Scalar::Float(*rng.pick(float_values()))
            } else {
                let f = f32::from_bits(rng.next_u32());
                Scalar::Float(if f.is_nan() { 1.25 } else { f })
            }
        }
        Kind::Double => {
            if calm {
                Scalar::Double(rng.range(-32, 64) as f64 * 0.125)
            } else if rng.chance(3, 4) {
                Scalar::Double(*rng.pick(float_values()) as f64)
            } else {
                Scalar::Double((rng.f64_unit() - 0.5) * 1e6)
            }
        }
        Kind::LitInt => Scalar::LitInt(rng.range(-4, 8) as i128),
        Kind::LitFloat => Scalar::LitFloat(rng.range(-4, 8) as f64 * 0.5),
    }
}

/// A value for a parameter of the given IR type; None if the type is outside what the interpreters model
pub fn value_for(exec: &Exec, ty: ir::TypeId, rng: &mut Rng, calm: bool) -> Option<Value> {
    let m = exec.m;
    let ty = m.type_registry.remove_modifier(ty);
    match m.type_registry.get_type_layer(ty) {
        ir::TypeLayer::Scalar(_) | ir::TypeLayer::Vector(..) => {
            let (kind, n, is_vec) = exec.numeric(ty)?;
            let lanes: Vec<Scalar> = (0..n).map(|_| scalar_value(kind, rng, calm)).collect();
            Some(Value::from_lanes(lanes, is_vec))
        }
        ir::TypeLayer::Struct(id) => {
            let def = &m.struct_registry[id.0 as usize];
            let mut fields = Vec::new();
            for mem in &def.members {
                fields.push(value_for(exec, mem.type_id, rng, calm)?);
            }
            Some(Value::Struct(id.0, fields))
        }
        ir::TypeLayer::Enum(id) => Some(Value::Enum(id.0, rng.range(0, 6))),
        ir::TypeLayer::Array(inner, Some(n)) if n <= 64 => {
            let mut items = Vec::new();
            for _ in 0..n {
                items.push(value_for(exec, inner, rng, calm)?);
            }
            Some(Value::Array(items))
        }
        _ => None,
    }
}
