//! SplitMix64 random stream. All random choices of all checks come from here so that
//! (VERIF_SEED, check constant, case index) reproduces a case exactly.

#[derive(Clone, Debug)]
pub struct Rng(pub u64);

impl Rng {
    pub fn new(seed: u64) -> Rng {
        Rng(seed ^ 0x9E37_79B9_7F4A_7C15)
    }

    /// Independent stream for (seed, salt, index)
    pub fn for_case(seed: u64, salt: u64, index: u64) -> Rng {
        let mut r = Rng(seed.wrapping_mul(0xD6E8_FEB8_6659_FD93) ^ salt.rotate_left(17) ^ index.wrapping_mul(0xA24B_AED4_963E_E407));
        r.next_u64();
        r.next_u64();
        r
    }

    pub fn next_u64(&mut self) -> u64 {
        self.0 = self.0.wrapping_add(0x9E37_79B9_7F4A_7C15);
        let mut z = self.0;
        z = (z ^ (z >> 30)).wrapping_mul(0xBF58_476D_1CE4_E5B9);
        z = (z ^ (z >> 27)).wrapping_mul(0x94D0_49BB_1331_11EB);
        z ^ (z >> 31)
    }

    pub fn next_u32(&mut self) -> u32 {
        (self.next_u64() >> 32) as u32
    }

    /// Uniform in 0..n (n > 0)
    pub fn below(&mut self, n: usize) -> usize {
        debug_assert!(n > 0);
        (self.next_u64() % (n as u64)) as usize
    }

    /// Uniform in lo..=hi
    pub fn range(&mut self, lo: i64, hi: i64) -> i64 {
        debug_assert!(lo <= hi);
        let span = (hi - lo) as u64 + 1;
        lo + (self.next_u64() % span) as i64
    }

    /// True with probability num/den
    pub fn chance(&mut self, num: u32, den: u32) -> bool {
        (self.next_u64() % den as u64) < num as u64
    }

    pub fn pick<'a, T>(&mut self, items: &'a [T]) -> &'a T {
        &items[self.below(items.len())]
    }

    pub fn shuffle<T>(&mut self, items: &mut [T]) {
        for i in (1..items.len()).rev() {
            let j = self.below(i + 1);
            items.swap(i, j);
        }
    }

    pub fn f64_unit(&mut self) -> f64 {
        (self.next_u64() >> 11) as f64 / (1u64 << 53) as f64
    }
}

/// FNV-1a, used for content hashes of cases (distinctness counting)
pub fn hash_bytes(bytes: &[u8]) -> u64 {
    let mut h: u64 = 0xcbf2_9ce4_8422_2325;
    for b in bytes {
        h ^= *b as u64;
        h = h.wrapping_mul(0x1000_0000_01b3);
    }
    h
}

pub fn hash_str(s: &str) -> u64 {
    hash_bytes(s.as_bytes())
}
