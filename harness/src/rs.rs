//! Thin, observing wrappers around the real rssl entry points: every call is made under
//! `guard` (panic capture) with the logical step budget armed, and the result is turned into
//! plain data the monitors can compare.

use crate::json::Json;
use crate::par::{guard, Caught};
use rssl::text::{FileData, IncludeError, IncludeHandler};

/// In-memory file system used as include handler
#[derive(Clone, Debug, Default)]
pub struct Files(pub Vec<(String, String)>);

impl Files {
    pub fn single(name: &str, contents: &str) -> Files {
        Files(vec![(name.to_string(), contents.to_string())])
    }
    pub fn to_json(&self) -> Json {
        Json::Arr(self.0.iter().map(|(n, c)| Json::obj().set("name", n).set("contents", c)).collect())
    }
    pub fn from_json(j: &Json) -> Files {
        let mut out = Vec::new();
        if let Some(a) = j.as_arr() {
            for f in a {
                out.push((f.get_str("name").unwrap_or("").to_string(), f.get_str("contents").unwrap_or("").to_string()));
            }
        }
        Files(out)
    }
    pub fn total_len(&self) -> usize {
        self.0.iter().map(|f| f.1.len()).sum()
    }
}

pub struct FilesHandler<'a>(pub &'a Files, pub usize);

impl<'a> FilesHandler<'a> {
    pub fn new(files: &'a Files) -> Self {
        FilesHandler(files, 0)
    }
}

/// Normalise `a/b/../c` style paths the way the repository's own test include handler does
pub fn minipath_join(parent: &str, file: &str) -> Option<String> {
    let mut parts: Vec<&str> = parent.split('/').collect();
    parts.pop();
    for part in file.split('/') {
        if part == ".." {
            parts.pop()?;
        } else {
            parts.push(part);
        }
    }
    Some(parts.join("/"))
}

impl IncludeHandler for FilesHandler<'_> {
    fn load(&mut self, file_name: &str, parent: &str) -> Result<FileData, IncludeError> {
        // relative to the including file first, then as given
        let relative = minipath_join(parent, file_name);
        for candidate in [relative.as_deref(), Some(file_name)].into_iter().flatten() {
            for (name, data) in &self.0 .0 {
                if name == candidate {
                    self.1 += data.len();
                    return Ok(FileData {
                        real_name: name.clone(),
                        contents: data.clone(),
                    });
                }
            }
        }
        Err(IncludeError::FileNotFound)
    }
}

#[derive(Clone, Copy, PartialEq, Eq, Debug, Hash)]
pub enum Tgt {
    Dx,
    Vk,
    /// Vulkan with buffer addresses
    VkBa,
    Msl,
}

pub const ALL_TARGETS: [Tgt; 4] = [Tgt::Dx, Tgt::Vk, Tgt::VkBa, Tgt::Msl];

impl Tgt {
    pub fn name(self) -> &'static str {
        match self {
            Tgt::Dx => "HlslForDirectX",
            Tgt::Vk => "HlslForVulkan",
            Tgt::VkBa => "HlslForVulkan+buffer_address",
            Tgt::Msl => "Msl",
        }
    }
    pub fn from_name(s: &str) -> Tgt {
        match s {
            "HlslForVulkan" => Tgt::Vk,
            "HlslForVulkan+buffer_address" => Tgt::VkBa,
            "Msl" => Tgt::Msl,
            _ => Tgt::Dx,
        }
    }
    pub fn is_hlsl(self) -> bool {
        !matches!(self, Tgt::Msl)
    }
    pub fn binding_params(self) -> rssl::AssignBindingsParams {
        // Written from the documentation of the targets, mirrors what compile() is documented to use
        match self {
            Tgt::Dx => rssl::AssignBindingsParams {
                require_slot_type: true,
                support_buffer_address: false,
                metal_slot_layout: false,
                static_samplers_have_slots: true,
            },
            Tgt::Vk | Tgt::VkBa => rssl::AssignBindingsParams {
                require_slot_type: false,
                support_buffer_address: matches!(self, Tgt::VkBa),
                metal_slot_layout: false,
                static_samplers_have_slots: true,
            },
            Tgt::Msl => rssl::AssignBindingsParams {
                require_slot_type: false,
                support_buffer_address: false,
                metal_slot_layout: true,
                static_samplers_have_slots: false,
            },
        }
    }
}

#[derive(Clone, PartialEq, Eq, Debug)]
pub enum Mode {
    /// All pipelines in the file
    All,
    Named(String),
    NoPipeline,
}

impl Mode {
    pub fn name(&self) -> String {
        match self {
            Mode::All => "all".into(),
            Mode::Named(n) => format!("named:{}", n),
            Mode::NoPipeline => "no_pipeline".into(),
        }
    }
    pub fn from_name(s: &str) -> Mode {
        if s == "no_pipeline" {
            Mode::NoPipeline
        } else if let Some(n) = s.strip_prefix("named:") {
            Mode::Named(n.to_string())
        } else {
            Mode::All
        }
    }
}

#[derive(Clone, Debug)]
pub struct Opts {
    pub target: Tgt,
    pub mode: Mode,
    pub validate_layout: bool,
    pub defines: Vec<(String, String)>,
    /// Logical step budget (ticks); u64::MAX = unlimited
    pub budget: u64,
}

pub const DEFAULT_BUDGET: u64 = 200_000_000;

impl Opts {
    pub fn new(target: Tgt, mode: Mode) -> Opts {
        Opts {
            target,
            mode,
            validate_layout: false,
            defines: Vec::new(),
            budget: DEFAULT_BUDGET,
        }
    }
    pub fn to_json(&self) -> Json {
        Json::obj()
            .set("target", self.target.name())
            .set("mode", self.mode.name())
            .set("validate_layout", self.validate_layout)
            .set(
                "defines",
                Json::Arr(self.defines.iter().map(|(a, b)| Json::Arr(vec![Json::str(a), Json::str(b)])).collect()),
            )
    }
    pub fn from_json(j: &Json) -> Opts {
        let mut o = Opts::new(Tgt::from_name(j.get_str("target").unwrap_or("")), Mode::from_name(j.get_str("mode").unwrap_or("all")));
        o.validate_layout = j.get("validate_layout").and_then(|v| v.as_bool()).unwrap_or(false);
        if let Some(d) = j.get("defines").and_then(|d| d.as_arr()) {
            for kv in d {
                if let Some(kv) = kv.as_arr() {
                    if kv.len() == 2 {
                        o.defines.push((kv[0].as_str().unwrap_or("").to_string(), kv[1].as_str().unwrap_or("").to_string()));
                    }
                }
            }
        }
        o
    }
}

#[derive(Clone, Debug, PartialEq)]
pub struct Stage {
    pub stage: rssl::ShaderStage,
    pub entry_point: String,
    pub thread_group_size: Option<(u32, u32, u32)>,
}

#[derive(Clone, Debug)]
pub struct Pipe {
    pub source: String,
    pub stages: Vec<Stage>,
    pub metadata: rssl::PipelineDescription,
    /// Debug rendering of the graphics pipeline state (all fields derive Debug)
    pub pipeline_state: String,
    /// The syntax tree the exporter handed to the formatter for this pipeline (hook)
    pub tree: Option<rssl::ast::Module>,
}

impl Pipe {
    /// Everything the caller of compile() can observe, as one comparable string
    pub fn observable(&self) -> String {
        format!("{}\n--stages {:?}\n--metadata {:?}\n--state {}", self.source, self.stages, self.metadata, self.pipeline_state)
    }
}

#[derive(Clone, Debug)]
pub enum Outcome {
    Ok(Vec<Pipe>),
    /// compile returned an error; the rendered text
    Diag(String),
    /// compile panicked
    Panic(Caught),
    /// step budget exceeded
    Budget { site: u32, ticks: u64 },
}

impl Outcome {
    pub fn class(&self) -> &'static str {
        match self {
            Outcome::Ok(_) => "ok",
            Outcome::Diag(_) => "diagnostic",
            Outcome::Panic(_) => "panic",
            Outcome::Budget { .. } => "budget",
        }
    }
    pub fn ok(&self) -> Option<&Vec<Pipe>> {
        match self {
            Outcome::Ok(p) => Some(p),
            _ => None,
        }
    }
    /// Comparable rendering of the entire outcome
    pub fn observable(&self) -> String {
        match self {
            Outcome::Ok(pipes) => {
                let mut s = format!("OK {} pipelines\n", pipes.len());
                for p in pipes {
                    s.push_str(&p.observable());
                    s.push_str("\n=====\n");
                }
                s
            }
            Outcome::Diag(d) => format!("DIAG {}", d),
            Outcome::Panic(c) => format!("PANIC {} {}", c.location, c.message),
            Outcome::Budget { site, ticks } => format!("BUDGET site={} ticks={}", site, ticks),
        }
    }
    pub fn brief(&self) -> String {
        match self {
            Outcome::Ok(p) => format!("ok({})", p.len()),
            Outcome::Diag(d) => format!("diagnostic: {}", d.lines().next().unwrap_or("")),
            Outcome::Panic(c) => format!("panic at {}: {}", c.location, c.message.lines().next().unwrap_or("")),
            Outcome::Budget { site, ticks } => format!("step budget exceeded at site {} after {} ticks", site, ticks),
        }
    }
}

fn rssl_target(t: Tgt) -> rssl::Target {
    match t {
        Tgt::Dx => rssl::Target::HlslForDirectX,
        Tgt::Vk | Tgt::VkBa => rssl::Target::HlslForVulkan,
        Tgt::Msl => rssl::Target::Msl,
    }
}

/// Logical step counts of one compile
#[derive(Clone, Debug, Default)]
pub struct Steps {
    pub ticks: u64,
    pub sites: Vec<u64>,
    /// bytes of all files the include handler served
    pub loaded_bytes: usize,
}

/// Run the real compile() and observe everything it returns. Returns the ticks used as well.
pub fn compile_with<H: IncludeHandler>(handler: &mut H, entry: &str, opts: &Opts) -> (Outcome, Steps) {
    let defines: Vec<(&str, &str)> = opts.defines.iter().map(|(a, b)| (a.as_str(), b.as_str())).collect();
    let _ = rssl::hlsl::verif::take_generated();
    let _ = rssl::msl::verif::take_generated();
    rssl::text::verif::reset(opts.budget);
    let result = guard(|| {
        let mut args = rssl::CompileArgs::new(entry, handler, rssl_target(opts.target))
            .defines(&defines)
            .support_buffer_address(matches!(opts.target, Tgt::VkBa))
            .validate_layout_consistency(opts.validate_layout);
        match &opts.mode {
            Mode::All => {}
            Mode::Named(n) => args = args.pipeline_name(Some(n.as_str())),
            Mode::NoPipeline => args = args.no_pipeline_mode(),
        }
        match rssl::compile(args) {
            Ok(pipes) => Ok(pipes),
            // Rendering the error is part of what must not panic
            Err(err) => Err(format!("{}", err)),
        }
    });
    let ticks = rssl::text::verif::ticks();
    let steps = Steps {
        ticks,
        sites: rssl::text::verif::sites().to_vec(),
        loaded_bytes: 0,
    };
    rssl::text::verif::reset(u64::MAX);
    let trees = if opts.target.is_hlsl() { rssl::hlsl::verif::take_generated() } else { rssl::msl::verif::take_generated() };
    let outcome = match result {
        Ok(Ok(pipes)) => {
            let n = pipes.len();
            let mut trees = trees.into_iter();
            let mut out = Vec::new();
            for p in pipes {
                let tree = if n > 0 { trees.next() } else { None };
                out.push(Pipe {
                    source: String::from_utf8_lossy(&p.data).to_string(),
                    stages: p
                        .stages
                        .iter()
                        .map(|s| Stage {
                            stage: s.stage,
                            entry_point: s.entry_point.clone(),
                            thread_group_size: s.thread_group_size,
                        })
                        .collect(),
                    metadata: p.metadata,
                    pipeline_state: format!("{:?}", p.graphics_pipeline_state),
                    tree,
                });
            }
            Outcome::Ok(out)
        }
        Ok(Err(text)) => Outcome::Diag(text),
        Err(c) => match c.budget_site {
            Some(site) => Outcome::Budget { site, ticks },
            None => Outcome::Panic(c),
        },
    };
    (outcome, steps)
}

pub fn compile(files: &Files, entry: &str, opts: &Opts) -> Outcome {
    let mut h = FilesHandler::new(files);
    compile_with(&mut h, entry, opts).0
}

pub fn compile_steps(files: &Files, entry: &str, opts: &Opts) -> (Outcome, Steps) {
    let mut h = FilesHandler::new(files);
    let (o, mut s) = compile_with(&mut h, entry, opts);
    s.loaded_bytes = h.1;
    (o, s)
}

pub fn compile_text(text: &str, opts: &Opts) -> Outcome {
    compile(&Files::single("main.rssl", text), "main.rssl", opts)
}

/// Front end only: preprocess + parse. Err = rendered diagnostic or panic
pub enum Front<T> {
    Ok(T),
    Diag(String),
    Panic(Caught),
}

/// Preprocess + parse (+ type check) a single text with the standard defines of the HLSL targets
pub fn front_text(text: &str, typecheck: bool) -> Front<(rssl::ast::Module, Option<rssl::ir::Module>)> {
    let r = guard(|| {
        use rssl::text::CompileErrorExt;
        let mut sm = rssl::text::SourceManager::new();
        let mut files = [("main.rssl", text)];
        let tokens = match rssl::preprocess::preprocess(
            "main.rssl",
            &mut sm,
            &mut files,
            &[("__HLSL_VERSION", "2021"), ("RSSL_TARGET_HLSL", "1"), ("RSSL_TARGET_MSL", "0")],
        ) {
            Ok(t) => t,
            Err(e) => return Err(format!("{}", e.display(&sm))),
        };
        let tokens = rssl::preprocess::prepare_tokens(&tokens);
        let ast = match rssl::parser::parse(&tokens) {
            Ok(m) => m,
            Err(e) => return Err(format!("{}", e.display(&sm))),
        };
        if !typecheck {
            return Ok((ast, None));
        }
        match rssl::typer::type_check(&ast) {
            Ok(m) => Ok((ast, Some(m))),
            Err(e) => Err(format!("{}", e.display(&sm))),
        }
    });
    match r {
        Ok(Ok(m)) => Front::Ok(m),
        Ok(Err(d)) => Front::Diag(d),
        Err(c) => Front::Panic(c),
    }
}

pub fn parse_text(text: &str) -> Front<rssl::ast::Module> {
    match front_text(text, false) {
        Front::Ok((a, _)) => Front::Ok(a),
        Front::Diag(d) => Front::Diag(d),
        Front::Panic(c) => Front::Panic(c),
    }
}

pub fn typecheck_text(text: &str) -> Front<rssl::ir::Module> {
    match front_text(text, true) {
        Front::Ok((_, m)) => Front::Ok(m.unwrap()),
        Front::Diag(d) => Front::Diag(d),
        Front::Panic(c) => Front::Panic(c),
    }
}
