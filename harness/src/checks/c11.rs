//! C11 - not built yet
