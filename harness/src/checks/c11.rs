//! C11 - conditional compilation selects exactly the branches C semantics select.
//!
//! Reference-model monitor. Every generated input (a set of in-memory files + initial defines) is run
//! through the real `rssl::preprocess::preprocess` and through the reference preprocessor
//! `oracle::c11_refpp` (written from the C standard and the property text). The token sequence that
//! survives must be exactly the reference sequence; broken conditional structure must be refused with a
//! diagnostic; inputs C gives no meaning to are skipped and counted.
//!
//! Every text line carries a unique id token (`T<n>`) and uses of the macros that #define/#undef lines
//! inside branches (re)define, so the surviving tokens identify each selected branch and show whether a
//! #define/#undef/#include/#pragma once inside an unselected branch had an effect.

use crate::json::Json;
use crate::oracle::c11_refpp as refpp;
use crate::oracle::c11_refpp::{Expected, RefPP, St};
use crate::par::{self, Caught};
use crate::report::{Ctx, Report};
use crate::rng::{hash_bytes, Rng};
use crate::rs::{Files, FilesHandler};
use crate::CheckDef;

pub fn def() -> CheckDef {
    CheckDef {
        id: "C11",
        salt: 0xC11,
        rule: "inputs: (1) EXHAUSTIVE: every sequence of length 0..=5 (quick) / 0..=6 (thorough) over the 12 line symbols {#if 0, #if 1, #ifdef DEFINED, \
               #ifdef UNDEFINED, #ifndef DEFINED, #ifndef UNDEFINED, #elif 0, #elif 1, #else, #endif, text line, #define line}; the text line at position i \
               is `T<i> M<j>.. ;` naming every earlier #define position j, the #define at position i is `#define M<i> <100+i>`; (2) random sequences of \
               length 7-9 over the same alphabet (the full length-9 space, 5e9, is not enumerable per run); (3) random structured programs nested to depth \
               1..=8 with #if/#ifdef/#ifndef/#elif/#else, object- and function-like macros, #undef, #include of generated files (with #pragma once in live \
               and dead positions), unknown directives and missing includes in dead groups, random white space/comments on directive lines, optional \
               missing final newline, and (15%) one structural fault injected (conditional directive deleted / stray #if #else #elif #endif inserted); \
               (4) random condition expressions to depth 5 over the literals 0 1 2 2^31 2^32-1 2^32 2^63-1 2^63 2^64-1 and random values (decimal, hex, octal, \
               u suffix), object macros with literal / parenthesised / unparenthesised expression bodies, function-like macros, defined X, defined(X), unknown \
               identifiers and all of || && == != < <= > >= ! ( ), used as #if and as #elif condition, raw and as `(E) == <reference value>`; (5) a fixed \
               list of directed probes. Generator avoidances (KF-C11-1 and KF-C11-2 are exercised only by directed probes): the condition of an #elif that C does \
               not evaluate (chain already taken / inside a skipped group) is always kept evaluable under the macro table in force (also after fault injection); \
               integer suffixes l/ul are not used; not generated at all: `defined` inside macro arguments, true/false (0 in C, 1 in C++), an upper case 0X \
               prefix (lexer matter, C10), arithmetic/bitwise operators (not in the property's list). distinct_nontrivial = distinct inputs (hash of all \
               files + defines) containing at least one conditional directive; evaluations = executions of rssl::preprocess::preprocess observed",
        assumptions: &[
            "the reference preprocessor (oracle/c11_refpp.rs) implements C11 6.10.1-6.10.3 for the generated sub-language; its expression parser is cross-checked at start-up against direct evaluation of the generated expression trees",
            "the token stream returned by rssl::preprocess::preprocess (white space removed) is what reaches the parser",
            "macro replacement subtleties (rescanning across the end of a replacement, #, ##) are property C12's business and are not generated here",
        ],
        min_distinct: (500_000, 6_000_000),
        deadline_s: (55.0, 540.0),
        run,
        replay,
    }
}

// ------------------------------------------------------------------------------------------------
// Case
// ------------------------------------------------------------------------------------------------

#[derive(Clone, Debug)]
pub struct Case {
    pub kind: String,
    pub files: Vec<(String, String)>,
    pub entry: String,
    pub defines: Vec<(String, String)>,
}

impl Case {
    fn single(kind: &str, text: String, defines: &[(&str, &str)]) -> Case {
        Case {
            kind: kind.to_string(),
            files: vec![("main.rssl".to_string(), text)],
            entry: "main.rssl".to_string(),
            defines: defines.iter().map(|(a, b)| (a.to_string(), b.to_string())).collect(),
        }
    }
    fn to_json(&self) -> Json {
        Json::obj()
            .set("kind", &self.kind)
            .set("entry", &self.entry)
            .set("files", Files(self.files.clone()).to_json())
            .set("defines", Json::Arr(self.defines.iter().map(|(a, b)| Json::Arr(vec![Json::str(a), Json::str(b)])).collect()))
    }
    fn from_json(j: &Json) -> Case {
        let mut defines = Vec::new();
        if let Some(d) = j.get("defines").and_then(|d| d.as_arr()) {
            for kv in d {
                if let Some(kv) = kv.as_arr() {
                    if kv.len() == 2 {
                        defines.push((kv[0].as_str().unwrap_or("").to_string(), kv[1].as_str().unwrap_or("").to_string()));
                    }
                }
            }
        }
        Case {
            kind: j.get_str("kind").unwrap_or("replay").to_string(),
            files: Files::from_json(j.get("files").unwrap_or(&Json::Null)).0,
            entry: j.get_str("entry").unwrap_or("main.rssl").to_string(),
            defines,
        }
    }
    fn hash(&self) -> u64 {
        let mut bytes = Vec::new();
        for (n, c) in &self.files {
            bytes.extend_from_slice(n.as_bytes());
            bytes.push(0);
            bytes.extend_from_slice(c.as_bytes());
            bytes.push(1);
        }
        for (n, v) in &self.defines {
            bytes.extend_from_slice(n.as_bytes());
            bytes.push(2);
            bytes.extend_from_slice(v.as_bytes());
            bytes.push(3);
        }
        hash_bytes(&bytes)
    }
}

// ------------------------------------------------------------------------------------------------
// Observation of the real preprocessor
// ------------------------------------------------------------------------------------------------

enum Observed {
    Tokens(Vec<String>),
    /// (variant name, rendered diagnostic)
    Rejected(String, String),
    Panic(Caught),
}

fn render_token(t: &rssl::text::tokens::Token, out: &mut Vec<String>) {
    use rssl::text::tokens::Token;
    match t {
        Token::Id(id) => out.push(id.0.clone()),
        Token::LiteralInt(v) => out.push(format!("{}", v)),
        Token::LiteralIntUnsigned32(v) => out.push(format!("{}u", v)),
        Token::LiteralIntUnsigned64(v) => out.push(format!("{}ul", v)),
        Token::LiteralIntSigned64(v) => out.push(format!("{}l", v)),
        Token::LiteralString(s) => out.push(format!("\"{}\"", s)),
        Token::LeftParen => out.push("(".into()),
        Token::RightParen => out.push(")".into()),
        Token::LeftBrace => out.push("{".into()),
        Token::RightBrace => out.push("}".into()),
        Token::LeftAngleBracket(_) => out.push("<".into()),
        Token::RightAngleBracket(_) => out.push(">".into()),
        Token::Semicolon => out.push(";".into()),
        Token::Comma => out.push(",".into()),
        Token::Plus => out.push("+".into()),
        Token::Equals => out.push("=".into()),
        Token::EqualsEquals => out.push("==".into()),
        Token::ExclamationPoint => out.push("!".into()),
        Token::ExclamationPointEquals => out.push("!=".into()),
        Token::AmpersandAmpersand => out.push("&&".into()),
        Token::VerticalBarVerticalBar => out.push("||".into()),
        Token::Hash => out.push("#".into()),
        other => out.push(format!("<{:?}>", other)),
    }
}

fn observe(case: &Case) -> Observed {
    let files = Files(case.files.clone());
    let defines: Vec<(&str, &str)> = case.defines.iter().map(|(a, b)| (a.as_str(), b.as_str())).collect();
    let r = par::guard(|| {
        use rssl::text::CompileErrorExt;
        let mut sm = rssl::text::SourceManager::new();
        let mut handler = FilesHandler::new(&files);
        match rssl::preprocess::preprocess(&case.entry, &mut sm, &mut handler, &defines) {
            Ok(tokens) => {
                let mut out = Vec::new();
                for t in &tokens {
                    if !t.0.is_whitespace() {
                        render_token(&t.0, &mut out);
                    }
                }
                Ok(out)
            }
            Err(e) => {
                let dbg = format!("{:?}", e);
                let variant: String = dbg.chars().take_while(|c| c.is_ascii_alphanumeric()).collect();
                // rendering the diagnostic is part of "rejected with a diagnostic, not a panic"
                let text = format!("{}", e.display(&sm));
                Err((variant, text))
            }
        }
    });
    match r {
        Ok(Ok(t)) => Observed::Tokens(t),
        Ok(Err((v, t))) => Observed::Rejected(v, t),
        Err(c) => Observed::Panic(c),
    }
}

// ------------------------------------------------------------------------------------------------
// The monitor
// ------------------------------------------------------------------------------------------------

fn is_line_id(tok: &str) -> bool {
    tok.len() > 1 && tok.starts_with('T') && tok[1..].bytes().all(|c| c.is_ascii_digit())
}

fn strs(v: &[String]) -> Json {
    Json::Str(v.join(" "))
}

/// Short class of a literal suffix probe etc. for narrow signatures: which out-of-the-ordinary constructs the input holds
fn construct_tags(case: &Case) -> String {
    let mut tags = Vec::new();
    let all: String = case.files.iter().map(|f| f.1.as_str()).collect::<Vec<_>>().join("\n");
    let mut has_l = false;
    for line in refpp::split_lines(&all) {
        let t = line.trim_start();
        if t.starts_with('#') {
            if let Ok(toks) = refpp::lex(t.trim_start_matches('#')) {
                let cond = matches!(toks.first(), Some(refpp::Tok::Id(n)) if n == "if" || n == "elif");
                if cond && toks.iter().any(|t| matches!(t, refpp::Tok::Int(_, refpp::Suffix::L | refpp::Suffix::UL))) {
                    has_l = true;
                }
            }
        }
    }
    if has_l {
        tags.push("literal-suffix-l");
    }
    tags.join("+")
}

fn examine(case: &Case, report: &mut Report) {
    let reference = refpp::run(&case.files, &case.entry, &case.defines);
    let observed = observe(case);
    report.evaluations += 1;

    let family = case.kind.split(':').next().unwrap_or("?").to_string();
    report.count(&format!("cases:{}", family));
    report.count(&format!("expected:{}", reference.expected.class()));
    report.count(&format!("expected:{}:{}", family, reference.expected.class()));

    // what the reference model went through on this input
    let mut conditional_directives = 0;
    for (k, n) in &reference.events {
        report.count_n(&format!("model:{}", k), *n);
        if k.starts_with("if") || k.starts_with("elif") || k.starts_with("else") || k.starts_with("unmatched") || k.starts_with("unterminated") {
            conditional_directives += n;
        }
    }
    for op in &reference.cond.ops {
        report.count(&format!("cond_op:{}", op));
    }
    if reference.cond.defined_plain > 0 {
        report.count_n("cond:defined X", reference.cond.defined_plain);
    }
    if reference.cond.defined_paren > 0 {
        report.count_n("cond:defined(X)", reference.cond.defined_paren);
    }
    if reference.cond.unknown_ids > 0 {
        report.count_n("cond:identifier_as_0", reference.cond.unknown_ids);
    }
    if reference.cond.big_operands > 0 {
        report.count_n("cond:operand>=2^32", reference.cond.big_operands);
    }
    report.max("max:condition_paren_depth", reference.cond.max_depth);
    report.max("max:nesting", reference.max_nesting as u64);
    report.count(&format!("nesting:{}", reference.max_nesting));
    if conditional_directives > 0 || reference.max_nesting > 0 {
        report.distinct(case.hash());
    } else {
        report.count("trivial:no_conditional_directive");
    }

    let witness = |observed_json: Json| -> Json {
        let mut w = case.to_json();
        w.put(
            "expected",
            match &reference.expected {
                Expected::Tokens(t) => Json::obj().set("tokens", strs(t)),
                Expected::Reject(r) => Json::obj().set("reject", r),
                Expected::NoRef(r) => Json::obj().set("no_reference", r),
            },
        );
        w.put("observed", observed_json);
        w
    };
    let first_lines = |case: &Case| -> String {
        let text = case.files.iter().find(|f| f.0 == case.entry).map(|f| f.1.as_str()).unwrap_or("");
        let mut s: String = text.replace('\n', "\\n");
        if s.len() > 160 {
            s.truncate(160);
            s.push_str("...");
        }
        s
    };

    match (&reference.expected, &observed) {
        (Expected::NoRef(why), obs) => {
            let class: String = why.split(':').next().unwrap_or(why).chars().take(48).collect();
            report.count(&format!("skipped:no_reference:{}", class));
            match obs {
                Observed::Tokens(_) => report.count("skipped:no_reference->rssl_accepted"),
                Observed::Rejected(v, _) => report.count(&format!("skipped:no_reference->rssl_rejected:{}", v)),
                // C08's business
                Observed::Panic(_) => report.count("skipped:panic"),
            }
        }
        (_, Observed::Panic(c)) => {
            report.count("observed:panic");
            let sig = format!("panic:{}", c.signature());
            report.violation(
                &sig,
                &format!("preprocess panicked at {} ({}) on {}", c.location, c.message.lines().next().unwrap_or(""), first_lines(case)),
                witness(Json::obj().set("panic", &c.message).set("location", &c.location)),
            );
        }
        (Expected::Reject(why), Observed::Rejected(variant, _)) => {
            report.count(&format!("rejected_as_required:{}", variant));
            let _ = why;
        }
        (Expected::Reject(why), Observed::Tokens(t)) => {
            report.count("observed:accepted_broken_structure");
            let class = if why.contains("unterminated") {
                "unterminated"
            } else if why.contains("#elif") {
                "unmatched-elif"
            } else if why.contains("#else") {
                "unmatched-else"
            } else {
                "unmatched-endif"
            };
            report.violation(
                &format!("accepted-broken-structure:{}", class),
                &format!("input with {} was accepted: {}", why, first_lines(case)),
                witness(Json::obj().set("tokens", strs(t))),
            );
        }
        (Expected::Tokens(want), Observed::Tokens(got)) => {
            if want == got {
                report.count("agree:tokens");
                report.count_n("tokens_compared", want.len() as u64);
                if want.is_empty() {
                    report.count("agree:empty_output");
                }
                if report.want_sample() && reference.max_nesting >= 2 && case.kind.starts_with("nested") {
                    report.sample(witness(Json::obj().set("tokens", strs(got))));
                }
            } else {
                let ids_want: Vec<&String> = want.iter().filter(|t| is_line_id(t)).collect();
                let ids_got: Vec<&String> = got.iter().filter(|t| is_line_id(t)).collect();
                let sig = if ids_want != ids_got {
                    "branch-selection"
                } else {
                    "macro-state"
                };
                report.count(&format!("observed:{}", sig));
                report.violation(
                    sig,
                    &format!("surviving tokens differ: expected [{}] got [{}] for {}", want.join(" "), got.join(" "), first_lines(case)),
                    witness(Json::obj().set("tokens", strs(got))),
                );
            }
        }
        (Expected::Tokens(_), Observed::Rejected(variant, text)) => {
            report.count(&format!("observed:rejected_wellformed:{}", variant));
            let tags = construct_tags(case);
            // narrow class for KF-C11-1: the input holds an #elif C does not evaluate whose condition has no value, and the
            // diagnostic is a condition/macro-invocation error reported on an #elif line (or without a line)
            let condition_error = matches!(
                variant.as_str(),
                "FailedToParseIfCondition" | "MacroRequiresArguments" | "MacroArgumentsNeverEnd" | "MacroExpectsDifferentNumberOfArguments"
            );
            let on_elif_line = match text.lines().nth(1) {
                Some(src) => src.trim_start().trim_start_matches('#').trim_start().starts_with("elif"),
                None => variant != "FailedToParseIfCondition",
            };
            let sig = if reference.unevaluated_elif_malformed.is_some() && condition_error && on_elif_line {
                // C does not evaluate this #elif (6.10.1: in a skipped group directives are processed only to keep
                // track of nesting; after a taken group the rest of the chain is skipped)
                format!("elif-evaluated-in-skipped-group:{}", variant)
            } else if !tags.is_empty() {
                format!("rejected-wellformed:{}:{}", variant, tags)
            } else {
                format!("rejected-wellformed:{}", variant)
            };
            report.violation(
                &sig,
                &format!("well-formed input was rejected ({}): {}", text.lines().next().unwrap_or(variant), first_lines(case)),
                witness(Json::obj().set("error", variant).set("diagnostic", text)),
            );
        }
    }
}

// ------------------------------------------------------------------------------------------------
// (1)+(2) sequences over the alphabet of the quantifier
// ------------------------------------------------------------------------------------------------

pub const SYMBOLS: [&str; 12] = [
    "#if 0",
    "#if 1",
    "#ifdef DEFINED",
    "#ifdef UNDEFINED",
    "#ifndef DEFINED",
    "#ifndef UNDEFINED",
    "#elif 0",
    "#elif 1",
    "#else",
    "#endif",
    "text",
    "define",
];

fn render_sequence(seq: &[u8]) -> String {
    let mut text = String::new();
    let mut defined_at: Vec<usize> = Vec::new();
    for (i, s) in seq.iter().enumerate() {
        match *s {
            10 => {
                text.push_str(&format!("T{}", i));
                for j in &defined_at {
                    text.push_str(&format!(" M{}", j));
                }
                text.push_str(" ;\n");
            }
            11 => {
                text.push_str(&format!("#define M{} {}\n", i, 100 + i));
                defined_at.push(i);
            }
            k => {
                text.push_str(SYMBOLS[k as usize]);
                text.push('\n');
            }
        }
    }
    text
}

fn sequence_case(kind: &str, seq: &[u8]) -> Case {
    Case::single(kind, render_sequence(seq), &[("DEFINED", "1")])
}

/// Number of sequences of length 0..=max_len
fn enumeration_size(max_len: u32) -> u64 {
    (0..=max_len).map(|l| 12u64.pow(l)).sum()
}

/// index -> sequence (shorter sequences first)
fn nth_sequence(mut index: u64, max_len: u32) -> Vec<u8> {
    for len in 0..=max_len {
        let n = 12u64.pow(len);
        if index < n {
            let mut seq = vec![0u8; len as usize];
            for slot in seq.iter_mut().rev() {
                *slot = (index % 12) as u8;
                index /= 12;
            }
            return seq;
        }
        index -= n;
    }
    Vec::new()
}

// ------------------------------------------------------------------------------------------------
// Expressions
// ------------------------------------------------------------------------------------------------

#[derive(Clone, Debug)]
enum E {
    Lit(u64, String),
    /// object macro or unknown identifier
    Name(String),
    Defined(String, u8),
    Call(String, Vec<E>),
    Not(Box<E>),
    Bin(&'static str, Box<E>, Box<E>),
    Paren(Box<E>),
}

const BIN_OPS: [&str; 8] = ["||", "&&", "==", "!=", "<", "<=", ">", ">="];

fn level(op: &str) -> u8 {
    // C11 6.5.8 .. 6.5.14: relational binds tighter than equality, then &&, then ||
    match op {
        "||" => 1,
        "&&" => 2,
        "==" | "!=" => 3,
        _ => 4,
    }
}

fn interesting_value(rng: &mut Rng) -> u64 {
    match rng.below(14) {
        0 | 1 => 0,
        2 | 3 => 1,
        4 => 2,
        5 => 1 << 31,
        6 => (1 << 32) - 1,
        7 => 1 << 32,
        8 => (1 << 63) - 1,
        9 => 1 << 63,
        10 => u64::MAX,
        11 => rng.next_u64(),
        12 => rng.next_u64() >> 33,
        _ => rng.below(6) as u64,
    }
}

fn literal_text(rng: &mut Rng, v: u64) -> String {
    let mut s = match rng.below(8) {
        0 => format!("0x{:x}", v),
        // (an upper case 0X prefix is lexed by rssl as `0` followed by an identifier: a lexer matter, property C10, not used here)
        1 => format!("0x{:X}", v),
        2 if v != 0 => format!("0{:o}", v),
        _ => format!("{}", v),
    };
    if rng.chance(1, 8) {
        s.push(if rng.chance(1, 2) { 'u' } else { 'U' });
    }
    s
}

/// What a generated expression may refer to
#[derive(Clone, Debug, Default)]
struct Names {
    /// identifiers that are object-like macros with an expression body, or not macros at all (then 0)
    values: Vec<String>,
    /// names to ask `defined` about
    flags: Vec<String>,
    /// function-like macros that are invocable here: (name, arity)
    functions: Vec<(String, usize)>,
}

fn gen_expr(rng: &mut Rng, depth: u32, names: &Names, in_macro_arg: bool) -> E {
    let leaf = depth == 0 || rng.chance(1, 5);
    if leaf {
        let k = rng.below(10);
        if k < 5 || (names.values.is_empty() && names.flags.is_empty()) {
            let v = interesting_value(rng);
            return E::Lit(v, literal_text(rng, v));
        }
        if k < 8 && !names.values.is_empty() {
            return E::Name(rng.pick(&names.values).clone());
        }
        if !names.flags.is_empty() && !in_macro_arg {
            return E::Defined(rng.pick(&names.flags).clone(), rng.below(3) as u8);
        }
        let v = interesting_value(rng);
        return E::Lit(v, literal_text(rng, v));
    }
    match rng.below(12) {
        0 | 1 => E::Not(Box::new(gen_expr(rng, depth - 1, names, in_macro_arg))),
        2 => E::Paren(Box::new(gen_expr(rng, depth - 1, names, in_macro_arg))),
        3 if !names.functions.is_empty() => {
            let (name, arity) = rng.pick(&names.functions).clone();
            let args = (0..arity).map(|_| gen_expr(rng, depth - 1, names, true)).collect();
            E::Call(name, args)
        }
        _ => {
            let op = *rng.pick(&BIN_OPS);
            E::Bin(op, Box::new(gen_expr(rng, depth - 1, names, in_macro_arg)), Box::new(gen_expr(rng, depth - 1, names, in_macro_arg)))
        }
    }
}

fn expr_depth(e: &E) -> u32 {
    match e {
        E::Lit(..) | E::Name(_) | E::Defined(..) => 0,
        E::Call(_, args) => 1 + args.iter().map(expr_depth).max().unwrap_or(0),
        E::Not(a) | E::Paren(a) => 1 + expr_depth(a),
        E::Bin(_, a, b) => 1 + expr_depth(a).max(expr_depth(b)),
    }
}

fn expr_level(e: &E) -> u8 {
    match e {
        E::Bin(op, ..) => level(op),
        E::Not(_) => 5,
        _ => 6,
    }
}

/// Render with the parentheses C's grammar requires (binary operators associate to the left) and random spacing
fn render_expr(rng: &mut Rng, e: &E, min_level: u8, out: &mut String) {
    let sp = |rng: &mut Rng, out: &mut String| {
        if rng.chance(3, 4) {
            out.push(' ');
        }
    };
    let need = expr_level(e) < min_level;
    if need {
        out.push('(');
    }
    match e {
        E::Lit(_, text) => out.push_str(text),
        E::Name(n) => out.push_str(n),
        E::Defined(n, form) => match form {
            0 => {
                out.push_str("defined ");
                out.push_str(n);
            }
            1 => {
                out.push_str("defined(");
                out.push_str(n);
                out.push(')');
            }
            _ => {
                out.push_str("defined ( ");
                out.push_str(n);
                out.push_str(" )");
            }
        },
        E::Call(n, args) => {
            out.push_str(n);
            if rng.chance(1, 6) {
                out.push(' ');
            }
            out.push('(');
            for (i, a) in args.iter().enumerate() {
                if i > 0 {
                    out.push(',');
                    sp(rng, out);
                }
                render_expr(rng, a, 0, out);
            }
            out.push(')');
        }
        E::Not(a) => {
            out.push('!');
            if rng.chance(1, 6) {
                out.push(' ');
            }
            render_expr(rng, a, 5, out);
        }
        E::Paren(a) => {
            out.push('(');
            render_expr(rng, a, 0, out);
            out.push(')');
        }
        E::Bin(op, a, b) => {
            let l = level(op);
            render_expr(rng, a, l, out);
            // an identifier or number must not run into the next one; operators may touch their operands
            sp(rng, out);
            out.push_str(op);
            sp(rng, out);
            render_expr(rng, b, l + 1, out);
        }
    }
    if need {
        out.push(')');
    }
}

/// Direct evaluation of a macro free tree (self check of the reference parser): identifiers are 0
fn eval_tree(e: &E, defined: &[String]) -> u64 {
    match e {
        E::Lit(v, _) => *v,
        E::Name(_) => 0,
        E::Defined(n, _) => defined.contains(n) as u64,
        E::Call(..) => 0,
        E::Not(a) => (eval_tree(a, defined) == 0) as u64,
        E::Paren(a) => eval_tree(a, defined),
        E::Bin(op, a, b) => {
            let (x, y) = (eval_tree(a, defined), eval_tree(b, defined));
            (match *op {
                "||" => x != 0 || y != 0,
                "&&" => x != 0 && y != 0,
                "==" => x == y,
                "!=" => x != y,
                "<" => x < y,
                "<=" => x <= y,
                ">" => x > y,
                _ => x >= y,
            }) as u64
        }
    }
}

/// The text parser of the reference model against direct evaluation of the tree it was rendered from
fn oracle_self_check(seed: u64) -> Result<u64, String> {
    let names = Names {
        values: vec!["QU1".into(), "QU2".into()],
        flags: vec!["QP".into(), "QR".into()],
        functions: vec![],
    };
    let mut macros = refpp::Macros::new();
    macros.insert(
        "QP".into(),
        refpp::Macro {
            params: None,
            body: vec![],
        },
    );
    let n = 4000;
    for i in 0..n {
        let mut rng = Rng::for_case(seed, 0x5E1F, i);
        let depth = 1 + rng.below(5) as u32;
        let e = gen_expr(&mut rng, depth, &names, false);
        let mut text = String::new();
        render_expr(&mut rng, &e, 0, &mut text);
        let direct = eval_tree(&e, &["QP".to_string()]);
        match refpp::eval_text(&text, &macros) {
            Ok(v) if v == direct => {}
            other => return Err(format!("oracle self check failed on `{}`: tree value {} but reference parser says {:?}", text, direct, other)),
        }
    }
    // hand computed fixed points of the C rules (precedence, associativity, unsignedness)
    let fixed: [(&str, u64); 14] = [
        ("1 || 0 && 0", 1),
        ("0 == 0 < 1", 0),
        ("1 < 2 == 1", 1),
        ("!0 == 1", 1),
        ("!(0 == 1)", 1),
        ("! 1 < 1", 1),
        ("3 > 2 > 1", 0),
        ("1 < 5 <= 1 > 0 <= 0", 0),
        ("9223372036854775808 > 1", 1),
        ("18446744073709551615 == 0xFFFFFFFFFFFFFFFF", 1),
        ("0x8000000000000000 < 0x7fffffffffffffff", 0),
        ("2 && 4", 1),
        ("QU1 == 0 && !defined QR && defined(QP)", 1),
        ("010 == 8", 1),
    ];
    for (text, want) in fixed {
        match refpp::eval_text(text, &macros) {
            Ok(v) if v == want => {}
            other => return Err(format!("oracle self check failed on `{}`: want {} but reference parser says {:?}", text, want, other)),
        }
    }
    Ok(n + fixed.len() as u64)
}

// ------------------------------------------------------------------------------------------------
// Macro pools
// ------------------------------------------------------------------------------------------------

const VALUE_MACROS: [&str; 4] = ["QA", "QB", "QC", "QD"];
const FLAG_MACROS: [&str; 3] = ["QP", "QR", "DEFINED"];
const UNKNOWN_IDS: [&str; 3] = ["QU1", "QU2", "UNDEFINED"];
const FUNCTION_MACROS: [(&str, usize); 2] = [("QF", 2), ("QG", 1)];

/// Body for the object macro VALUE_MACROS[index]: always a well-formed expression on its own; refers only to
/// value macros of a lower index (no cycles)
fn value_macro_body(rng: &mut Rng, index: usize) -> String {
    let names = Names {
        values: VALUE_MACROS[..index].iter().map(|s| s.to_string()).chain(UNKNOWN_IDS.iter().take(1).map(|s| s.to_string())).collect(),
        flags: vec![],
        functions: vec![],
    };
    match rng.below(6) {
        0 | 1 => {
            let v = interesting_value(rng);
            literal_text(rng, v)
        }
        2 | 3 => {
            // parenthesised expression
            let e = gen_expr(rng, 2, &names, false);
            let mut s = String::from("(");
            render_expr(rng, &e, 0, &mut s);
            s.push(')');
            s
        }
        _ => {
            // unparenthesised: substitution is textual, so precedence of the use site applies
            let d = 1 + rng.below(2) as u32;
            let e = gen_expr(rng, d, &names, false);
            let mut s = String::new();
            render_expr(rng, &e, 0, &mut s);
            s
        }
    }
}

fn function_macro_def(rng: &mut Rng, which: usize) -> String {
    let (name, arity) = FUNCTION_MACROS[which];
    let params: Vec<&str> = ["qx", "qy"][..arity].to_vec();
    let names = Names {
        values: params.iter().map(|s| s.to_string()).chain(std::iter::once("QA".to_string())).collect(),
        flags: vec![],
        functions: vec![],
    };
    let d = 1 + rng.below(2) as u32;
    let e = gen_expr(rng, d, &names, false);
    let mut body = String::new();
    let paren = rng.chance(1, 2);
    if paren {
        body.push('(');
    }
    render_expr(rng, &e, 0, &mut body);
    if paren {
        body.push(')');
    }
    let sep = if rng.chance(1, 2) { ", " } else { "," };
    format!("{}({}) {}", name, params.join(sep), body)
}

// ------------------------------------------------------------------------------------------------
// (3) random structured programs
// ------------------------------------------------------------------------------------------------

struct Prog<'a> {
    rng: Rng,
    lines: Vec<String>,
    pp: RefPP<'a>,
    next_id: u32,
    next_value: u64,
    max_depth: usize,
    line_budget: usize,
    include_names: Vec<String>,
}

impl Prog<'_> {
    fn push(&mut self, line: String) {
        self.pp.feed_line(&line);
        self.lines.push(line);
    }

    fn decorate(&mut self, directive: &str, rest: &str) -> String {
        let rng = &mut self.rng;
        let indent = *rng.pick(&["", "", "", " ", "\t", "    "]);
        let gap = *rng.pick(&["", "", "", " ", "  ", "\t"]);
        let trail = *rng.pick(&["", "", "", "", " ", " // note", " /* note */", "\t"]);
        if rest.is_empty() {
            format!("{}#{}{}{}", indent, gap, directive, trail)
        } else {
            format!("{}#{}{} {}{}", indent, gap, directive, rest, trail)
        }
    }

    /// Names usable in a condition that is (or, for unevaluated ones, might wrongly be) evaluated here
    fn names_here(&mut self) -> Names {
        let mut values: Vec<String> = VALUE_MACROS.iter().map(|s| s.to_string()).collect();
        values.extend(UNKNOWN_IDS.iter().map(|s| s.to_string()));
        // a value macro that currently has an empty or non-expression body must not be used as a value
        values.retain(|n| match self.pp.macros.get(n) {
            None => true,
            Some(m) => m.params.is_some() || !m.body.is_empty(),
        });
        let mut flags: Vec<String> = FLAG_MACROS.iter().map(|s| s.to_string()).collect();
        flags.extend(VALUE_MACROS.iter().map(|s| s.to_string()));
        flags.extend(FUNCTION_MACROS.iter().map(|s| s.0.to_string()));
        flags.push("QU1".into());
        let mut functions = Vec::new();
        for (n, arity) in FUNCTION_MACROS {
            if let Some(m) = self.pp.macros.get(n) {
                if m.params.as_ref().map(|p| p.len()) == Some(arity) {
                    functions.push((n.to_string(), arity));
                }
            }
        }
        // a function-like macro name without arguments is an ordinary identifier (0)
        if self.rng.chance(1, 10) {
            values.push("QG".into());
        }
        Names { values, flags, functions }
    }

    fn condition(&mut self, evaluated_by_c: bool, is_elif: bool) -> String {
        let mut names = self.names_here();
        if !evaluated_by_c && !is_elif && self.rng.chance(1, 3) {
            // the condition of an #if inside a skipped group is never looked at: it may use a function-like macro
            // that only exists in the skipped text
            names.functions = FUNCTION_MACROS.iter().map(|(n, a)| (n.to_string(), *a)).collect();
        }
        let depth = self.rng.below(4) as u32;
        let e = gen_expr(&mut self.rng, depth, &names, false);
        let mut s = String::new();
        render_expr(&mut self.rng, &e, 0, &mut s);
        s
    }

    fn text_line(&mut self) {
        let id = self.next_id;
        self.next_id += 1;
        let mut line = format!("T{}", id);
        for m in VALUE_MACROS {
            if self.rng.chance(2, 3) {
                line.push(' ');
                line.push_str(m);
            }
        }
        if self.rng.chance(1, 3) {
            line.push_str(" QP");
        }
        if self.rng.chance(1, 4) {
            // only when invocable: otherwise it stays an identifier followed by a parenthesis, which is also fine
            let v = self.rng.below(4);
            line.push_str(&format!(" QG({})", v));
        }
        line.push_str(" ;");
        if self.rng.chance(1, 10) {
            line = format!("  {}  // text", line);
        }
        self.push(line);
    }

    fn define_line(&mut self) {
        let live = self.pp.is_active();
        let k = self.rng.below(10);
        let (name, def): (String, String) = if k < 6 {
            let i = self.rng.below(VALUE_MACROS.len());
            let body = if self.rng.chance(1, 2) {
                // unique literal: shows exactly which #define is in force
                self.next_value += 1;
                format!("{}", self.next_value)
            } else {
                value_macro_body(&mut self.rng, i)
            };
            (VALUE_MACROS[i].to_string(), format!("{} {}", VALUE_MACROS[i], body))
        } else if k < 8 {
            let i = self.rng.below(2);
            (FUNCTION_MACROS[i].0.to_string(), function_macro_def(&mut self.rng, i))
        } else {
            let n = *self.rng.pick(&["QP", "QR"]);
            if self.rng.chance(1, 2) {
                (n.to_string(), n.to_string())
            } else {
                self.next_value += 1;
                (n.to_string(), format!("{} {}", n, self.next_value))
            }
        };
        // C forbids an incompatible redefinition of a live macro: #undef first. In a skipped group nothing is
        // looked at, so there a bare redefinition is as good as any other text.
        if self.pp.macros.contains_key(&name) && (live || self.rng.chance(1, 2)) {
            let l = self.decorate("undef", &name);
            self.push(l);
        }
        let l = self.decorate("define", &def);
        self.push(l);
    }

    fn undef_line(&mut self) {
        let pool = ["QA", "QB", "QC", "QD", "QP", "QR", "QF", "QG", "DEFINED", "QU1"];
        let n = *self.rng.pick(&pool);
        let l = self.decorate("undef", n);
        self.push(l);
    }

    fn misc_line(&mut self) {
        let live = self.pp.is_active();
        match self.rng.below(7) {
            0 | 1 | 6 if !self.include_names.is_empty() => {
                let n = self.rng.pick(&self.include_names).clone();
                self.push(format!("#include \"{}\"", n));
            }
            2 if !live => self.push("#include \"missing_file.h\"".to_string()),
            3 if !live => {
                let l = *self.rng.pick(&["#error this group is skipped", "#pragma once", "#frobnicate 1 2 3", "#pragma unknown_pragma", "#line 7"]);
                self.push(l.to_string());
            }
            4 => self.push(String::new()),
            _ => self.text_line(),
        }
    }

    fn block(&mut self, depth: usize) {
        let n = 1 + self.rng.below(4);
        for _ in 0..n {
            if self.lines.len() >= self.line_budget {
                break;
            }
            let k = self.rng.below(100);
            if k < 35 {
                self.text_line();
            } else if k < 55 {
                self.define_line();
            } else if k < 62 {
                self.undef_line();
            } else if k < 72 {
                self.misc_line();
            } else if depth < self.max_depth {
                self.if_section(depth);
            } else {
                self.text_line();
            }
        }
    }

    fn if_section(&mut self, depth: usize) {
        let live = self.pp.is_active();
        let opener = match self.rng.below(10) {
            0..=4 => {
                let c = self.condition(live, false);
                self.decorate("if", &c)
            }
            5..=7 => {
                let n = self.flag_name();
                self.decorate("ifdef", &n)
            }
            _ => {
                let n = self.flag_name();
                self.decorate("ifndef", &n)
            }
        };
        self.push(opener);
        self.block(depth + 1);
        let elifs = match self.rng.below(10) {
            0..=4 => 0,
            5..=7 => 1,
            8 => 2,
            _ => 3,
        };
        for _ in 0..elifs {
            // C evaluates an #elif only when no group of the chain was taken yet (which implies the chain is not in a skipped group)
            let evaluated = matches!(self.pp.top_state(), Some((St::NotYetTaken, _)));
            let c = self.condition(evaluated, true);
            let l = self.decorate("elif", &c);
            self.push(l);
            self.block(depth + 1);
        }
        if self.rng.chance(3, 5) {
            let l = self.decorate("else", "");
            self.push(l);
            self.block(depth + 1);
        }
        let l = self.decorate("endif", "");
        self.push(l);
    }

    fn flag_name(&mut self) -> String {
        let pool = ["QP", "QR", "DEFINED", "UNDEFINED", "QA", "QB", "QF", "QU1"];
        self.rng.pick(&pool).to_string()
    }
}

/// Include files: balanced, and well-formed whatever the macro state at the point of inclusion is
fn include_file(rng: &mut Rng, index: usize, id_base: u32) -> String {
    let mut s = String::new();
    let mut id = id_base;
    let pragma_once = rng.below(4);
    if pragma_once == 0 {
        s.push_str("#pragma once\n");
    }
    let mut text = |s: &mut String| {
        s.push_str(&format!("T{} QA QB QP ;\n", id));
        id += 1;
    };
    text(&mut s);
    if pragma_once == 1 {
        // must have no effect: the group is skipped
        s.push_str("#if 0\n#pragma once\n#endif\n");
    }
    if pragma_once == 2 {
        s.push_str("#ifdef UNDEFINED\n#pragma once\n#else\n");
        text(&mut s);
        s.push_str("#endif\n");
    }
    let flag = *rng.pick(&["QP", "QR", "DEFINED", "UNDEFINED", "QA"]);
    let opener = match rng.below(3) {
        0 => format!("#ifdef {}", flag),
        1 => format!("#ifndef {}", flag),
        _ => format!("#if defined({}) || QB > {}", flag, rng.below(3)),
    };
    s.push_str(&opener);
    s.push('\n');
    s.push_str(&format!("#undef QA\n#define QA {}\n", 7000 + index * 10 + rng.below(5)));
    text(&mut s);
    if rng.chance(1, 2) {
        s.push_str("#else\n");
        s.push_str(&format!("#undef QB\n#define QB {}\n", 8000 + index * 10 + rng.below(5)));
        text(&mut s);
    }
    s.push_str("#endif\n");
    text(&mut s);
    s
}

fn nested_case(seed: u64, index: u64) -> Case {
    let mut rng = Rng::for_case(seed, 0x0E57, index);
    let n_includes = if rng.chance(1, 3) { 1 + rng.below(2) } else { 0 };
    let mut files: Vec<(String, String)> = Vec::new();
    for i in 0..n_includes {
        let text = include_file(&mut rng, i, 900 + 20 * i as u32);
        files.push((format!("inc{}.h", i), text));
    }
    let mut defines: Vec<(String, String)> = vec![("DEFINED".into(), "1".into())];
    if rng.chance(1, 3) {
        defines.push(("QD".into(), "(2 > 1)".into()));
    }
    let include_names: Vec<String> = files.iter().map(|f| f.0.clone()).collect();
    let spine = rng.chance(1, 4);
    let max_depth = if spine { 8 } else { 1 + rng.below(8) };
    let final_newline = !rng.chance(1, 7);
    let lines = {
        let pp = RefPP::new(&files, "main.rssl", &defines);
        let mut prog = Prog {
            rng: rng.clone(),
            lines: Vec::new(),
            pp,
            next_id: 0,
            next_value: 1000,
            max_depth,
            line_budget: 70,
            include_names,
        };
        // function-like macros usually exist from the start
        for which in 0..2 {
            if prog.rng.chance(4, 5) {
                let d = function_macro_def(&mut prog.rng, which);
                prog.push(format!("#define {}", d));
            }
        }
        if spine {
            // a spine of sections nested to the full depth, text before and after each level
            let depth = 5 + prog.rng.below(4);
            for _ in 0..depth {
                prog.text_line();
                let live = prog.pp.is_active();
                let c = if prog.rng.chance(2, 3) { (prog.rng.below(3) != 0) as u8 } else { 2 };
                let l = if c == 2 {
                    let c = prog.condition(live, false);
                    prog.decorate("if", &c)
                } else {
                    format!("#if {}", c)
                };
                prog.push(l);
                if prog.rng.chance(1, 3) {
                    prog.define_line();
                }
            }
            prog.text_line();
            for _ in 0..depth {
                if prog.rng.chance(1, 2) {
                    let evaluated = matches!(prog.pp.top_state(), Some((St::NotYetTaken, _)));
                    let c = prog.condition(evaluated, true);
                    let l = prog.decorate("elif", &c);
                    prog.push(l);
                    prog.text_line();
                }
                if prog.rng.chance(1, 2) {
                    prog.push("#else".to_string());
                    prog.text_line();
                    if prog.rng.chance(1, 3) {
                        prog.define_line();
                    }
                }
                prog.push("#endif".to_string());
                prog.text_line();
            }
        } else {
            while prog.lines.len() < 6 || (prog.pp.max_nesting == 0 && prog.lines.len() < prog.line_budget) {
                prog.block(0);
            }
        }
        prog.text_line();
        rng = prog.rng.clone();
        prog.lines
    };
    let mut lines = lines;
    let unfaulted = lines.clone();
    let mut kind = if spine { "nested:spine".to_string() } else { "nested:tree".to_string() };
    // structural faults: the reference decides from the final text what must happen
    if rng.chance(3, 20) {
        let directive_lines: Vec<usize> = lines
            .iter()
            .enumerate()
            .filter(|(_, l)| {
                let t = l.trim_start().trim_start_matches('#').trim_start();
                l.trim_start().starts_with('#') && (t.starts_with("if") || t.starts_with("el") || t.starts_with("endif"))
            })
            .map(|(i, _)| i)
            .collect();
        match rng.below(5) {
            0 | 1 if !directive_lines.is_empty() => {
                let at = *rng.pick(&directive_lines);
                lines.remove(at);
                kind = "nested:fault_deleted_directive".into();
            }
            2 => {
                let at = rng.below(lines.len() + 1);
                lines.insert(at, "#endif".into());
                kind = "nested:fault_stray_endif".into();
            }
            3 => {
                let at = rng.below(lines.len() + 1);
                lines.insert(at, (*rng.pick(&["#else", "#elif 1", "#elif 0"])).to_string());
                kind = "nested:fault_stray_else_elif".into();
            }
            _ => {
                let at = rng.below(lines.len() + 1);
                lines.insert(at, (*rng.pick(&["#if 1", "#if 0", "#ifdef DEFINED", "#ifndef DEFINED"])).to_string());
                kind = "nested:fault_stray_if".into();
            }
        }
    }
    let join = |lines: &[String]| {
        let mut text = lines.join("\n");
        if final_newline {
            text.push('\n');
        }
        text
    };
    files.insert(0, ("main.rssl".to_string(), join(&lines)));
    if kind.starts_with("nested:fault") {
        // generator avoidance for known finding KF-C11-1: an injected fault can leave an #elif that C does not evaluate
        // with a condition that has no value under the macro table now in force; such inputs are left to the directed probes
        if refpp::run(&files, "main.rssl", &defines).unevaluated_elif_malformed.is_some() {
            files[0].1 = join(&unfaulted);
            kind = if spine { "nested:spine".to_string() } else { "nested:tree".to_string() };
        }
    }
    Case {
        kind,
        files,
        entry: "main.rssl".into(),
        defines,
    }
}

// ------------------------------------------------------------------------------------------------
// (4) random conditions
// ------------------------------------------------------------------------------------------------

fn condition_case(seed: u64, index: u64) -> Case {
    let mut rng = Rng::for_case(seed, 0xC04D, index);
    let mut text = String::new();
    let mut defines: Vec<(String, String)> = Vec::new();
    if rng.chance(1, 2) {
        defines.push(("DEFINED".into(), "1".into()));
    }
    let mut names = Names::default();
    names.values.extend(UNKNOWN_IDS.iter().map(|s| s.to_string()));
    names.flags.extend(["DEFINED", "UNDEFINED", "QU1"].iter().map(|s| s.to_string()));
    // object macros with expression bodies (low index first so that bodies can chain)
    for (i, m) in VALUE_MACROS.iter().enumerate() {
        if rng.chance(2, 3) {
            let body = value_macro_body(&mut rng, i);
            text.push_str(&format!("#define {} {}\n", m, body));
        }
        // defined or not, the name is usable: an identifier that is not a macro is 0
        names.values.push(m.to_string());
        names.flags.push(m.to_string());
    }
    for which in 0..2 {
        if rng.chance(2, 3) {
            let d = function_macro_def(&mut rng, which);
            text.push_str(&format!("#define {}\n", d));
            names.functions.push((FUNCTION_MACROS[which].0.to_string(), FUNCTION_MACROS[which].1));
        } else if rng.chance(1, 3) {
            // the bare name of a function-like macro... that does not exist: identifier, 0
            names.values.push(FUNCTION_MACROS[which].0.to_string());
        }
        names.flags.push(FUNCTION_MACROS[which].0.to_string());
    }
    if rng.chance(1, 3) {
        text.push_str("#define QP\n");
    }
    names.flags.push("QP".into());

    let depth = 1 + rng.below(5) as u32;
    let e = gen_expr(&mut rng, depth, &names, false);
    let mut cond = String::new();
    render_expr(&mut rng, &e, 0, &mut cond);
    let form = rng.below(4);
    let kind;
    if form == 0 {
        // pin the exact value: `(E) == v` must be true. v comes from the reference evaluation of the same text
        // under the definitions above, so the surviving branch shows whether rssl computed the same u64
        let mut pp = RefPP::new(&[], "main.rssl", &defines);
        for line in refpp::split_lines(&text) {
            pp.feed_line(line);
        }
        match refpp::eval_text(&cond, &pp.macros) {
            Ok(v) => {
                let lit = literal_text(&mut rng, v);
                cond = if rng.chance(1, 2) { format!("({}) == {}", cond, lit) } else { format!("{} == ({})", lit, cond) };
                kind = "condition:pinned_value";
            }
            Err(_) => kind = "condition:if",
        }
    } else if form == 1 {
        kind = "condition:elif";
    } else {
        kind = "condition:if";
    }
    if kind == "condition:elif" {
        text.push_str(&format!("#if 0\nT0 ;\n#elif {}\nT1 ;\n#else\nT2 ;\n#endif\nT3 ;\n", cond));
    } else {
        text.push_str(&format!("#if {}\nT1 ;\n#else\nT2 ;\n#endif\nT3 ;\n", cond));
    }
    let kind = format!("{}:depth{}", kind, expr_depth(&e).min(9));
    Case {
        kind,
        files: vec![("main.rssl".into(), text)],
        entry: "main.rssl".into(),
        defines,
    }
}

// ------------------------------------------------------------------------------------------------
// (5) directed probes
// ------------------------------------------------------------------------------------------------

fn probes() -> Vec<Case> {
    let d = [("DEFINED", "1")];
    let mut v = Vec::new();
    let mut add = |name: &str, text: &str| v.push(Case::single(&format!("probe:{}", name), text.to_string(), &d));
    // --- what C does not evaluate
    add(
        "elif_in_skipped_group_uses_macro_of_that_group",
        "#ifdef UNDEFINED\n#define QF(qx) (qx > 1)\n#if QF(3)\nT1 ;\n#elif QF(2)\nT2 ;\n#endif\n#endif\nT3 ;\n",
    );
    add("elif_after_taken_group_uses_unknown_function_macro", "#if 1\nT1 ;\n#elif QF(2)\nT2 ;\n#endif\nT3 ;\n");
    add("if_in_skipped_group_garbage", "#if 0\n#if ) 1 ( QF(\nT1 ;\n#endif\n#endif\nT3 ;\n");
    add("skipped_include_of_missing_file", "#if 0\n#include \"missing_file.h\"\n#endif\nT1 ;\n#ifndef DEFINED\n#include \"missing_file.h\"\n#else\nT2 ;\n#endif\n");
    add("skipped_unknown_directives", "#if 0\n#error no\n#frobnicate\n#pragma whatever\n#line 3\n#else\nT1 ;\n#endif\n");
    // --- structure
    add("unmatched_elif", "T1 ;\n#elif 1\nT2 ;\n");
    add("unmatched_else", "T1 ;\n#else\nT2 ;\n");
    add("unmatched_endif", "T1 ;\n#endif\nT2 ;\n");
    add("endif_twice", "#if 1\nT1 ;\n#endif\n#endif\n");
    add("unterminated_live", "#if 1\nT1 ;\n");
    add("unterminated_skipped", "#if 0\nT1 ;\n");
    add("unterminated_nested_in_skipped", "#if 0\n#if 1\n#endif\nT1 ;\n");
    add("unterminated_after_else", "#if 0\n#else\nT1 ;\n");
    add("unterminated_no_final_newline", "#if 1\nT1 ;");
    add("endif_no_final_newline", "#if 0\nT1 ;\n#else\nT2 ;\n#endif");
    add("else_no_final_newline_unterminated", "#if 0\nT1 ;\n#else");
    // --- formatting of directive lines
    add("spaces_and_comments", "  #  if 1 // yes\nT1 ;\n\t#\telse /* no */\nT2 ;\n # endif // done\nT3 ;\n");
    add("comment_inside_condition", "#if 1 /* a */ && /* b */ 0\nT1 ;\n#else\nT2 ;\n#endif\n");
    // --- values
    add("unsigned_compare_2_63", "#if 9223372036854775808 > 1\nT1 ;\n#else\nT2 ;\n#endif\n#if 0x8000000000000000 < 0x7fffffffffffffff\nT3 ;\n#else\nT4 ;\n#endif\n");
    add("max_u64", "#if 18446744073709551615 == 0xFFFFFFFFFFFFFFFF && !(18446744073709551615 < 18446744073709551614)\nT1 ;\n#else\nT2 ;\n#endif\n");
    add("not_binds_tighter", "#if !0 == 1\nT1 ;\n#endif\n#if ! 1 < 1\nT2 ;\n#endif\n#if !(1 < 1)\nT3 ;\n#endif\n");
    add("relational_before_equality", "#if 0 == 0 < 1\nT1 ;\n#else\nT2 ;\n#endif\n#if 1 < 2 == 1\nT3 ;\n#else\nT4 ;\n#endif\n");
    add("chained_relational", "#if 3 > 2 > 1\nT1 ;\n#else\nT2 ;\n#endif\n#if 1 <= 1 <= 1\nT3 ;\n#else\nT4 ;\n#endif\n");
    add("textual_substitution", "#define QA 1 == 2\n#if !QA\nT1 ;\n#else\nT2 ;\n#endif\n#define QB 0 || 1\n#if QB && 0\nT3 ;\n#else\nT4 ;\n#endif\n");
    add("function_macro_name_without_arguments", "#define QG(qx) qx\n#if QG\nT1 ;\n#else\nT2 ;\n#endif\n#if QG == 0 && defined QG && defined(QG)\nT3 ;\n#endif\n");
    add("empty_macro_is_defined", "#define QP\n#ifdef QP\nT1 ;\n#endif\n#if defined QP && defined(QP) && defined ( QP )\nT2 ;\n#endif\n#ifndef QP\nT3 ;\n#endif\n");
    add("defined_does_not_expand_operand", "#define QA QB\n#if defined QA && !defined QB && defined(QA) && !defined(QB)\nT1 ;\n#else\nT2 ;\n#endif\n");
    add("undef_then_ifdef", "#define QA 1\n#undef QA\n#ifdef QA\nT1 ;\n#else\nT2 ;\n#endif\n#if QA\nT3 ;\n#else\nT4 ;\n#endif\n");
    add("deep_parentheses", &format!("#if {}1{}\nT1 ;\n#else\nT2 ;\n#endif\n", "(".repeat(40), ")".repeat(40)));
    add("many_nots", "#if !!!!!!!0\nT1 ;\n#else\nT2 ;\n#endif\n#if !!!!!!0\nT3 ;\n#else\nT4 ;\n#endif\n");
    add("literal_suffix_u", "#if 1u && 4294967296u > 1U\nT1 ;\n#else\nT2 ;\n#endif\n");
    // --- integer suffixes C allows in #if (the common `#if VERSION >= 201103L` idiom)
    add("literal_suffix_l", "#if 201103L >= 201103L\nT1 ;\n#else\nT2 ;\n#endif\n");
    add("literal_suffix_ul", "#if 1ul\nT1 ;\n#else\nT2 ;\n#endif\n");
    // --- effects inside unselected groups
    add(
        "define_undef_in_every_kind_of_dead_group",
        "#define QA 1\n#if 0\n#undef QA\n#define QB 2\n#elif 1\nT1 QA QB ;\n#elif 1\n#undef QA\n#define QB 3\n#else\n#undef QA\n#define QB 4\n#endif\nT2 QA QB ;\n#ifdef QB\nT3 ;\n#endif\n",
    );
    v.push(Case {
        kind: "probe:pragma_once_in_skipped_group".into(),
        files: vec![
            ("main.rssl".into(), "#include \"a.h\"\n#include \"a.h\"\n#include \"b.h\"\n#include \"b.h\"\nT9 ;\n".into()),
            ("a.h".into(), "#if 0\n#pragma once\n#endif\nT1 ;\n".into()),
            ("b.h".into(), "#ifdef DEFINED\n#pragma once\n#endif\nT2 ;\n".into()),
        ],
        entry: "main.rssl".into(),
        defines: vec![("DEFINED".into(), "1".into())],
    });
    v.push(Case {
        kind: "probe:include_in_skipped_group".into(),
        files: vec![
            ("main.rssl".into(), "#if 0\n#include \"a.h\"\n#elif 1\nT1 QA ;\n#else\n#include \"a.h\"\n#endif\nT2 QA ;\n#include \"a.h\"\nT3 QA ;\n".into()),
            ("a.h".into(), "#define QA 5\nT7 ;\n".into()),
        ],
        entry: "main.rssl".into(),
        defines: vec![],
    });
    v
}

// ------------------------------------------------------------------------------------------------
// run / replay
// ------------------------------------------------------------------------------------------------

fn run(ctx: &Ctx) -> Report {
    let mut total = Report::new();
    match oracle_self_check(ctx.seed) {
        Ok(n) => total.count_n("oracle_self_check:expressions_agreeing", n),
        Err(e) => {
            total.inconclusive(&e);
            return total;
        }
    }

    // (5) directed probes
    let probe_cases = probes();
    let mut r = par::run_cases(ctx, probe_cases.len() as u64, |i, report| examine(&probe_cases[i as usize], report));
    r.counters.remove("cases_run");
    total.merge(r);

    // (1) exhaustive slice
    let max_len = ctx.tier.pick(5, 6) as u32;
    let n_enum = enumeration_size(max_len);
    let mut r = par::run_cases(ctx, n_enum, |i, report| {
        let seq = nth_sequence(i, max_len);
        report.count(&format!("exhaustive:length{}", seq.len()));
        report.exhaustive = Some(true);
        examine(&sequence_case("exhaustive", &seq), report);
    });
    let done = r.counters.get("cases_run").copied().unwrap_or(0);
    r.counters.remove("cases_run");
    total.count_n("exhaustive:sequences_enumerated", done);
    if done == n_enum {
        total.notes.push(format!(
            "exhaustive: all {} sequences of length 0..={} over the 12 symbol alphabet were run; lengths {}..=9 are sampled at random (12^9 = 5.2e9 is not enumerable per run)",
            n_enum,
            max_len,
            max_len + 1
        ));
        let get = |k: &str| r.counters.get(k).copied().unwrap_or(0);
        total.notes.push(format!(
            "exhaustive slice by reference verdict: {} sequences have a balanced chain (exact token sequence compared), {} have broken structure (must be rejected), {} contain #elif/#else after #else (no reference value, skipped)",
            get("expected:exhaustive:tokens"),
            get("expected:exhaustive:reject"),
            get("expected:exhaustive:noref")
        ));
    } else {
        r.exhaustive = Some(false);
    }
    total.merge(r);

    // (2) random sequences of length 7-9
    let n_random = ctx.tier.pick(300_000, 3_000_000);
    let seed = ctx.seed;
    let mut r = par::run_cases(ctx, n_random, |i, report| {
        let mut rng = Rng::for_case(seed, 0x5E9, i);
        let len = 7 + rng.below(3);
        // half of the sequences are drawn uniformly, half are biased towards balanced chains
        let seq: Vec<u8> = if rng.chance(1, 2) {
            (0..len).map(|_| rng.below(12) as u8).collect()
        } else {
            let mut open = 0;
            (0..len)
                .map(|k| {
                    let remaining = len - k;
                    let s = if open > 0 && (open >= remaining || rng.chance(1, 3)) {
                        if open >= remaining || rng.chance(1, 2) {
                            9
                        } else {
                            6 + rng.below(3) as u8
                        }
                    } else if rng.chance(2, 5) {
                        rng.below(6) as u8
                    } else {
                        10 + rng.below(2) as u8
                    };
                    if s < 6 {
                        open += 1;
                    } else if s == 9 && open > 0 {
                        open -= 1;
                    }
                    s
                })
                .collect()
        };
        report.count(&format!("random_sequence:length{}", seq.len()));
        examine(&sequence_case("random_sequence", &seq), report);
    });
    r.counters.remove("cases_run");
    total.merge(r);

    // (3) structured programs, (4) conditions
    let n_nested = ctx.tier.pick(120_000, 1_500_000);
    let mut r = par::run_cases(ctx, n_nested, |i, report| examine(&nested_case(seed, i), report));
    r.counters.remove("cases_run");
    total.merge(r);
    let n_cond = ctx.tier.pick(250_000, 3_000_000);
    let mut r = par::run_cases(ctx, n_cond, |i, report| examine(&condition_case(seed, i), report));
    r.counters.remove("cases_run");
    total.merge(r);

    total
}

fn replay(_ctx: &Ctx, witness: &Json) -> Report {
    let case = Case::from_json(witness);
    let mut report = Report::new();
    examine(&case, &mut report);
    report
}
