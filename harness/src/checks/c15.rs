//! C15 - not built yet
