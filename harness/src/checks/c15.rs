//! C15 - renaming is harmless and emitted names are hygienic.
//!
//! Programs are generated with identifier placeholders and rendered under a neutral naming s0 and a second
//! injective naming s1 that is either fresh or adversarial (reserved words / built-in names of both targets,
//! names of the form x_N, the exporters' own generated names). Differential monitor: output(s1) equals
//! output(s0) with the renaming applied (fresh s1). Invariant monitors on the emitted trees: no declared name
//! is reserved in the target (independent lists), no two entities of one scope share a name, fresh unique names
//! are kept verbatim. Execution leg: the renamed program still means the same (C01/C02 oracles).

use crate::gen::prog::{self, IdKind, Program};
use crate::json::Json;
use crate::oracle::{decls, names};
use crate::report::{Ctx, Report};
use crate::rng::{hash_str, Rng};
use crate::rs::{self, Mode, Opts, Outcome, Tgt};
use crate::CheckDef;
use std::collections::{BTreeMap, HashSet};

pub fn def() -> CheckDef {
    CheckDef {
        id: "C15",
        salt: 0xC15,
        rule: "generated programs with identifier placeholders (gen::prog, no double) rendered under a neutral naming s0 and an injective \
               naming s1: (A) fresh random names, (B) adversarial names for a random subset of the identifiers - every keyword / type / \
               builtin name of the oracle's own HLSL and MSL lists, names of the form <other identifier>_N, and the exporters' own generated \
               names (out, in, __x, ArgumentBuffer0, ComputeShaderEntry, helper, metal ...); renamings that RSSL itself rejects are skipped. \
               Targets: HlslForDirectX and Msl. evaluations = (program, naming, target) outputs examined; distinct_nontrivial = distinct \
               (program, naming) pairs for which both namings compiled",
        assumptions: &[
            "reserved / built-in name lists were written for the oracle from the HLSL and Metal language references and kept to unquestionably reserved names",
            "'kept verbatim' is only checked for fresh neutral names (which no list reserves) that are not overloaded or templates",
            "meaning after renaming is checked with the C01 / C02 oracles (same trusted base)",
        ],
        min_distinct: (300, 6000),
        deadline_s: (100.0, 900.0),
        run,
        replay,
    }
}

const GENERATED_NAMES: &[&str] = &[
    "out", "in", "helper", "metal", "ArgumentBuffer0", "ArgumentBuffer1", "ComputeShaderEntry", "PixelShaderEntry", "VertexShaderEntry", "VertexOutput",
    "PixelInput", "PixelOutput", "o_mesh", "o_payload", "set0", "g_inlineDescriptor0", "thread_index_in_simdgroup", "threads_per_simdgroup", "true_type",
];

fn fresh_name(rng: &mut Rng, n: usize) -> String {
    let letters = b"abcdefghijkmnopqrstuvwxyz";
    let mut s = String::from("q");
    for _ in 0..4 {
        s.push(letters[rng.below(letters.len())] as char);
    }
    // no trailing _digits: those look like generated suffixes
    format!("{}{}k", s, n)
}

pub struct Naming {
    pub names: Vec<String>,
    pub adversarial: Vec<usize>,
    /// a global variable shares its name with a variable of another namespace or with a local: the Metal exporter passes
    /// mutable globals as parameters named by their leaf name, so such programs hit KF-C15-8 / KF-C15-9 and executing the
    /// emitted Metal (with globals matched by leaf name) says nothing further
    pub shared_global_name: bool,
}

pub fn naming(p: &Program, rng: &mut Rng, adversarial: bool) -> Naming {
    let hlsl = names::hlsl_reserved();
    let msl = names::msl_reserved();
    let mut used: HashSet<String> = HashSet::new();
    let mut out = Vec::new();
    let mut adv = Vec::new();
    // few adversarial names per program: most reserved spellings are rejected by RSSL itself in most positions, and one
    // rejected identifier loses the whole program
    let mut chosen: HashSet<usize> = HashSet::new();
    if adversarial && !p.idents.is_empty() {
        for _ in 0..1 + rng.below(3) {
            chosen.insert(rng.below(p.idents.len()));
        }
    }
    // coordinated pair (a third of the adversarial namings): a global-scope entity G that the exporters will rename
    // (reserved spelling, or member of an overload / template set) and locals / parameters spelled like the names the
    // exporters generate for it (G_0, G_1, G_0_0) in a function that uses G - the situation in which a generated name can
    // capture, or be captured by, a user name
    let mut forced: Vec<Option<String>> = vec![None; p.idents.len()];
    if adversarial && !p.idents.is_empty() && rng.chance(1, 3) {
        let placeholder = |i: usize| format!("\u{1}{}\u{2}", i);
        let globals: Vec<usize> = (0..p.idents.len()).filter(|i| matches!(p.idents[*i].kind, IdKind::Global | IdKind::Function | IdKind::Struct | IdKind::Enum)).collect();
        if !globals.is_empty() {
            let use_multi = !p.multi.is_empty() && rng.chance(1, 3);
            let g = if use_multi { *rng.pick(&p.multi) } else { *rng.pick(&globals) };
            let gname = if use_multi {
                fresh_name(rng, g)
            } else {
                match rng.below(3) {
                    0 => rng.pick(&hlsl).clone(),
                    _ => rng.pick(&msl).clone(),
                }
            };
            forced[g] = Some(gname.clone());
            // locals and parameters declared shortly before a use of G
            let gp = placeholder(g);
            let mut near: Vec<usize> = Vec::new();
            let mut any: Vec<usize> = Vec::new();
            for (i, id) in p.idents.iter().enumerate() {
                if !matches!(id.kind, IdKind::Local | IdKind::Param) {
                    continue;
                }
                any.push(i);
                if let Some(pos) = p.template.find(&placeholder(i)) {
                    let end = (pos + 700).min(p.template.len());
                    let mut end = end;
                    while !p.template.is_char_boundary(end) {
                        end -= 1;
                    }
                    if p.template[pos..end].contains(&gp) {
                        near.push(i);
                    }
                }
            }
            // ... and an enumerator of that spelling: enumerators keep their names and share the scope of their enum
            let enumerators: Vec<usize> = (0..p.idents.len()).filter(|i| p.idents[*i].kind == IdKind::EnumValue).collect();
            if !enumerators.is_empty() && rng.chance(1, 2) {
                let e = *rng.pick(&enumerators);
                forced[e] = Some(format!("{}{}", gname, rng.pick(&["_0", "_1", "_1", "_2"])));
            }
            let pool = if near.is_empty() { any } else { near };
            if !pool.is_empty() {
                for (k, form) in ["_0", "_1", "_0_0"].iter().enumerate() {
                    if k > 0 && rng.chance(1, 2) {
                        continue;
                    }
                    let l = *rng.pick(&pool);
                    if forced[l].is_none() {
                        forced[l] = Some(format!("{}{}", gname, form));
                    }
                }
            }
        }
    }
    for (i, id) in p.idents.iter().enumerate() {
        let mut name = fresh_name(rng, i);
        if let Some(f) = &forced[i] {
            if !used.contains(f) {
                name = f.clone();
                adv.push(i);
            }
        } else if chosen.contains(&i) {
            let candidate = match rng.below(6) {
                0 | 1 => rng.pick(&hlsl).clone(),
                2 | 3 => rng.pick(&msl).clone(),
                4 => rng.pick(GENERATED_NAMES).to_string(),
                _ => {
                    // <name of another identifier>_N and __<name>
                    if out.is_empty() {
                        "x_0".to_string()
                    } else {
                        let other: &String = &out[rng.below(out.len())];
                        if rng.chance(1, 4) {
                            format!("__{}", other)
                        } else {
                            format!("{}_{}", other, rng.below(3))
                        }
                    }
                }
            };
            // type-like identifiers must stay usable as types: keywords that are statements cannot work anyway; rssl decides
            let _ = id.kind;
            if !used.contains(&candidate) {
                name = candidate;
                adv.push(i);
            }
        }
        while used.contains(&name) {
            name.push('z');
        }
        used.insert(name.clone());
        out.push(name);
    }
    // names shared between namespaces, locals and globals (a quarter of the adversarial namings): a variable inside a namespace
    // takes the name of a global-scope variable (or of a variable of another namespace), a local / parameter takes the name of a
    // global. The renamed program is a program of its own: what it means is established on itself (M3), so a shadowing that the
    // sharing creates in the source is part of that meaning and must survive the export.
    let mut shared_global_name = false;
    if adversarial && rng.chance(1, 4) && p.ns_of.len() == p.idents.len() {
        let vars: Vec<usize> = (0..p.idents.len()).filter(|i| p.idents[*i].kind == IdKind::Global).collect();
        let locals: Vec<usize> = (0..p.idents.len()).filter(|i| matches!(p.idents[*i].kind, IdKind::Local | IdKind::Param)).collect();
        let inside: Vec<usize> = vars.iter().copied().filter(|i| p.ns_of[*i].is_some()).collect();
        for _ in 0..1 + rng.below(2) {
            if !inside.is_empty() && rng.chance(1, 2) {
                let n = *rng.pick(&inside);
                let others: Vec<usize> = vars.iter().copied().filter(|o| *o != n && p.ns_of[*o] != p.ns_of[n]).collect();
                if !others.is_empty() {
                    let o = *rng.pick(&others);
                    out[n] = out[o].clone();
                    shared_global_name = true;
                    adv.push(n);
                    adv.push(o);
                }
            } else if !locals.is_empty() && !vars.is_empty() {
                let l = *rng.pick(&locals);
                let g = *rng.pick(&vars);
                out[l] = out[g].clone();
                shared_global_name = true;
                adv.push(l);
                adv.push(g);
            }
        }
        adv.sort();
        adv.dedup();
    }
    Naming { names: out, adversarial: adv, shared_global_name }
}

fn tokens(text: &str) -> Vec<String> {
    let mut out = Vec::new();
    let chars: Vec<char> = text.chars().collect();
    let mut i = 0;
    while i < chars.len() {
        let c = chars[i];
        let start = i;
        if c.is_alphabetic() || c == '_' {
            while i < chars.len() && (chars[i].is_alphanumeric() || chars[i] == '_') {
                i += 1;
            }
        } else if c.is_ascii_digit() {
            // numbers incl. suffix letters and exponents
            while i < chars.len() && (chars[i].is_alphanumeric() || chars[i] == '.' || ((chars[i] == '+' || chars[i] == '-') && (chars[i - 1] == 'e' || chars[i - 1] == 'E'))) {
                i += 1;
            }
        } else {
            i += 1;
        }
        out.push(chars[start..i].iter().collect());
    }
    out
}

/// Apply the renaming s0 -> s1 to emitted text: exact names, generated suffix forms name_N and __name
fn rename_text(text: &str, map: &BTreeMap<String, String>) -> String {
    let mut out = String::with_capacity(text.len());
    for t in tokens(text) {
        if let Some(n) = map.get(&t) {
            out.push_str(n);
            continue;
        }
        // name_N
        if let Some(pos) = t.rfind('_') {
            let (base, suffix) = (&t[..pos], &t[pos + 1..]);
            if !suffix.is_empty() && suffix.chars().all(|c| c.is_ascii_digit()) {
                // possibly several suffixes: name_0_1
                let renamed_base = rename_text(base, map);
                if renamed_base != base {
                    out.push_str(&format!("{}_{}", renamed_base, suffix));
                    continue;
                }
            }
        }
        if let Some(base) = t.strip_prefix("__") {
            if let Some(n) = map.get(base) {
                out.push_str(&format!("__{}", n));
                continue;
            }
        }
        out.push_str(&t);
    }
    out
}

fn compile_one(text: &str, t: Tgt) -> Outcome {
    rs::compile_text(text, &Opts::new(t, Mode::NoPipeline))
}

struct Case {
    program: Program,
    s1: Naming,
    mode: &'static str,
}

/// Hand written programs for shapes the generator does not produce. `@x@` marks an identifier; (name, kind, namespace) lists them.
fn directed_programs() -> Vec<Program> {
    let specs: Vec<(&str, Vec<(&str, IdKind, Option<&str>)>)> = vec![
        (
            // structs of two namespaces bound to the parameters of one function template; enums and constants of two namespaces
            "namespace @NA@\n{\n    struct @SA@ { float @ma@; };\n    enum @EA@ { @VA0@, @VA1@ = 4 };\n    static const int @CA@ = 3;\n}\nnamespace @NB@\n{\n    struct @SB@ { float @mb@; };\n    enum @EB@ { @VB0@ = 2, @VB1@ };\n    static const int @CB@ = 5;\n}\ntemplate<typename @TA@, typename @TB@>\nfloat @comb@(@TA@ @pa@, @TB@ @pb@)\n{\n    return @pa@.@ma@ + @pb@.@mb@ * 2.0f;\n}\nfloat @entry@(float @x@)\n{\n    @NA@::@SA@ @la@;\n    @la@.@ma@ = @x@;\n    @NB@::@SB@ @lb@;\n    @lb@.@mb@ = @x@ + 1.0f;\n    return @comb@(@la@, @lb@) + (float)((int)@NA@::@EA@::@VA1@ + (int)@NB@::@EB@::@VB1@ * 10 + @NA@::@CA@ * 100 + @NB@::@CB@ * 1000);\n}\n",
            vec![
                ("NA", IdKind::Namespace, None), ("SA", IdKind::Struct, Some("NA")), ("ma", IdKind::Member, None), ("EA", IdKind::Enum, Some("NA")), ("VA0", IdKind::EnumValue, None), ("VA1", IdKind::EnumValue, None), ("CA", IdKind::Global, Some("NA")),
                ("NB", IdKind::Namespace, None), ("SB", IdKind::Struct, Some("NB")), ("mb", IdKind::Member, None), ("EB", IdKind::Enum, Some("NB")), ("VB0", IdKind::EnumValue, None), ("VB1", IdKind::EnumValue, None), ("CB", IdKind::Global, Some("NB")),
                ("TA", IdKind::TemplateParam, None), ("TB", IdKind::TemplateParam, None), ("comb", IdKind::Function, None), ("pa", IdKind::Param, None), ("pb", IdKind::Param, None),
                ("entry", IdKind::Function, None), ("x", IdKind::Param, None), ("la", IdKind::Local, None), ("lb", IdKind::Local, None),
            ],
        ),
        (
            // wave intrinsics: the Metal exporter threads the lane count / lane index through every function on the call path as
            // implicit parameters with names of its own
            "static int @G@ = 3;\nint @lanes@(int @p@)\n{\n    int @l@ = (int)WaveGetLaneCount() * 2;\n    int @m@ = (int)WaveGetLaneIndex();\n    return @l@ + @m@ + @p@ + @G@;\n}\nint @entry@(int @x@)\n{\n    int @y@ = @lanes@(@x@);\n    return @y@ + (int)WaveGetLaneCount();\n}\n",
            vec![
                ("G", IdKind::Global, None), ("lanes", IdKind::Function, None), ("p", IdKind::Param, None), ("l", IdKind::Local, None), ("m", IdKind::Local, None),
                ("entry", IdKind::Function, None), ("x", IdKind::Param, None), ("y", IdKind::Local, None),
            ],
        ),
        (
            // constant buffers inside namespaces, read from inside and outside: their members are named through the namespace
            "namespace @NS@\n{\n    cbuffer @CB@\n    {\n        float4 @cv@;\n    }\n    float @g@()\n    {\n        return @cv@.y;\n    }\n    namespace @IN@\n    {\n        cbuffer @CD@\n        {\n            float @dv@;\n        }\n        float @h@()\n        {\n            return @dv@ + @cv@.z;\n        }\n    }\n}\nfloat @entry@(float @x@)\n{\n    return @NS@::@cv@.x + @NS@::@g@() + @NS@::@IN@::@dv@ + @NS@::@IN@::@h@() + @x@;\n}\n",
            vec![
                ("NS", IdKind::Namespace, None), ("CB", IdKind::Struct, Some("NS")), ("cv", IdKind::Member, None), ("g", IdKind::Function, None), ("IN", IdKind::Namespace, None),
                ("CD", IdKind::Struct, None), ("dv", IdKind::Member, None), ("h", IdKind::Function, None), ("entry", IdKind::Function, None), ("x", IdKind::Param, None),
            ],
        ),
        (
            // locals only: a local the exporters have to rename (its spelling is reserved in one target) next to constant and
            // ordinary locals spelled like the names the exporters generate for it
            "int @f@(int @x@)\n{\n    const int @lc@ = 3;\n    int @lr@ = @x@ + 2;\n    const float @ld@ = 1.5f;\n    int @le@ = @lr@ * 2;\n    @lr@ += @lc@;\n    return @lr@ * 1000 + @lc@ * 100 + (int)(@ld@ * 4.0f) * 10 + @le@;\n}\nint @entry@(int @y@)\n{\n    return @f@(@y@) + @f@(@y@ + 1);\n}\n",
            vec![
                ("f", IdKind::Function, None), ("x", IdKind::Param, None), ("lc", IdKind::Local, None), ("lr", IdKind::Local, None), ("ld", IdKind::Local, None), ("le", IdKind::Local, None),
                ("entry", IdKind::Function, None), ("y", IdKind::Param, None),
            ],
        ),
    ];
    let mut out = Vec::new();
    for (text, ids) in specs {
        let mut template = text.to_string();
        let mut idents = Vec::new();
        let mut ns_of = Vec::new();
        for (i, (name, kind, _)) in ids.iter().enumerate() {
            template = template.replace(&format!("@{}@", name), &format!("\u{1}{}\u{2}", i));
            idents.push(prog::Ident { kind: *kind, name: format!("d{}", name) });
        }
        for (_, _, ns) in &ids {
            ns_of.push(ns.and_then(|n| ids.iter().position(|(m, _, _)| m == &n)));
        }
        let entries = ids.iter().position(|(n, _, _)| *n == "entry").into_iter().collect();
        let multi = ids.iter().position(|(n, _, _)| *n == "comb").into_iter().collect();
        out.push(Program { template, idents, entries, features: vec!["directed"], multi, ns_of });
    }
    out
}

fn make_case(seed: u64, index: u64) -> Case {
    let mut rng = Rng::for_case(seed, 0x15a, index);
    if index % 16 == 15 {
        // a directed program under an adversarial naming that shares names between the namespaces
        let programs = directed_programs();
        // (index / 16 is never 2 mod 3 here: those indices are the resource programs of `run`; divide once more)
        let program = programs[(index / 48) as usize % programs.len()].clone();
        let mut s1 = naming(&program, &mut rng, true);
        for kind in [IdKind::Struct, IdKind::Enum, IdKind::Global] {
            if rng.chance(2, 3) {
                let same: Vec<usize> = (0..program.idents.len()).filter(|i| program.idents[*i].kind == kind && program.ns_of[*i].is_some()).collect();
                if same.len() >= 2 {
                    s1.names[same[1]] = s1.names[same[0]].clone();
                    s1.adversarial.push(same[0]);
                    s1.adversarial.push(same[1]);
                    if kind == IdKind::Global {
                        s1.shared_global_name = true;
                    }
                }
            }
        }
        if program.template.contains("cbuffer") {
            // namespaces spelled like words one of the targets reserves (RSSL accepts them): the exporters have to rename them
            const WORDS: &[&str] = &["vector", "matrix", "string", "shared", "pass", "technique", "texture", "sampler", "kernel", "device", "constant", "thread", "fragment", "vertex", "half3", "uint2"];
            for i in 0..program.idents.len() {
                if program.idents[i].kind == IdKind::Namespace && rng.chance(2, 3) {
                    let w = rng.pick(WORDS).to_string();
                    if !s1.names.contains(&w) {
                        s1.names[i] = w;
                        s1.adversarial.push(i);
                    }
                }
            }
        }
        if program.template.contains("WaveGetLaneCount") {
            // user names spelled like the implicit parameters of the Metal exporter
            let mut spellings = vec!["threads_per_simdgroup", "thread_index_in_simdgroup"];
            rng.shuffle(&mut spellings);
            let candidates: Vec<usize> = (0..program.idents.len()).filter(|i| matches!(program.idents[*i].kind, IdKind::Local | IdKind::Param | IdKind::Global)).collect();
            for spelling in spellings.into_iter().take(1 + rng.below(2)) {
                let i = *rng.pick(&candidates);
                if !s1.names.iter().any(|n| n == spelling) {
                    s1.names[i] = spelling.to_string();
                    s1.adversarial.push(i);
                }
            }
        }
        if let Some(lr) = program.idents.iter().position(|i| i.name == "dlr") {
            // the renamed local and the generated-looking spellings around it (constant locals included)
            const WORDS: &[&str] = &["vector", "matrix", "string", "shared", "pass", "technique", "texture", "sampler", "kernel", "device", "constant", "thread", "fragment", "vertex", "half", "fixed"];
            let w = rng.pick(WORDS).to_string();
            let mut forms = vec!["_0", "_1", "_0_0"];
            rng.shuffle(&mut forms);
            let free = !s1.names.iter().any(|n| n.starts_with(&w));
            if free {
                s1.names[lr] = w.clone();
                s1.adversarial.push(lr);
            }
            for (k, other) in ["dlc", "dld", "dle"].iter().enumerate() {
                if !free || (k > 0 && rng.chance(1, 3)) {
                    continue;
                }
                if let Some(i) = program.idents.iter().position(|id| id.name == *other) {
                    s1.names[i] = format!("{}{}", w, forms[k]);
                    s1.adversarial.push(i);
                }
            }
        }
        s1.adversarial.sort();
        s1.adversarial.dedup();
        return Case { program, s1, mode: "adversarial" };
    }
    let mut cfg = prog::Config::default();
    cfg.allow_double = false;
    cfg.max_functions = 5;
    let program = prog::generate(&mut rng, cfg);
    let adversarial = index % 3 != 0;
    let s1 = naming(&program, &mut rng, adversarial);
    Case {
        program,
        s1,
        mode: if adversarial { "adversarial" } else { "fresh" },
    }
}

fn overloaded_or_template(p: &Program) -> HashSet<usize> {
    p.multi.iter().cloned().collect()
}

pub fn examine(case: &Case, origin: &str, seed: u64, report: &mut Report) -> bool {
    let p = &case.program;
    let text0 = p.render();
    let text1 = p.render_with(&|i, _| case.s1.names[i].clone());
    let mut map = BTreeMap::new();
    for (i, id) in p.idents.iter().enumerate() {
        map.insert(id.name.clone(), case.s1.names[i].clone());
    }
    let hlsl_reserved: HashSet<String> = names::hlsl_reserved().into_iter().collect();
    let msl_reserved: HashSet<String> = names::msl_reserved().into_iter().collect();
    let skip_verbatim = overloaded_or_template(p);
    let mut any = false;
    // targets whose emitted declarations clash (reported by M2): executing such output says nothing further
    let mut clash_targets: HashSet<&'static str> = HashSet::new();
    for t in [Tgt::Dx, Tgt::Msl] {
        let o0 = compile_one(&text0, t);
        let Outcome::Ok(p0) = &o0 else {
            report.count(&format!("skipped:s0-not-compiled:{}", o0.class()));
            continue;
        };
        let o1 = compile_one(&text1, t);
        let p1 = match &o1 {
            Outcome::Ok(p1) => p1,
            Outcome::Diag(d) => {
                // rssl does not allow this spelling as an identifier (or the backend rejects): outside the quantifier
                report.count("skipped:renamed-source-rejected");
                let _ = d;
                continue;
            }
            Outcome::Panic(c) => {
                report.count(&format!("skipped:panic:{}", c.signature()));
                continue;
            }
            Outcome::Budget { .. } => continue,
        };
        report.evaluations += 1;
        any = true;
        report.count(&format!("examined:{}:{}", case.mode, t.name()));
        let witness = |extra: Json| -> Json {
            Json::obj()
                .set("origin", origin)
                .set("target", t.name())
                .set("naming", case.mode)
                .set("shared_global_name", case.s1.shared_global_name)
                .set("arg_seed", Json::Str(seed.to_string()))
                .set("program_s0", text0.as_str())
                .set("program_s1", text1.as_str())
                .set("multi_s0", Json::Arr(p.multi.iter().map(|i| Json::str(&p.idents[*i].name)).collect()))
                .set("global_scope_s0", Json::Arr(p.idents.iter().filter(|i| !matches!(i.kind, IdKind::Local | IdKind::Param)).map(|i| Json::str(&i.name)).collect()))
                .set("emitted_s1", p1[0].source.as_str())
                .set("observed", extra)
        };

        // M1: identical up to renaming (fresh names only: adversarial names legitimately get suffixes)
        if case.mode == "fresh" {
            let expected = rename_text(&p0[0].source, &map);
            if expected != p1[0].source {
                let (a, b) = first_diff(&expected, &p1[0].source);
                report.violation(
                    "not-identical-up-to-renaming",
                    &format!("output for fresh names differs from the renamed output of the neutral names ({}): expected `{}`, got `{}`", t.name(), a.trim(), b.trim()),
                    witness(Json::obj().set("expected_line", a).set("actual_line", b).set("emitted_s0", p0[0].source.as_str())),
                );
            } else {
                report.count("renaming:identical");
            }
        }

        // M2: hygiene of the emitted declarations
        let reserved = if t == Tgt::Msl { &msl_reserved } else { &hlsl_reserved };
        for (which, pipe, text) in [("s0", &p0[0], &text0), ("s1", &p1[0], &text1)] {
            let Some(tree) = &pipe.tree else {
                report.inconclusive("the exporter hook recorded no syntax tree");
                continue;
            };
            let declared = decls::declared_names(tree);
            report.count_n("declarations-examined", declared.len() as u64);
            for d in &declared {
                if reserved.contains(&d.name) {
                    // scope class: names at global / namespace scope are what the name generator protects; members, methods,
                    // parameters and locals go through other paths
                    let kind_class = d.kind;
                    // the name generator has no notion of struct members, methods, enumerators and namespaces-as-reserved: for
                    // those kinds the defect is the missing mechanism, whatever the name
                    let unprotected = matches!(d.kind, "member" | "method" | "enum-value" | "namespace" | "cbuffer" | "cbuffer-member");
                    report.count(&format!("reserved-hit:{}", d.name));
                    report.violation(
                        &format!("reserved-name-declared:{}:{}:{}", if t == Tgt::Msl { "msl" } else { "hlsl" }, kind_class, if unprotected { "any-reserved-name" } else { names::name_class(&d.name, t == Tgt::Msl) }),
                        &format!("the emitted {} declares a {} named `{}`, which is reserved / built in in the target language", t.name(), d.kind, d.name),
                        witness(Json::obj().set("declaration", d.name.as_str()).set("kind", d.kind).set("scope", d.scope.as_str()).set("naming", which)),
                    );
                }
            }
            let names_now: Vec<&String> = if which == "s0" { p.idents.iter().map(|i| &i.name).collect() } else { case.s1.names.iter().collect() };
            for (a, b) in decls::clashes(&declared) {
                if which == "s1" {
                    clash_targets.insert(t.name());
                }
                let mut kinds = [a.kind, b.kind];
                kinds.sort();
                // more declarations of the name in this scope than the user has entities of that name: one of them is a
                // declaration the exporter introduced itself (an implicit parameter, a helper)
                // (a user entity reaches the output under its own name or, renamed, as <name>_N)
                let by_user = names_now
                    .iter()
                    .filter(|n| {
                        let n = n.as_str();
                        a.name == n || (a.name.len() > n.len() + 1 && a.name.starts_with(n) && a.name[n.len()..].starts_with('_') && a.name[n.len() + 1..].chars().all(|c| c.is_ascii_digit() || c == '_'))
                    })
                    .count();
                let in_scope = declared.iter().filter(|d| d.name == a.name && d.scope == a.scope).count();
                let generated = if in_scope > by_user { ":with-exporter-declaration" } else { "" };
                report.violation(
                    &format!("name-clash-in-scope:{}+{}{}", kinds[0], kinds[1], generated),
                    &format!("the emitted {} declares {} `{}` and {} `{}` in the same scope {}", t.name(), a.kind, a.name, b.kind, b.name, a.scope),
                    witness(Json::obj().set("first", a.kind).set("second", b.kind).set("name", a.name.as_str()).set("scope", a.scope.as_str()).set("naming", which)),
                );
            }
            // every qualified name starts at something the emitted text declares (a namespace, struct or enum), or at the target's
            // library namespace
            {
                let scopes: HashSet<&str> = declared.iter().filter(|d| matches!(d.kind, "namespace" | "struct" | "enum")).map(|d| d.name.as_str()).collect();
                let mut seen_roots: HashSet<String> = HashSet::new();
                for (root, full, user) in decls::qualified_name_roots(tree) {
                    if scopes.contains(root.as_str()) || root == "metal" || !seen_roots.insert(root.clone()) {
                        continue;
                    }
                    report.violation(
                        "qualified-name-starts-at-nothing-declared",
                        &format!("the emitted {} names `{}` in {}, but declares no namespace, struct or enum called `{}`", t.name(), full, user, root),
                        witness(Json::obj().set("name", full.as_str()).set("function", user.as_str()).set("naming", which)),
                    );
                }
            }
            // every call names a function that is visible from the call site
            for (callee, caller) in decls::invisible_calls(tree) {
                report.violation(
                    "call-to-invisible-function",
                    &format!("the emitted {} calls `{}` from {}, but no function of that name is visible there (one exists in another scope)", t.name(), callee, caller),
                    witness(Json::obj().set("callee", callee.as_str()).set("caller", caller.as_str()).set("naming", which)),
                );
            }
            // a name generated for a global-scope entity must not be the spelling of a user's local or parameter: both would be
            // visible in that function (source names are unique per entity in these programs, so any such pair is introduced).
            // HLSL only: the Metal output carries mutable globals as extra parameters named like the global, which this
            // declaration-level monitor cannot tell from the user's parameters (the shared name generator is exercised all the same)
            if t != Tgt::Msl {
                let user_locals: HashSet<&str> = p.idents.iter().enumerate().filter(|(_, id)| matches!(id.kind, IdKind::Local | IdKind::Param)).map(|(i, _)| names_now[i].as_str()).collect();
                let user_globals: HashSet<&str> = p.idents.iter().enumerate().filter(|(_, id)| !matches!(id.kind, IdKind::Local | IdKind::Param)).map(|(i, _)| names_now[i].as_str()).collect();
                let mut seen: HashSet<(String, &'static str)> = HashSet::new();
                for g in declared.iter().filter(|d| !d.scope.contains("()") && matches!(d.kind, "global" | "cbuffer-member" | "function" | "struct" | "enum" | "enum-value" | "typedef" | "cbuffer")) {
                    if user_locals.contains(g.name.as_str()) && !user_globals.contains(g.name.as_str()) {
                        if let Some(l) = declared.iter().find(|d| matches!(d.kind, "local" | "parameter") && d.name == g.name) {
                            if seen.insert((g.name.clone(), g.kind)) {
                                report.violation(
                                    &format!("generated-name-equals-user-local:{}", g.kind),
                                    &format!("the emitted {} gives the {} declared in {} the generated name `{}`, which is also the user's {} in {}", t.name(), g.kind, g.scope, g.name, l.kind, l.scope),
                                    witness(Json::obj().set("name", g.name.as_str()).set("global_kind", g.kind).set("local_scope", l.scope.as_str()).set("naming", which)),
                                );
                            }
                        }
                    }
                }
            }
            // kept verbatim: fresh / neutral unique names
            let declared_set: HashSet<&str> = declared.iter().map(|d| d.name.as_str()).collect();
            for (i, id) in p.idents.iter().enumerate() {
                if skip_verbatim.contains(&i) || id.kind == IdKind::TemplateParam {
                    continue;
                }
                if which == "s1" && case.s1.adversarial.contains(&i) {
                    continue;
                }
                // other identifiers with adversarial names of the form <this>_N could legitimately displace nothing; this name itself is fresh
                let name = names_now[i];
                if !text.contains(name.as_str()) {
                    continue;
                }
                if !declared_set.contains(name.as_str()) {
                    // static const globals may be folded away, parameters of removed functions etc.: only report when some
                    // declaration carries a suffixed form of the name, i.e. the entity exists but was renamed
                    // (a declaration spelled <name>_N that is itself another identifier's chosen name does not count)
                    let renamed = declared
                        .iter()
                        .find(|d| d.name.starts_with(&format!("{}_", name)) && d.name[name.len() + 1..].chars().all(|c| c.is_ascii_digit()) && !names_now.iter().any(|n| **n == d.name));
                    if let Some(r) = renamed {
                        report.violation(
                            "unique-name-not-kept",
                            &format!("the user name `{}` ({:?}) is unique and not reserved but is emitted as `{}` in {}", name, id.kind, r.name, t.name()),
                            witness(Json::obj().set("name", name.as_str()).set("emitted_as", r.name.as_str()).set("naming", which)),
                        );
                    }
                } else {
                    report.count("kept-verbatim");
                }
            }
        }
    }
    if !any {
        return false;
    }
    // M3: the renamed program still means what it says (C01 / C02 oracles on the renamed source)
    let mut sub = Report::new();
    // the execution monitors compare static globals by name: a global spelled <another global's name>_N is ambiguous with the
    // suffixed name the exporters generate for that other global
    let global_names: Vec<&String> = p.idents.iter().enumerate().filter(|(_, id)| id.kind == IdKind::Global).map(|(i, _)| &case.s1.names[i]).collect();
    let ambiguous_global = global_names.iter().any(|n| match n.rfind('_') {
        Some(pos) => {
            let (base, suffix) = (&n[..pos], &n[pos + 1..]);
            !suffix.is_empty() && suffix.chars().all(|c| c.is_ascii_digit()) && global_names.iter().any(|m| m.as_str() == base || (m != n && m.starts_with(&format!("{}_", base))))
        }
        None => false,
    });
    if ambiguous_global {
        report.count("execution-skipped:ambiguous-suffixed-global-name");
        return true;
    }
    if clash_targets.contains(Tgt::Dx.name()) {
        report.count("execution-skipped:emitted-hlsl-has-name-clash");
    } else if case.s1.shared_global_name {
        // the execution monitors key static globals by name: with one name for several globals their observations are ambiguous
        report.count("execution-skipped:hlsl-globals-share-a-name");
    } else {
        crate::checks::c01::examine_program(&text1, origin, seed, &mut sub);
    }
    if clash_targets.contains(Tgt::Msl.name()) {
        report.count("execution-skipped:emitted-msl-has-name-clash");
    } else if case.s1.shared_global_name {
        report.count("execution-skipped:msl-globals-passed-by-leaf-name");
    } else {
        crate::checks::c02::examine_program(&text1, origin, seed, &mut sub);
    }
    report.count_n("execution-samples-on-renamed-program", sub.evaluations);
    for v in sub.violations {
        // a user function spelled <other name>_N cannot be told apart by name from the suffixed instances the exporters
        // generate for overloads / templates of <other name>: the execution monitors match by name, so skip those
        if let Some(f) = v.witness.get_str("function") {
            if let Some(pos) = f.rfind('_') {
                let (base, suffix) = (&f[..pos], &f[pos + 1..]);
                if !suffix.is_empty() && suffix.chars().all(|c| c.is_ascii_digit()) && case.s1.names.iter().any(|n| n == base) {
                    report.count("execution:ambiguous-suffixed-name-skipped");
                    continue;
                }
            }
        }
        report.violation(&format!("renamed-program:{}", v.signature), &format!("after renaming ({}): {}", case.mode, v.summary), v.witness.set("naming", case.mode).set("program_s0", text0.as_str()));
    }
    for (k, n) in sub.counters {
        if k.starts_with("skipped:function-not-found-by-name") {
            report.count_n("execution:function-renamed-skipped", n);
        }
    }
    true
}

fn first_diff(a: &str, b: &str) -> (String, String) {
    let mut la = a.lines();
    let mut lb = b.lines();
    loop {
        match (la.next(), lb.next()) {
            (Some(x), Some(y)) if x == y => continue,
            (x, y) => return (x.unwrap_or("<end>").to_string(), y.unwrap_or("<end>").to_string()),
        }
    }
}

fn run(ctx: &Ctx) -> Report {
    let n = ctx.tier.pick(4_000, 120_000);
    let seed = ctx.seed;
    let mut report = crate::par::run_cases(ctx, n, |index, report| {
        if index % 12 == 11 {
            // resource programs whose names are reserved in one target (the generator of C05): uses of generated names that the
            // exporters write themselves must agree with the declarations they write
            let mut rng = Rng::for_case(seed, 0x1505, index);
            let p = crate::gen::c05_res::generate(&mut rng);
            resource_names_case(&p.text, &format!("gen::c05_res:{}", index), report);
            return;
        }
        let case = make_case(seed, index);
        let origin = format!("generated:{}:{}", index, case.mode);
        if examine(&case, &origin, seed ^ index, report) {
            report.distinct(hash_str(&case.program.template) ^ index);
            for i in &case.s1.adversarial {
                report.count(&format!("adversarial-kind:{:?}", case.program.idents[*i].kind));
            }
            report.count_n("adversarial-names-used", case.s1.adversarial.len() as u64);
            if report.want_sample() && index % 13 == 4 {
                let pairs: Vec<Json> = case.s1.adversarial.iter().take(12).map(|i| Json::str(format!("{} -> {}", case.program.idents[*i].name, case.s1.names[*i]))).collect();
                report.sample(Json::obj().set("origin", origin).set("adversarial_renamings", Json::Arr(pairs)).set("program_s1_prefix", case.program.render_with(&|i, _| case.s1.names[i].clone()).chars().take(500).collect::<String>()));
            }
        }
    });
    // which reserved names were exercised at all
    report.notes.push(format!("oracle lists: {} HLSL and {} MSL reserved / built-in names", names::hlsl_reserved().len(), names::msl_reserved().len()));
    report
}

/// Vulkan with buffer addresses: every `g_inlineDescriptorN.<member>` the exporter writes names a member it declared
fn resource_names_case(text: &str, origin: &str, report: &mut Report) {
    // entry point wrappers, helpers and resources: every call in the emitted trees names a function visible at the call site
    for t in [Tgt::Dx, Tgt::Msl] {
        let out = rs::compile_text(text, &Opts::new(t, Mode::All));
        let Outcome::Ok(pipes) = &out else { continue };
        for pipe in pipes {
            let Some(tree) = &pipe.tree else { continue };
            report.evaluations += 1;
            for (callee, caller) in decls::invisible_calls(tree) {
                report.violation(
                    "call-to-invisible-function",
                    &format!("the emitted {} calls `{}` from {}, but no function of that name is visible there ({})", t.name(), callee, caller, origin),
                    Json::obj().set("origin", origin).set("resource_program", text).set("target", t.name()).set("callee", callee.as_str()).set("caller", caller.as_str()),
                );
            }
        }
    }
    for mode in [Mode::NoPipeline, Mode::All] {
        let out = rs::compile_text(text, &Opts::new(Tgt::VkBa, mode.clone()));
        let Outcome::Ok(pipes) = &out else {
            report.count(&format!("resource-program:not-compiled:{}", out.class()));
            continue;
        };
        for pipe in pipes {
            report.evaluations += 1;
            let (members, uses) = crate::checks::c05::inline_descriptor_names(&pipe.source);
            report.count_n("inline-descriptor-member-uses", uses.len() as u64);
            for (block, member) in &uses {
                if !members.iter().any(|(b, m)| b == block && m == member) {
                    report.violation(
                        "generated-name-use-without-declaration:inline-descriptor-member",
                        &format!("the emitted Vulkan HLSL reads `g_inlineDescriptor{}.{}` but struct InlineDescriptor{} declares no such member ({})", block, member, block, origin),
                        Json::obj().set("origin", origin).set("resource_program", text).set("emitted", pipe.source.as_str()),
                    );
                }
            }
        }
    }
}

fn replay(ctx: &Ctx, witness: &Json) -> Report {
    let mut report = Report::new();
    if let Some(text) = witness.get_str("resource_program") {
        resource_names_case(text, witness.get_str("origin").unwrap_or("replay"), &mut report);
        return report;
    }
    // a witness stores both renderings; rebuild a placeholder-free "program" whose identifiers are the s0 names
    let (Some(t0), Some(t1)) = (witness.get_str("program_s0"), witness.get_str("program_s1")) else {
        report.inconclusive("witness without both renderings");
        return report;
    };
    // recover the renaming by aligning the token streams of the two renderings
    let (k0, k1) = (tokens(t0), tokens(t1));
    if k0.len() != k1.len() {
        report.inconclusive("renderings do not align");
        return report;
    }
    let mut idents: Vec<prog::Ident> = Vec::new();
    let mut names1: Vec<String> = Vec::new();
    let mut template = String::new();
    let mut adversarial = Vec::new();
    for (a, b) in k0.iter().zip(&k1) {
        if a != b {
            let idx = match idents.iter().position(|i| &i.name == a) {
                Some(i) => i,
                None => {
                    idents.push(prog::Ident {
                        kind: IdKind::Local,
                        name: a.clone(),
                    });
                    names1.push(b.clone());
                    if !b.starts_with('q') {
                        adversarial.push(idents.len() - 1);
                    }
                    idents.len() - 1
                }
            };
            template.push_str(&format!("\u{1}{}\u{2}", idx));
        } else {
            template.push_str(a);
        }
    }
    let case = Case {
        program: Program {
            template,
            idents,
            entries: Vec::new(),
            features: Vec::new(),
            multi: Vec::new(),
            ns_of: Vec::new(),
        },
        s1: Naming { names: names1, adversarial, shared_global_name: witness.get("shared_global_name").and_then(|b| b.as_bool()).unwrap_or(false) },
        mode: if witness.get_str("naming") == Some("fresh") { "fresh" } else { "adversarial" },
    };
    let mut case = case;
    case.program.ns_of = vec![None; case.program.idents.len()];
    // kinds of the identifiers (recorded since the scope monitors depend on them)
    if let Some(kinds) = witness.get("global_scope_s0").and_then(|m| m.as_arr()) {
        for k in kinds {
            if let Some(i) = case.program.idents.iter().position(|id| Some(id.name.as_str()) == k.as_str()) {
                case.program.idents[i].kind = IdKind::Global;
            }
        }
    }
    if let Some(multi) = witness.get("multi_s0").and_then(|m| m.as_arr()) {
        for m in multi {
            if let Some(i) = case.program.idents.iter().position(|id| Some(id.name.as_str()) == m.as_str()) {
                case.program.multi.push(i);
            }
        }
    }
    let seed = witness.get_str("arg_seed").and_then(|s| s.parse::<u64>().ok()).unwrap_or(ctx.seed);
    examine(&case, "replay", seed, &mut report);
    report
}
