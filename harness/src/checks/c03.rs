//! C03 - not built yet
