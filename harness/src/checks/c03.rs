//! C03 - accepted programs elaborate to well-typed IR; ill-typed programs are rejected.
//!
//! Positive monitor: every module the type checker accepts (unit-test snippets, corpus, generated
//! programs) is walked by an independent typing checker (oracle::irck) and the IR's own typing function is
//! asked for every expression under panic capture.
//! Negative monitor: small programs carrying exactly one violation of the five classes the property
//! names (with an accepted twin that differs only in the violation) must be rejected.

use crate::corpus;
use crate::gen::{decl, prog};
use crate::json::Json;
use crate::oracle::irck;
use crate::report::{Ctx, Report};
use crate::rng::{hash_str, Rng};
use crate::rs::{self, Front};
use crate::CheckDef;

pub fn def() -> CheckDef {
    CheckDef {
        id: "C03",
        salt: 0xC03,
        rule: "positive: every accepted module among the unit-test snippets, the tests/ corpus entry files, generated executable programs \
               (gen::prog), declaration programs (gen::decl) and a conversion table (every pair of 33 numeric types x {in, out, inout argument, \
               out argument from a struct member, return, initialiser, assignment}, whatever of it is accepted) is re-typed expression by expression with rules written from the property \
               (oracle::irck) and the IR's own get_type is called on every expression under panic capture; negative: an exhaustive table of \
               scalar kind x vector width x {const local, static const global, const parameter, literal, arithmetic rvalue, call result, \
               repeated-component swizzle} x {=, compound assignments, ++/--, out argument, inout argument}, plus wrong argument counts, \
               unconvertible argument types and wrong return types; each negative program has an accepted twin that differs only in the \
               injected violation (if the twin is rejected the pair is skipped). evaluations = modules walked + negative programs \
               submitted; distinct_nontrivial = distinct accepted modules walked + distinct negative programs whose twin was accepted",
        assumptions: &[
            "typing rules are the property's (plus the documented untyped-literal relaxation), not full HLSL typing: an ill-typed program outside the five named classes is not detected",
            "conditions of if/while/for are not required to be bool",
        ],
        min_distinct: (1500, 8000),
        deadline_s: (90.0, 900.0),
        run,
        replay,
    }
}

/// Walk one accepted module; returns number of problems reported
pub fn check_module(m: &rssl::ir::Module, text: &str, origin: &str, report: &mut Report) {
    let mut ck = irck::Checker::new(m);
    let r = crate::par::guard(|| {
        ck.module();
    });
    report.evaluations += 1;
    report.count_n("expressions_retyped", ck.expressions_checked);
    report.count_n("statements_walked", ck.statements_checked);
    if let Err(c) = r {
        // the checker only calls registry accessors: a panic here means a dangling id inside the module
        report.violation(
            &format!("ill-typed-ir:accessor-panic:{}", c.signature()),
            &format!("walking the accepted module panics inside an IR accessor at {} ({})", c.location, origin),
            Json::obj().set("origin", origin).set("program", text).set("panic", c.message.as_str()),
        );
    }
    for p in &ck.problems {
        report.violation(
            &format!("ill-typed-ir:{}", p.class),
            &format!("accepted program has ill-typed IR ({}): {} {}", origin, p.class, p.detail),
            Json::obj().set("origin", origin).set("program", text).set("problem", p.class.as_str()).set("detail", p.detail.as_str()),
        );
    }
    let (asked, problems) = irck::ask_ir_types(m);
    report.count_n("ir_get_type_calls", asked);
    for p in &problems {
        report.violation(
            &format!("ill-typed-ir:{}", p.class),
            &format!("accepted program ({}): {}", origin, p.detail),
            Json::obj().set("origin", origin).set("program", text).set("problem", p.class.as_str()).set("detail", p.detail.as_str()),
        );
    }
}

fn positive(text: &str, origin: &str, report: &mut Report) -> bool {
    match rs::front_text(text, true) {
        Front::Ok((_, Some(m))) => {
            report.count("positive:accepted");
            check_module(&m, text, origin, report);
            true
        }
        Front::Ok(_) => false,
        Front::Diag(_) => {
            report.count("positive:rejected-input");
            false
        }
        Front::Panic(c) => {
            report.count(&format!("skipped:front-end-panic:{}", c.signature()));
            false
        }
    }
}

// ------------------------------------------------------------------------------------------------
// negative table
// ------------------------------------------------------------------------------------------------

#[derive(Clone, Debug)]
pub struct Negative {
    pub class: &'static str,
    pub bad: String,
    /// differs from `bad` only in the violation
    pub twin: String,
}

fn tname(kind: &str, w: usize) -> String {
    if w == 1 {
        kind.to_string()
    } else {
        format!("{}{}", kind, w)
    }
}

fn value_of(kind: &str, w: usize, n: u32) -> String {
    let lit = match kind {
        "bool" => if n % 2 == 0 { "true" } else { "false" }.to_string(),
        "int" => format!("{}", n),
        "uint" => format!("{}u", n),
        "half" => format!("{}.0h", n),
        "float" => format!("{}.0f", n),
        _ => format!("{}.0L", n),
    };
    if w == 1 {
        lit
    } else {
        format!("({}){}", tname(kind, w), lit)
    }
}

pub fn negative_table() -> Vec<Negative> {
    let mut out = Vec::new();
    let kinds = ["bool", "int", "uint", "half", "float", "double"];
    for kind in kinds {
        for w in 1..=4usize {
            let t = tname(kind, w);
            let v1 = value_of(kind, w, 1);
            let v2 = value_of(kind, w, 2);
            let is_int = kind == "int" || kind == "uint";
            let is_bool = kind == "bool";
            // write operations applied to a target expression `TGT`
            let mut ops: Vec<(&str, String)> = vec![("assign", format!("TGT = {};", v2))];
            if !is_bool {
                ops.push(("add-assign", format!("TGT += {};", v2)));
                ops.push(("sub-assign", format!("TGT -= {};", v2)));
                ops.push(("mul-assign", format!("TGT *= {};", v2)));
                ops.push(("div-assign", format!("TGT /= {};", v2)));
                ops.push(("pre-increment", "++TGT;".to_string()));
                ops.push(("post-increment", "TGT++;".to_string()));
                ops.push(("pre-decrement", "--TGT;".to_string()));
                ops.push(("post-decrement", "TGT--;".to_string()));
            }
            if is_int {
                ops.push(("mod-assign", format!("TGT %= {};", v2)));
                ops.push(("shl-assign", format!("TGT <<= {};", v2)));
                ops.push(("and-assign", format!("TGT &= {};", v2)));
                ops.push(("or-assign", format!("TGT |= {};", v2)));
                ops.push(("xor-assign", format!("TGT ^= {};", v2)));
            }
            ops.push(("out-argument", "sink_out(TGT);".to_string()));
            ops.push(("inout-argument", "sink_inout(TGT);".to_string()));
            // target forms: (class, prelude before the function, declarations inside, bad target, good target)
            let mut forms: Vec<(&'static str, String, String, String, String)> = Vec::new();
            forms.push(("write-to-const-local", String::new(), format!("const {} c = {}; {} m = {};", t, v1, t, v1), "c".into(), "m".into()));
            forms.push(("write-to-static-const-global", format!("static const {} gc = {};\nstatic {} gm = {};\n", t, v1, t, v1), String::new(), "gc".into(), "gm".into()));
            forms.push(("write-to-const-parameter", String::new(), String::new(), "pc".into(), "pm".into()));
            forms.push(("write-to-literal", String::new(), format!("{} m = {};", t, v1), format!("({})", v1), "m".into()));
            if !is_bool {
                forms.push(("write-to-arithmetic-rvalue", String::new(), format!("{} m = {}; {} n = {};", t, v1, t, v1), "(m + n)".into(), "m".into()));
            }
            forms.push(("write-to-call-result", format!("{} produce() {{ return {}; }}\n", t, v1), format!("{} m = {};", t, v1), "produce()".into(), "m".into()));
            forms.push(("write-to-const-struct-member", format!("struct Box {{ {} v; }};\n", t), format!("const Box cb = {{ {} }}; Box mb = {{ {} }};", v1, v1), "cb.v".into(), "mb.v".into()));
            forms.push(("write-to-const-array-element", String::new(), format!("const {} ca[2] = {{ {}, {} }}; {} ma[2] = {{ {}, {} }};", t, v1, v1, t, v1, v1), "ca[1]".into(), "ma[1]".into()));
            forms.push((
                "write-to-const-struct-array-member-element",
                format!("struct Rows {{ {} r[2]; }};\n", t),
                format!("const Rows cr = {{ {{ {}, {} }} }}; Rows mr = {{ {{ {}, {} }} }};", v1, v1, v1, v1),
                "cr.r[1]".into(),
                "mr.r[1]".into(),
            ));
            forms.push((
                "write-to-member-of-const-struct-array-element",
                format!("struct Cell {{ {} v; }};\n", t),
                format!("const Cell cc[2] = {{ {{ {} }}, {{ {} }} }}; Cell mc[2] = {{ {{ {} }}, {{ {} }} }};", v1, v1, v1, v1),
                "cc[1].v".into(),
                "mc[1].v".into(),
            ));
            // const that comes from a typedef, alone and next to another modifier at the use site
            forms.push(("write-to-const-typedef-local", format!("typedef const {} CT;\ntypedef {} MT;\n", t, t), format!("CT c = {}; MT m = {};", v1, v1), "c".into(), "m".into()));
            forms.push(("write-to-volatile-const-typedef-local", format!("typedef const {} CT;\ntypedef {} MT;\n", t, t), format!("{} src = {}; volatile CT c = src; volatile MT m = src;", t, v1), "c".into(), "m".into()));
            forms.push(("write-to-const-typedef-array-element", format!("typedef const {} CT;\ntypedef {} MT;\n", t, t), format!("CT c[2] = {{ {}, {} }}; MT m[2] = {{ {}, {} }};", v1, v1, v1, v1), "c[1]".into(), "m[1]".into()));
            // shader inputs: globals without a storage class, and with an explicit `extern`, are read-only
            forms.push(("write-to-uniform-global", format!("{} gu = {};\nstatic {} gsm = {};\n", t, v1, t, v1).replace(&format!("{} gu = {};", t, v1), &format!("{} gu;", t)), String::new(), "gu".into(), "gsm".into()));
            forms.push(("write-to-explicitly-extern-global", format!("extern {} ge;\nstatic {} gsm = {};\n", t, t, v1), String::new(), "ge".into(), "gsm".into()));
            forms.push(("write-to-cbuffer-member", format!("cbuffer Constants {{ {} cbm; }}\nstatic {} sgm = {};\n", t, t, v1), String::new(), "cbm".into(), "sgm".into()));
            if w >= 2 {
                forms.push(("write-to-repeated-swizzle", String::new(), format!("{} m = {};", t, v1), "m.xx".into(), "m.xy".into()));
            }
            if w >= 3 {
                // the repeated component need not be adjacent
                forms.push(("write-to-repeated-swizzle-3", String::new(), format!("{} m = {};", t, v1), "m.xyx".into(), "m.xyz".into()));
                forms.push(("write-to-repeated-swizzle-3", String::new(), format!("{} m = {};", t, v1), "m.zyz".into(), "m.zyx".into()));
            }
            if w >= 4 {
                forms.push(("write-to-repeated-swizzle-4", String::new(), format!("{} m = {};", t, v1), "m.xyzx".into(), "m.xyzw".into()));
                forms.push(("write-to-repeated-swizzle-4", String::new(), format!("{} m = {};", t, v1), "m.wyzy".into(), "m.wyzx".into()));
            }
            for (class, prelude, decls, bad_t, good_t) in &forms {
                for (opname, op) in &ops {
                    // the operand type of the repeated swizzle form is the 2-vector
                    let swz_width: usize = match *class {
                        "write-to-repeated-swizzle" => 2,
                        "write-to-repeated-swizzle-3" => 3,
                        "write-to-repeated-swizzle-4" => 4,
                        _ => 0,
                    };
                    let (sink_t, op_text) = if swz_width > 0 {
                        let t2 = tname(kind, swz_width);
                        (t2.clone(), op.replace(&v2, &value_of(kind, swz_width, 2)))
                    } else {
                        (t.clone(), op.clone())
                    };
                    let make = |target: &str| -> String {
                        format!(
                            "{}void sink_out(out {} o) {{ o = {}; }}\nvoid sink_inout(inout {} o) {{ o = {}; }}\nvoid test(const {} pc, {} pm)\n{{\n    {}\n    {}\n}}\n",
                            prelude,
                            sink_t,
                            value_of(kind, if swz_width > 0 { swz_width } else { w }, 3),
                            sink_t,
                            value_of(kind, if swz_width > 0 { swz_width } else { w }, 3),
                            t,
                            t,
                            decls,
                            op_text.replace("TGT", target)
                        )
                    };
                    let class_full: &'static str = match (*class, *opname) {
                        (c, o) if o.ends_with("argument") => leak(format!("{}:{}", c.replace("write-to", "pass"), o)),
                        (c, o) => leak(format!("{}:{}", c, o)),
                    };
                    out.push(Negative {
                        class: class_full,
                        bad: make(bad_t),
                        twin: make(good_t),
                    });
                }
            }
        }
    }
    // const matrices, with and without an explicit packing order, written through rows, elements and matrix swizzles
    for (mt, rowt, scalar, n) in [("float2x2", "float2", "float", 2), ("float3x3", "float3", "float", 3), ("int2x2", "int2", "int", 2), ("half4x4", "half4", "half", 4), ("float2x3", "float3", "float", 2)] {
        for order in ["", "row_major ", "column_major "] {
            let targets: [(&str, String, String, &str); 4] = [
                ("row", "cm[1]".into(), "mm[1]".into(), rowt),
                ("element", "cm[1][0]".into(), "mm[1][0]".into(), scalar),
                ("row-component", "cm[0].y".into(), "mm[0].y".into(), scalar),
                ("matrix-swizzle", "cm._m01".into(), "mm._m01".into(), scalar),
            ];
            let _ = n;
            for (what, bad_t, good_t, vt) in targets {
                for (opname, op) in [("assign", "TGT = v;"), ("add-assign", "TGT += v;"), ("pre-increment", "++TGT;"), ("out-argument", "sink_out(TGT);"), ("inout-argument", "sink_inout(TGT);")] {
                    let make = |target: &str| -> String {
                        format!(
                            "void sink_out(out {vt} o) {{ o = ({vt})1; }}\nvoid sink_inout(inout {vt} o) {{ o += ({vt})1; }}\nvoid test()\n{{\n    const {order}{mt} cm = ({mt})1;\n    {order}{mt} mm = ({mt})1;\n    {vt} v = ({vt})2;\n    {}\n}}\n",
                            op.replace("TGT", target),
                            vt = vt,
                            order = order,
                            mt = mt
                        )
                    };
                    let family = if order.is_empty() { "write-to-const-matrix" } else { "write-to-const-matrix-with-packing-order" };
                    let family = if opname.ends_with("argument") { family.replace("write-to", "pass") } else { family.to_string() };
                    out.push(Negative {
                        class: leak(format!("{}:{}:{}:{}{}", family, what, opname, order.trim(), mt)),
                        bad: make(&bad_t),
                        twin: make(&good_t),
                    });
                }
            }
        }
    }
    // out parameters of intrinsic functions: sincos(x, out s, out c), modf(x, out ip), frexp(x, out e)
    for (intrinsic, call) in [("sincos-sin", "sincos(x, TGT, c);"), ("sincos-cos", "sincos(x, s, TGT);"), ("modf", "float fr = modf(x, TGT);"), ("frexp", "float m = frexp(x, TGT);")] {
        for (what, bad_t) in [("const-local", "cs"), ("literal", "1.0f"), ("arithmetic-result", "(s + 1.0f)"), ("call-result", "make()"), ("const-parameter", "pc"), ("member-of-const-struct", "cb.x")] {
            let make = |target: &str| -> String {
                format!(
                    "struct B {{ float x; }};\nfloat make() {{ return 1.0f; }}\nvoid test(const float pc, float x)\n{{\n    const float cs = 0.0f;\n    const B cb = {{ 0.0f }};\n    float s = 0.0f;\n    float c = 0.0f;\n    {}\n}}\n",
                    call.replace("TGT", target)
                )
            };
            out.push(Negative {
                class: leak(format!("pass-to-intrinsic-out-parameter:{}:{}", intrinsic, what)),
                bad: make(bad_t),
                twin: make(if intrinsic == "sincos-cos" { "c" } else { "s" }),
            });
        }
    }
    // members of a struct that is not an lvalue (a call result, a conditional over structs, a cast): not assignable, not
    // bindable to out / inout; the twin goes through a variable
    for (what, bad_t, good_t) in [
        ("call-result", "make().x", "q.x"),
        ("call-result-nested", "make().uv.y", "q.uv.y"),
        ("call-result-inner-struct", "make_outer().inner.x", "o.inner.x"),
        ("conditional", "(c ? q : r).x", "q.x"),
        ("cast", "((P)q).x", "q.x"),
        ("call-result-array-element", "make().a[1]", "q.a[1]"),
    ] {
        for (opname, op) in [("assign", "TGT = 2.0f;"), ("add-assign", "TGT += 2.0f;"), ("pre-increment", "++TGT;"), ("post-decrement", "TGT--;"), ("out-argument", "sink_out(TGT);"), ("inout-argument", "sink_inout(TGT);")] {
            let make = |target: &str| -> String {
                format!(
                    "struct P {{ float x; float2 uv; float a[2]; }};\nstruct Outer {{ P inner; }};\nP make() {{ P p; p.x = 1.0f; p.uv = float2(0.0f, 0.0f); p.a[0] = 0.0f; p.a[1] = 0.0f; return p; }}\nOuter make_outer() {{ Outer o; o.inner = make(); return o; }}\nvoid sink_out(out float o) {{ o = 1.0f; }}\nvoid sink_inout(inout float o) {{ o += 1.0f; }}\nvoid test()\n{{\n    P q = make();\n    P r = make();\n    Outer o = make_outer();\n    bool c = true;\n    {}\n}}\n",
                    op.replace("TGT", target)
                )
            };
            let family = if opname.ends_with("argument") { "pass-member-of-struct-rvalue" } else { "write-to-member-of-struct-rvalue" };
            out.push(Negative {
                class: leak(format!("{}:{}:{}", family, what, opname)),
                bad: make(bad_t),
                twin: make(good_t),
            });
        }
    }
    // named components of a matrix that has no such row / column (the zero based `_mRC` and the one based `_RC` spellings), read,
    // written and passed as out argument; the twin names the first component
    for (rows, cols) in [(2usize, 3usize), (3, 2), (2, 4), (4, 2), (4, 3), (3, 4), (1, 3), (3, 1), (2, 2), (3, 3)] {
        let mt = format!("float{}x{}", rows, cols);
        for r in 0..4usize {
            for c in 0..4usize {
                if r < rows && c < cols {
                    continue;
                }
                for one_based in [false, true] {
                    let name = |r: usize, c: usize| if one_based { format!("_{}{}", r + 1, c + 1) } else { format!("_m{}{}", r, c) };
                    let (bad_c, good_c) = (name(r, c), name(0, 0));
                    for (opname, op) in [("read", "float f = mm.TGT;"), ("assign", "mm.TGT = 2.0f;"), ("out-argument", "sink_out(mm.TGT);"), ("pair", "float2 f = mm._m00TGT;")] {
                        if opname == "pair" && one_based {
                            continue;
                        }
                        let make = |comp: &str| -> String { format!("void sink_out(out float o) {{ o = 1.0f; }}\nvoid test()\n{{\n    {mt} mm = ({mt})1;\n    {}\n}}\n", op.replace("TGT", comp), mt = mt) };
                        out.push(Negative {
                            class: leak(format!("matrix-component-outside-the-matrix:{}:{}:{}", opname, if one_based { "one-based" } else { "zero-based" }, mt)),
                            bad: make(&bad_c),
                            twin: make(&good_c),
                        });
                    }
                }
            }
        }
    }
    // aggregate initialisers with more elements than the target has room for (also where the surplus is not even convertible)
    for k in ["bool", "int", "uint", "half", "float", "double"] {
        let v = value_of(k, 1, 1);
        let pre = format!("struct Pair {{ {} a; {} b; }};\nstruct Other {{ int q; }};\n", k, k);
        let cases: Vec<(&'static str, String, String)> = vec![
            ("scalar-from-two-values", format!("{} x = {{ {}, {} }};", k, v, v), format!("{} x = {{ {} }};", k, v)),
            ("scalar-from-three-values", format!("{} x = {{ {}, {}, {} }};", k, v, v, v), format!("{} x = {{ {} }};", k, v)),
            ("scalar-with-unconvertible-surplus", format!("Other o; {} x = {{ {}, o }};", k, v), format!("Other o; {} x = {{ {} }};", k, v)),
            ("vector-element-from-two-values", format!("{}2 x = {{ {{ {}, {} }}, {} }};", k, v, v, v), format!("{}2 x = {{ {{ {} }}, {} }};", k, v, v)),
            ("array-element-from-two-values", format!("{} x[2] = {{ {}, {{ {}, {} }} }};", k, v, v, v), format!("{} x[2] = {{ {}, {{ {} }} }};", k, v, v)),
            ("struct-member-from-two-values", format!("Pair x = {{ {}, {{ {}, {} }} }};", v, v, v), format!("Pair x = {{ {}, {{ {} }} }};", v, v)),
            ("vector-from-too-many-values", format!("{}2 x = {{ {}, {}, {} }};", k, v, v, v), format!("{}2 x = {{ {}, {} }};", k, v, v)),
            ("array-from-too-many-values", format!("{} x[2] = {{ {}, {}, {} }};", k, v, v, v), format!("{} x[2] = {{ {}, {} }};", k, v, v)),
            ("struct-from-too-many-values", format!("Pair x = {{ {}, {}, {} }};", v, v, v), format!("Pair x = {{ {}, {} }};", v, v)),
        ];
        for (class, bad, good) in cases {
            for global in [false, true] {
                let make = |decl: &str| if global { format!("{}static {}\n", pre, decl.replace("Other o; ", "static Other o;\nstatic ")) } else { format!("{}void test()\n{{\n    {}\n}}\n", pre, decl) };
                out.push(Negative {
                    class: leak(format!("initialiser-with-surplus-elements:{}:{}:{}", class, if global { "global" } else { "local" }, k)),
                    bad: make(&bad),
                    twin: make(&good),
                });
            }
        }
    }
    // argument counts and unconvertible argument types, wrong return types
    let scalars = ["bool", "int", "uint", "half", "float", "double"];
    for k in scalars {
        let v = value_of(k, 1, 1);
        let pre = format!("struct A {{ {} x; }};\nstruct B {{ {} y; }};\n{} one({} a) {{ return a; }}\n{} two({} a, {} b) {{ return a; }}\nvoid nothing() {{}}\n", k, k, k, k, k, k, k);
        let mk = |body: &str| format!("{}void test()\n{{\n    A sa = {{ {} }};\n    B sb = {{ {} }};\n    {} arr[2] = {{ {}, {} }};\n    {} s = {};\n    {}\n}}\n", pre, v, v, k, v, v, k, v, body);
        let cases: Vec<(&'static str, String, String)> = vec![
            ("too-many-arguments", "one(s, s);".into(), "one(s);".into()),
            ("too-few-arguments", "two(s);".into(), "two(s, s);".into()),
            ("no-arguments", "one();".into(), "one(s);".into()),
            ("struct-passed-for-scalar", "one(sa);".into(), "one(s);".into()),
            ("array-passed-for-scalar", "one(arr);".into(), "one(arr[0]);".into()),
            ("void-passed-for-scalar", "one(nothing());".into(), "one(s);".into()),
            ("scalar-assigned-to-struct", "sa = s;".into(), "sa.x = s;".into()),
            ("struct-assigned-to-other-struct", "sa = sb;".into(), "sa.x = sb.y;".into()),
            ("array-assigned-to-scalar", "s = arr;".into(), "s = arr[1];".into()),
        ];
        for (class, bad, good) in cases {
            out.push(Negative {
                class: leak(format!("{}:{}", class, k)),
                bad: mk(&bad),
                twin: mk(&good),
            });
        }
        let rets: Vec<(&'static str, String, String)> = vec![
            ("return-struct-from-scalar-function", format!("struct A {{ {} x; }};\n{} f() {{ A a = {{ {} }}; return a; }}\n", k, k, v), format!("struct A {{ {} x; }};\n{} f() {{ A a = {{ {} }}; return a.x; }}\n", k, k, v)),
            ("return-value-from-void-function", format!("void f() {{ return {}; }}\n", v), "void f() { return; }\n".to_string()),
            ("return-nothing-from-value-function", format!("{} f() {{ return; }}\n", k), format!("{} f() {{ return {}; }}\n", k, v)),
            ("return-scalar-from-struct-function", format!("struct A {{ {} x; }};\nA f() {{ return {}; }}\n", k, v), format!("struct A {{ {} x; }};\nA f() {{ A a = {{ {} }}; return a; }}\n", k, v)),
            ("return-array-from-scalar-function", format!("{} f() {{ {} arr[2] = {{ {}, {} }}; return arr; }}\n", k, k, v, v), format!("{} f() {{ {} arr[2] = {{ {}, {} }}; return arr[0]; }}\n", k, k, v, v)),
        ];
        for (class, bad, good) in rets {
            out.push(Negative {
                class: leak(format!("{}:{}", class, k)),
                bad,
                twin: good,
            });
        }
    }
    out
}

/// Conversion table (positive monitor): every pair of numeric types meets at every kind of use that converts -
/// in / out / inout argument, return, initialiser, assignment. Whatever the type checker accepts must elaborate
/// to well-typed IR (conversions explicit, out arguments still lvalues of the parameter type).
pub fn conversion_table() -> Vec<(String, String)> {
    let kinds = ["bool", "int", "uint", "half", "float", "double"];
    let mut types: Vec<(String, String)> = Vec::new();
    for k in kinds {
        types.push((k.to_string(), value_of(k, 1, 1)));
        for w in 1..=4usize {
            let t = format!("{}{}", k, w);
            types.push((t.clone(), format!("({}){}", t, value_of(k, 1, 1))));
        }
    }
    for m in ["float2x2", "int2x2", "float3x3"] {
        types.push((m.to_string(), format!("({})1", m)));
    }
    let mut out = Vec::new();
    for (a, av) in &types {
        for (p, pv) in &types {
            let id = format!("{}->{}", a, p);
            out.push((format!("in-argument:{}", id), format!("void sink({} o) {{}}\nvoid test()\n{{\n    {} y = {};\n    sink(y);\n}}\n", p, a, av)));
            out.push((format!("out-argument:{}", id), format!("void sink(out {} o) {{ o = {}; }}\nvoid test()\n{{\n    {} y = {};\n    sink(y);\n}}\n", p, pv, a, av)));
            out.push((format!("inout-argument:{}", id), format!("void sink(inout {} o) {{ o = {}; }}\nvoid test()\n{{\n    {} y = {};\n    sink(y);\n}}\n", p, pv, a, av)));
            out.push((format!("out-argument-member:{}", id), format!("struct Box {{ {} v; }};\nvoid sink(out {} o) {{ o = {}; }}\nvoid test()\n{{\n    Box b;\n    b.v = {};\n    sink(b.v);\n}}\n", a, p, pv, av)));
            out.push((format!("return:{}", id), format!("{} conv({} y) {{ return y; }}\n", p, a)));
            out.push((format!("initialiser:{}", id), format!("void test()\n{{\n    {} y = {};\n    {} z = y;\n}}\n", a, av, p)));
            out.push((format!("assignment:{}", id), format!("void test()\n{{\n    {} y = {};\n    {} z = {};\n    z = y;\n}}\n", a, av, p, pv)));
        }
    }
    out
}

fn leak(s: String) -> &'static str {
    Box::leak(s.into_boxed_str())
}

fn accepted(text: &str) -> Result<bool, String> {
    match rs::front_text(text, true) {
        Front::Ok(_) => Ok(true),
        Front::Diag(_) => Ok(false),
        Front::Panic(c) => Err(c.signature()),
    }
}

pub fn negative(n: &Negative, report: &mut Report) -> bool {
    match accepted(&n.twin) {
        Ok(true) => {}
        Ok(false) => {
            report.count("negative:twin-rejected-skipped");
            report.count(&format!("twin-rejected:{}", n.class.split(':').next().unwrap_or("")));
            return false;
        }
        Err(sig) => {
            report.count(&format!("skipped:front-end-panic:{}", sig));
            return false;
        }
    }
    report.evaluations += 1;
    match accepted(&n.bad) {
        Ok(false) => {
            report.count("negative:rejected-as-required");
            true
        }
        Ok(true) => {
            let family = n.class.split(':').next().unwrap_or(n.class);
            report.violation(
                &format!("ill-typed-program-accepted:{}", family),
                &format!("a program with exactly one typing violation ({}) is accepted", n.class),
                Json::obj().set("class", n.class).set("program", n.bad.as_str()).set("accepted_twin", n.twin.as_str()),
            );
            true
        }
        Err(sig) => {
            report.count(&format!("skipped:front-end-panic:{}", sig));
            false
        }
    }
}

enum Case {
    Snippet(usize),
    Corpus(usize, usize),
    Prog(u64),
    Decl(u64),
    Negative(usize),
    Conversion(usize),
}

fn run(ctx: &Ctx) -> Report {
    let snippets = corpus::test_snippets();
    let sets = corpus::load();
    let table = negative_table();
    let conversions = conversion_table();
    let mut cases = Vec::new();
    for i in 0..snippets.len() {
        cases.push(Case::Snippet(i));
    }
    for (si, s) in sets.iter().enumerate() {
        for ei in 0..s.entries.len() {
            cases.push(Case::Corpus(si, ei));
        }
    }
    for i in 0..ctx.tier.pick(1500, 40_000) {
        cases.push(Case::Prog(i));
    }
    for i in 0..ctx.tier.pick(300, 5_000) {
        cases.push(Case::Decl(i));
    }
    // quick: a deterministic third of the table (rotating with the seed), thorough: all of it
    let stride = 1usize; // the table is small: both tiers enumerate it completely
    let offset = (ctx.seed % 3) as usize;
    let mut taken = 0u64;
    for i in 0..table.len() {
        if stride == 1 || i % stride == offset % stride {
            cases.push(Case::Negative(i));
            taken += 1;
        }
    }
    for i in 0..conversions.len() {
        cases.push(Case::Conversion(i));
    }
    let seed = ctx.seed;
    let mut report = crate::par::run_cases(ctx, cases.len() as u64, |index, report| match &cases[index as usize] {
        Case::Conversion(i) => {
            let (class, text) = &conversions[*i];
            let kind = class.split(':').next().unwrap_or("");
            if positive(text, &format!("conversion-table:{}", class), report) {
                report.distinct(hash_str(text));
                report.count(&format!("conversion-accepted:{}", kind));
            } else {
                report.count(&format!("conversion-rejected:{}", kind));
            }
        }
        Case::Snippet(i) => {
            if positive(&snippets[*i], &format!("unit-test-snippet:{}", i), report) {
                report.distinct(hash_str(&snippets[*i]));
            }
        }
        Case::Corpus(si, ei) => {
            let s = &sets[*si];
            // the corpus needs its include handler and defines: go through the stage APIs by hand
            let origin = format!("corpus:{}:{}", s.name, s.entries[*ei]);
            let r = crate::par::guard(|| {
                let mut sm = rssl::text::SourceManager::new();
                let mut h = rs::FilesHandler::new(&s.files);
                let mut defines: Vec<(&str, &str)> = vec![("__HLSL_VERSION", "2021"), ("RSSL_TARGET_HLSL", "1"), ("RSSL_TARGET_MSL", "0")];
                for (a, b) in &s.defines {
                    defines.push((a.as_str(), b.as_str()));
                }
                let tokens = rssl::preprocess::preprocess(&s.entries[*ei], &mut sm, &mut h, &defines).ok()?;
                let tokens = rssl::preprocess::prepare_tokens(&tokens);
                let ast = rssl::parser::parse(&tokens).ok()?;
                rssl::typer::type_check(&ast).ok()
            });
            match r {
                Ok(Some(m)) => {
                    report.count("positive:accepted");
                    check_module(&m, &format!("<{}>", origin), &origin, report);
                    report.distinct(hash_str(&origin));
                }
                Ok(None) => report.count("positive:rejected-input"),
                Err(c) => report.count(&format!("skipped:front-end-panic:{}", c.signature())),
            }
        }
        Case::Prog(i) => {
            let mut rng = Rng::for_case(seed, 0x3001, *i);
            let p = prog::generate(&mut rng, prog::Config::default());
            let text = p.render();
            if positive(&text, &format!("gen::prog:{}", i), report) {
                report.distinct(hash_str(&text));
                if report.want_sample() && i % 211 == 7 {
                    report.sample(Json::obj().set("kind", "accepted generated program walked by irck").set("program", text));
                }
            }
        }
        Case::Decl(i) => {
            let mut rng = Rng::for_case(seed, 0x3002, *i);
            let d = decl::generate(&mut rng, 10, 3);
            if positive(&d.text, &format!("gen::decl:{}", i), report) {
                report.distinct(hash_str(&d.text));
            }
        }
        Case::Negative(i) => {
            let n = &table[*i];
            if negative(n, report) {
                report.distinct(hash_str(&n.bad));
                report.count(&format!("negative-class:{}", n.class.split(':').next().unwrap_or("")));
                if report.want_sample() && i % 501 == 3 {
                    report.sample(Json::obj().set("kind", "negative program (must be rejected)").set("class", n.class).set("program", n.bad.as_str()));
                }
            }
        }
    });
    report.count_n("conversion_table_size", conversions.len() as u64);
    report.count_n("negative_table_size", table.len() as u64);
    report.count_n("negative_table_taken", taken);
    if stride == 1 {
        report.exhaustive = Some(true);
        report.notes.push("the negative table was enumerated completely".into());
    }
    if snippets.len() < 50 {
        report.inconclusive("could not read the unit-test snippets from /repo");
    }
    report
}

fn replay(_ctx: &Ctx, witness: &Json) -> Report {
    let mut report = Report::new();
    let text = witness.get_str("program").unwrap_or("");
    if let Some(twin) = witness.get_str("accepted_twin") {
        let n = Negative {
            class: leak(witness.get_str("class").unwrap_or("replay").to_string()),
            bad: text.to_string(),
            twin: twin.to_string(),
        };
        negative(&n, &mut report);
    } else {
        positive(text, witness.get_str("origin").unwrap_or("replay"), &mut report);
    }
    report
}
