//! C17 - not built yet
