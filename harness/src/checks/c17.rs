//! C17 - pipelines are selected and compiled independently.
//!
//! Differential monitor per target. For a file F with pipeline definitions P_1..P_n (n in 0..4):
//!   (a) compile(F, all)            -> exactly n results in source order (n == 0: a rendered error)
//!   (b) compile(F, name = P_i)     -> exactly one result, equal to result i of (a)
//!   (c) compile(F_i, all)          -> exactly one result, equal to result i of (a); F_i is F with every OTHER
//!                                      pipeline definition blanked out (functions and resources stay, and so do
//!                                      all line numbers)
//!   (d) compile(F, name = unknown) -> a rendered error, never a result or a panic
//!   (e) compile(F, no-pipeline)    -> exactly one result regardless of n
//! "Equal" = everything the caller can observe: source text, stages, metadata, pipeline state.
//! When (a) fails as a whole (rssl returns the first error), (b) and (c) are compared with each other and the
//! failure of (a) has to be explained by at least one pipeline that also fails alone.
//!
//! The only model used besides the differential comparison is read off the text of the pipeline definition
//! itself: which stages it lists (and the numthreads attribute of the functions it names) - that is what result
//! i of (a) has to report, which pins "source order" down independently of rssl.

// The generator is src/gen/c17_pipelines.rs; it is included by path so that this file builds whether or not gen/mod.rs lists it
#[path = "../gen/c17_pipelines.rs"]
pub mod gen;

use crate::json::Json;
use crate::report::{Ctx, Report};
use crate::rng::{hash_str, Rng};
use crate::rs::{self, Mode, Opts, Outcome, Pipe, Tgt, ALL_TARGETS};
use crate::CheckDef;

pub fn def() -> CheckDef {
    CheckDef {
        id: "C17",
        salt: 0xC17,
        rule: "generated files (gen::c17_pipelines) with 0-4 pipeline definitions drawn from compute, vertex+pixel, mesh+pixel, \
               task+mesh+pixel and task+mesh, which share or do not share entry points, helper functions, static/groupshared globals, \
               cbuffers and resources of 21 object kinds with implicit bind groups (-> DefaultBindGroup of the pipeline), register(spaceN), \
               [[rssl::bind_group(N)]], explicit slots, arrays, bindless arrays and static samplers; declarations before, between and \
               after the pipeline definitions; graphics state (render target/depth formats, cull mode, winding, blend state); pipeline \
               names which are prefixes and case variants of each other; 1 file in ~16 with >= 2 pipelines repeats a pipeline name \
               (hostile; only 'no panic' and the result count are demanded there). Each file x 4 targets x {all, every name, 3 unknown \
               names (a proper prefix of a name, a name with a suffix, and one of: empty / other case / unrelated), no-pipeline mode, \
               every single-pipeline variant of the file}. evaluations = calls of compile() observed; distinct_nontrivial = distinct \
               files (content hash) accepted by the front end for which the comparisons were made",
        assumptions: &[
            "a pipeline definition is removed from a file by blanking its lines, so diagnostics keep their positions; a namespace that only wraps that pipeline definition is blanked with it",
            "the stages a result must report are read off the text of the pipeline definition (XShader properties and the numthreads attribute of the named function); entry point names are not demanded",
            "panics which occur identically with and without the other pipelines are property C08's business and are counted, not reported here",
        ],
        min_distinct: (300, 5000),
        deadline_s: (50.0, 540.0),
        run,
        replay,
    }
}

// ------------------------------------------------------------------------------------------------
// taking a file apart

#[derive(Clone, Debug)]
pub struct Block {
    /// byte range of the lines of the definition (including a wrapping `namespace PNs..`)
    pub start: usize,
    pub end: usize,
    pub name: String,
    /// stage kinds in the order the definition lists them, with the entry function named
    pub stages: Vec<(String, String)>,
}

/// Find the pipeline definitions of a file written in the generator's shape: a line starting with `Pipeline <name>`
/// up to the next line that is exactly `}`; optionally wrapped into `namespace PNs..` ... `} // end PNs`.
pub fn split_pipelines(text: &str) -> Vec<Block> {
    let mut blocks = Vec::new();
    let mut pos = 0usize;
    let mut lines: Vec<(usize, &str)> = Vec::new();
    for line in text.split_inclusive('\n') {
        lines.push((pos, line));
        pos += line.len();
    }
    let mut i = 0;
    while i < lines.len() {
        let (start, line) = lines[i];
        let wrapped = line.starts_with("namespace PNs");
        if wrapped || line.starts_with("Pipeline ") {
            let mut name = String::new();
            let mut stages = Vec::new();
            let mut j = i;
            let mut end = text.len();
            while j < lines.len() {
                let l = lines[j].1;
                let t = l.trim_end();
                if let Some(rest) = t.strip_prefix("Pipeline ") {
                    name = rest.trim().to_string();
                }
                let tt = t.trim_start();
                for stage in ["Compute", "Vertex", "Pixel", "Mesh", "Task"] {
                    if let Some(rest) = tt.strip_prefix(&format!("{}Shader = ", stage)) {
                        stages.push((stage.to_string(), rest.trim_end_matches(';').trim().to_string()));
                    }
                }
                let closes = if wrapped { t == "} // end PNs" } else { t == "}" };
                if closes && j > i {
                    end = lines[j].0 + l.len();
                    break;
                }
                j += 1;
            }
            blocks.push(Block { start, end, name, stages });
            i = j + 1;
        } else {
            i += 1;
        }
    }
    blocks
}

/// The file with every pipeline definition except `keep` blanked out (line structure preserved)
pub fn without_others(text: &str, blocks: &[Block], keep: Option<usize>) -> String {
    let mut out = String::with_capacity(text.len());
    let mut pos = 0;
    for (i, b) in blocks.iter().enumerate() {
        out.push_str(&text[pos..b.start]);
        if Some(i) == keep {
            out.push_str(&text[b.start..b.end]);
        } else {
            for c in text[b.start..b.end].chars() {
                if c == '\n' {
                    out.push('\n');
                }
            }
        }
        pos = b.end;
    }
    out.push_str(&text[pos..]);
    out
}

/// numthreads attribute of a function, read off the text: attribute lines directly above `void <name>(`
fn numthreads_of(text: &str, function: &str) -> Option<(u32, u32, u32)> {
    let lines: Vec<&str> = text.lines().collect();
    let needle = format!(" {}(", function);
    let at = lines.iter().position(|l| !l.starts_with(' ') && !l.starts_with('[') && l.contains(&needle))?;
    let mut i = at;
    while i > 0 && lines[i - 1].starts_with('[') {
        i -= 1;
        if let Some(rest) = lines[i].strip_prefix("[numthreads(") {
            let inner = rest.split(')').next()?;
            let v: Vec<u32> = inner.split(',').filter_map(|p| p.trim().parse().ok()).collect();
            if v.len() == 3 {
                return Some((v[0], v[1], v[2]));
            }
        }
    }
    None
}

// ------------------------------------------------------------------------------------------------
// comparing

/// First observable field in which two results differ
fn differing_field(a: &Pipe, b: &Pipe) -> Option<(&'static str, String, String)> {
    if a.source != b.source {
        let mut la = a.source.lines();
        let mut lb = b.source.lines();
        loop {
            match (la.next(), lb.next()) {
                (Some(x), Some(y)) if x == y => continue,
                (x, y) => return Some(("source", x.unwrap_or("<end of text>").to_string(), y.unwrap_or("<end of text>").to_string())),
            }
        }
    }
    if a.stages != b.stages {
        return Some(("stages", format!("{:?}", a.stages), format!("{:?}", b.stages)));
    }
    let (ma, mb) = (format!("{:?}", a.metadata), format!("{:?}", b.metadata));
    if ma != mb {
        return Some(("metadata", ma, mb));
    }
    if a.pipeline_state != b.pipeline_state {
        return Some(("state", a.pipeline_state.clone(), b.pipeline_state.clone()));
    }
    None
}

fn outcome_json(o: &Outcome) -> Json {
    Json::str(o.observable())
}

fn diag_class(d: &str) -> String {
    let first = d.lines().next().unwrap_or("");
    let msg = first.split("error:").nth(1).unwrap_or(first).trim();
    let mut out = String::new();
    for c in msg.chars() {
        if c == '\'' || c == '`' || c == '(' || c == '{' || c.is_ascii_digit() {
            break;
        }
        out.push(c);
    }
    out.trim().chars().take(60).collect()
}

/// Unknown names to ask for: a proper prefix of a real name, a real name with a suffix, and one more
fn unknown_names(names: &[String], salt: u64) -> Vec<String> {
    let mut out: Vec<String> = Vec::new();
    let known = |s: &str| names.iter().any(|n| n == s);
    let push = |s: String, out: &mut Vec<String>| {
        if !known(&s) && !out.contains(&s) {
            out.push(s);
        }
    };
    if !names.is_empty() {
        let a = &names[(salt as usize) % names.len()];
        let b = &names[(salt as usize / 7) % names.len()];
        if a.len() > 1 {
            push(a[..a.len() - 1].to_string(), &mut out);
        }
        push(format!("{}{}", b, if salt % 2 == 0 { "X" } else { "1" }), &mut out);
        match salt % 3 {
            0 => push(String::new(), &mut out),
            1 => {
                let flipped: String = a.chars().map(|c| if c.is_ascii_uppercase() { c.to_ascii_lowercase() } else { c.to_ascii_uppercase() }).collect();
                push(flipped, &mut out);
            }
            _ => push("NoSuchPipeline".to_string(), &mut out),
        }
    } else {
        push("Main".to_string(), &mut out);
        if salt % 2 == 0 {
            push(String::new(), &mut out);
        }
    }
    out
}

struct Case<'a> {
    text: &'a str,
    target: Tgt,
    origin: &'a str,
}

impl Case<'_> {
    fn witness(&self, what: Json) -> Json {
        Json::obj().set("origin", self.origin).set("target", self.target.name()).set("text", self.text).set("observed", what)
    }
}

fn family(t: Tgt) -> &'static str {
    if t.is_hlsl() {
        "hlsl"
    } else {
        "msl"
    }
}

/// Compare the outcome of compiling pipeline i on its own (`other`, by name or in the single-pipeline file) with
/// result i of the whole file
fn compare_with_whole(case: &Case, how: &str, index: usize, name: &str, whole: &Pipe, other: &Outcome, report: &mut Report) {
    match other {
        Outcome::Ok(v) if v.len() == 1 => match differing_field(whole, &v[0]) {
            None => report.count(&format!("equal:{}:{}", how, family(case.target))),
            Some((field, x, y)) => report.violation(
                &format!("{}-differs:{}:{}", how, field, family(case.target)),
                &format!(
                    "{}: pipeline #{} `{}` compiled {} differs in {} from result #{} of the whole file: `{}` vs `{}`",
                    case.target.name(),
                    index,
                    name,
                    if how == "named" { "by name" } else { "in the file without the other pipelines" },
                    field,
                    index,
                    x.trim().chars().take(160).collect::<String>(),
                    y.trim().chars().take(160).collect::<String>()
                ),
                case.witness(Json::obj().set("pipeline_index", index).set("pipeline", name).set("how", how).set("field", field).set("whole_file_result", whole.observable()).set("alone", v[0].observable())),
            ),
        },
        Outcome::Ok(v) => report.violation(
            &format!("{}-result-count:{}", how, family(case.target)),
            &format!("{}: pipeline `{}` compiled {} gives {} results instead of one", case.target.name(), name, how, v.len()),
            case.witness(Json::obj().set("pipeline_index", index).set("pipeline", name).set("how", how).set("results", v.len())),
        ),
        Outcome::Budget { .. } => report.count("skipped:budget"),
        Outcome::Diag(_) | Outcome::Panic(_) => report.violation(
            &format!("{}-fails-but-whole-file-compiles:{}:{}", how, other.class(), family(case.target)),
            &format!("{}: the whole file compiles, but pipeline #{} `{}` compiled {} gives {}", case.target.name(), index, name, how, other.brief()),
            case.witness(Json::obj().set("pipeline_index", index).set("pipeline", name).set("how", how).set("alone", outcome_json(other))),
        ),
    }
}

/// Observe one file on one target. Returns true when the comparisons were made.
pub fn examine(text: &str, target: Tgt, origin: &str, report: &mut Report) -> bool {
    let case = Case { text, target, origin };
    let blocks = split_pipelines(text);
    let n = blocks.len();
    let names: Vec<String> = blocks.iter().map(|b| b.name.clone()).collect();
    let mut distinct_names: Vec<String> = Vec::new();
    for nme in &names {
        if !distinct_names.contains(nme) {
            distinct_names.push(nme.clone());
        }
    }
    let duplicates = distinct_names.len() != n;
    let tname = target.name();
    let run = |t: &str, mode: Mode, report: &mut Report| -> Outcome {
        report.evaluations += 1;
        report.count(&format!("compile:{}", match &mode {
            Mode::All => "all",
            Mode::Named(_) => "named",
            Mode::NoPipeline => "no-pipeline",
        }));
        rs::compile_text(t, &Opts::new(target, mode))
    };

    // ---- (e) no-pipeline mode --------------------------------------------------------------
    let np = run(text, Mode::NoPipeline, report);
    match &np {
        Outcome::Ok(v) if v.len() == 1 => {
            report.count(&format!("no-pipeline-mode:one-result:n={}", n));
            if !v[0].stages.is_empty() {
                report.count("no-pipeline-mode:reports-stages");
            }
            // no pipeline is selected in this mode: every definition is an "other" pipeline, and the result is the same with all
            // of them blanked out
            if n > 0 {
                let bare = without_others(text, &blocks, None);
                match run(&bare, Mode::NoPipeline, report) {
                    Outcome::Ok(w) if w.len() == 1 => match differing_field(&v[0], &w[0]) {
                        None => report.count("no-pipeline-mode:same-without-the-definitions"),
                        Some((field, with, without)) => report.violation(
                            &format!("no-pipeline-mode-depends-on-definitions:{}:{}", field, family(target)),
                            &format!("{}: the no-pipeline result differs in its {} when the {} pipeline definitions of the file are removed: `{}` with them, `{}` without", tname, field, n, with.chars().take(160).collect::<String>(), without.chars().take(160).collect::<String>()),
                            case.witness(Json::obj().set("field", field).set("with_definitions", with).set("without_definitions", without)),
                        ),
                    },
                    other => report.count(&format!("skipped:no-pipeline-mode-without-definitions:{}", other.class())),
                }
            }
        }
        Outcome::Ok(v) => report.violation(
            "no-pipeline-mode-result-count",
            &format!("{}: no-pipeline mode returned {} results for a file with {} pipelines", tname, v.len(), n),
            case.witness(Json::obj().set("results", v.len()).set("pipelines", n)),
        ),
        Outcome::Diag(d) => {
            // a backend may reject something in the file; that is not about pipelines
            report.count(&format!("skipped:no-pipeline-mode-diagnostic:{}:{}", family(target), diag_class(d)));
        }
        Outcome::Panic(c) => report.count(&format!("skipped:panic:{}", c.signature())),
        Outcome::Budget { .. } => report.count("skipped:budget"),
    }

    // ---- (a) whole file ----------------------------------------------------------------------
    let all = run(text, Mode::All, report);
    report.count(&format!("all:{}:{}", all.class(), family(target)));

    // ---- (d) unknown names -------------------------------------------------------------------
    for u in unknown_names(&names, hash_str(text) ^ target as u64) {
        let o = run(text, Mode::Named(u.clone()), report);
        match &o {
            Outcome::Diag(d) => {
                report.count("unknown-name:diagnostic");
                if d.contains("does not contain the pipeline") {
                    report.count("unknown-name:diagnostic:does-not-contain-the-pipeline");
                } else {
                    report.count(&format!("unknown-name:diagnostic:other:{}", diag_class(d)));
                }
                if names.iter().any(|nme| nme.starts_with(u.as_str())) {
                    report.count("unknown-name:is-prefix-of-a-name");
                }
                if names.iter().any(|nme| u.starts_with(nme.as_str())) {
                    report.count("unknown-name:extends-a-name");
                }
            }
            Outcome::Ok(v) => report.violation(
                "unknown-name-accepted",
                &format!("{}: asking for pipeline `{}` (defined: {:?}) returned {} results instead of an error", tname, u, names, v.len()),
                case.witness(Json::obj().set("requested", u.as_str()).set("defined", Json::from(names.clone())).set("outcome", outcome_json(&o))),
            ),
            Outcome::Panic(c) => report.violation(
                "panic:unknown-name",
                &format!("{}: asking for pipeline `{}` (defined: {:?}) panics at {}: {}", tname, u, names, c.location, c.message),
                case.witness(Json::obj().set("requested", u.as_str()).set("defined", Json::from(names.clone())).set("outcome", outcome_json(&o))),
            ),
            Outcome::Budget { .. } => report.count("skipped:budget"),
        }
    }

    // ---- (b), (c): every pipeline by name and in its single-pipeline file -----------------------
    let named: Vec<Outcome> = distinct_names.iter().map(|nme| run(text, Mode::Named(nme.clone()), report)).collect();
    let named_of = |i: usize| -> &Outcome {
        let k = distinct_names.iter().position(|d| *d == names[i]).unwrap();
        &named[k]
    };
    let solo: Vec<Outcome> = (0..n).map(|i| run(&without_others(text, &blocks, Some(i)), Mode::All, report)).collect();

    // ---- duplicate names: only "fails cleanly" and the result count ------------------------------
    if duplicates {
        report.count("duplicate-names:files");
        let mut panics: Vec<String> = Vec::new();
        if let Outcome::Panic(c) = &all {
            panics.push(format!("all: {} at {}", c.message, c.location));
        }
        for (k, o) in named.iter().enumerate() {
            if let Outcome::Panic(c) = o {
                panics.push(format!("name `{}`: {} at {}", distinct_names[k], c.message, c.location));
            }
        }
        if !panics.is_empty() {
            report.violation(
                "panic:duplicate-pipeline-name",
                &format!("{}: a file that defines the pipelines {:?} makes compile() panic ({})", tname, names, panics[0]),
                case.witness(Json::obj().set("defined", Json::from(names.clone())).set("panics", Json::from(panics.clone()))),
            );
        } else {
            report.count(&format!("duplicate-names:all:{}", all.class()));
            if let Outcome::Ok(v) = &all {
                if v.len() != n {
                    report.violation(
                        "result-count:duplicate-names",
                        &format!("{}: {} pipeline definitions, {} results", tname, n, v.len()),
                        case.witness(Json::obj().set("defined", Json::from(names.clone())).set("results", v.len())),
                    );
                }
            }
        }
        return true;
    }

    // ---- no pipelines ----------------------------------------------------------------------------
    if n == 0 {
        match &all {
            Outcome::Diag(d) => {
                report.count("no-pipelines:diagnostic");
                if d.contains("does not contain a single pipeline") {
                    report.count("no-pipelines:diagnostic:does-not-contain-a-single-pipeline");
                } else {
                    report.count(&format!("no-pipelines:diagnostic:other:{}", diag_class(d)));
                }
            }
            Outcome::Ok(v) => report.violation(
                "no-pipelines-accepted",
                &format!("{}: a file without pipeline definitions returned {} results instead of an error", tname, v.len()),
                case.witness(Json::obj().set("outcome", outcome_json(&all))),
            ),
            Outcome::Panic(c) => report.violation(
                "panic:no-pipelines",
                &format!("{}: a file without pipeline definitions panics at {}: {}", tname, c.location, c.message),
                case.witness(Json::obj().set("outcome", outcome_json(&all))),
            ),
            Outcome::Budget { .. } => report.count("skipped:budget"),
        }
        return true;
    }

    // ---- n >= 1 --------------------------------------------------------------------------------------
    match &all {
        Outcome::Ok(v) => {
            if v.len() != n {
                report.violation(
                    &format!("result-count:{}", family(target)),
                    &format!("{}: {} pipeline definitions {:?}, {} results", tname, n, names, v.len()),
                    case.witness(Json::obj().set("defined", Json::from(names.clone())).set("results", v.len()).set("outcome", outcome_json(&all))),
                );
                return true;
            }
            report.count(&format!("all:results={}", n));
            for i in 0..n {
                // what the definition itself says about result i
                let mut want: Vec<String> = blocks[i].stages.iter().map(|(s, f)| format!("{} {:?}", s, numthreads_of(text, f))).collect();
                let mut got: Vec<String> = v[i].stages.iter().map(|s| format!("{:?} {:?}", s.stage, s.thread_group_size)).collect();
                want.sort();
                got.sort();
                if want != got {
                    report.violation(
                        &format!("source-order:stages:{}", family(target)),
                        &format!("{}: result #{} should be pipeline `{}` with stages {:?} but reports {:?}", tname, i, names[i], want, got),
                        case.witness(Json::obj().set("pipeline_index", i).set("pipeline", names[i].as_str()).set("expected_stages", Json::from(want)).set("reported_stages", Json::from(got)).set("outcome", outcome_json(&all))),
                    );
                } else {
                    report.count("stages-as-defined");
                    for (s, _) in &blocks[i].stages {
                        report.count(&format!("stage:{}", s));
                    }
                }
                compare_with_whole(&case, "named", i, &names[i], &v[i], named_of(i), report);
                compare_with_whole(&case, "alone", i, &names[i], &v[i], &solo[i], report);
            }
        }
        Outcome::Diag(_) | Outcome::Panic(_) => {
            // rssl returns the first error of any pipeline: compare by-name with single-pipeline file, and ask that the
            // failure is explained by a pipeline that fails on its own as well
            let mut explained = false;
            let mut same_as_one = false;
            let whole = all.observable();
            for i in 0..n {
                let (a, b) = (named_of(i), &solo[i]);
                if matches!(a, Outcome::Budget { .. }) || matches!(b, Outcome::Budget { .. }) {
                    report.count("skipped:budget");
                    explained = true;
                    same_as_one = true;
                    continue;
                }
                let equal = match (a, b) {
                    (Outcome::Ok(x), Outcome::Ok(y)) if x.len() == 1 && y.len() == 1 => match differing_field(&x[0], &y[0]) {
                        None => true,
                        Some((field, p, q)) => {
                            report.violation(
                                &format!("named-vs-alone-differs:{}:{}", field, family(target)),
                                &format!("{}: pipeline #{} `{}` by name and in the file without the other pipelines differ in {}: `{}` vs `{}`", tname, i, names[i], field, p.trim().chars().take(160).collect::<String>(), q.trim().chars().take(160).collect::<String>()),
                                case.witness(Json::obj().set("pipeline_index", i).set("pipeline", names[i].as_str()).set("field", field).set("by_name", x[0].observable()).set("alone", y[0].observable()).set("whole_file", outcome_json(&all))),
                            );
                            true
                        }
                    },
                    _ => a.observable() == b.observable(),
                };
                if !equal {
                    report.violation(
                        &format!("named-vs-alone-outcome:{}-{}:{}", a.class(), b.class(), family(target)),
                        &format!("{}: pipeline #{} `{}` gives {} by name but {} in the file without the other pipelines", tname, i, names[i], a.brief(), b.brief()),
                        case.witness(Json::obj().set("pipeline_index", i).set("pipeline", names[i].as_str()).set("by_name", outcome_json(a)).set("alone", outcome_json(b)).set("whole_file", outcome_json(&all))),
                    );
                } else {
                    report.count(&format!("equal:named-vs-alone:{}:{}", a.class(), family(target)));
                }
                if !matches!(a, Outcome::Ok(_)) || !matches!(b, Outcome::Ok(_)) {
                    explained = true;
                }
                if a.observable() == whole || b.observable() == whole {
                    same_as_one = true;
                }
            }
            if !explained {
                report.violation(
                    &format!("whole-file-fails-but-every-pipeline-compiles-alone:{}:{}", all.class(), family(target)),
                    &format!("{}: the whole file gives {} although each of {:?} compiles by name and alone", tname, all.brief(), names),
                    case.witness(Json::obj().set("defined", Json::from(names.clone())).set("whole_file", outcome_json(&all))),
                );
            } else if !same_as_one {
                report.violation(
                    &format!("whole-file-failure-is-no-pipelines-failure:{}:{}", all.class(), family(target)),
                    &format!("{}: the whole file gives {}, which is not what any single pipeline of {:?} gives", tname, all.brief(), names),
                    case.witness(Json::obj().set("defined", Json::from(names.clone())).set("whole_file", outcome_json(&all)).set("by_name", Json::Arr(named.iter().map(outcome_json).collect()))),
                );
            } else {
                match &all {
                    Outcome::Diag(d) => report.count(&format!("all:diagnostic-explained-by-a-pipeline:{}:{}", family(target), diag_class(d))),
                    Outcome::Panic(c) => report.count(&format!("skipped:panic:{}", c.signature())),
                    _ => {}
                }
            }
        }
        Outcome::Budget { .. } => report.count("skipped:budget"),
    }
    true
}

fn run(ctx: &Ctx) -> Report {
    let seed = ctx.seed;
    let cases = ctx.tier.pick(1500, 30_000);
    crate::par::run_cases(ctx, cases, |index, report| {
        let mut rng = Rng::for_case(seed, 0x1701, index);
        let g = gen::generate(&mut rng, true);
        let origin = format!("gen::c17_pipelines:{}", index);
        // the generator and the monitor must agree about what the file defines
        let blocks = split_pipelines(&g.text);
        let agree = blocks.len() == g.pipelines.len()
            && blocks.iter().zip(&g.pipelines).all(|(b, p)| b.name == p.name && b.stages.len() == p.stages.len() && b.stages.iter().zip(&p.stages).all(|(x, y)| x.0 == y.0 && x.1 == y.1));
        if !agree {
            report.inconclusive(&format!("case {}: the monitor's reading of the file differs from what the generator wrote", index));
            return;
        }
        for (b, p) in blocks.iter().zip(&g.pipelines) {
            for (x, y) in b.stages.iter().zip(&p.stages) {
                if numthreads_of(&g.text, &x.1) != y.2 {
                    report.inconclusive(&format!("case {}: numthreads of {} read as {:?}, written as {:?}", index, x.1, numthreads_of(&g.text, &x.1), y.2));
                    return;
                }
            }
        }
        // front end verdict, once per file (no target specific code in the generated files)
        match rs::typecheck_text(&g.text) {
            rs::Front::Ok(_) => report.count("front-end:accepted"),
            rs::Front::Diag(d) if g.duplicate_names => {
                // a clean rejection of repeated names is fine; the modes are still observed (none may panic)
                report.count(&format!("duplicate-names:front-end-rejected:{}", diag_class(&d)));
            }
            rs::Front::Diag(d) => {
                report.count(&format!("skipped:front-end-rejected:{}", diag_class(&d)));
                return;
            }
            rs::Front::Panic(c) => {
                report.count(&format!("skipped:panic:{}", c.signature()));
                return;
            }
        }
        let mut compared = false;
        for target in ALL_TARGETS {
            compared |= examine(&g.text, target, &origin, report);
        }
        if compared {
            report.distinct(hash_str(&g.text));
            for f in &g.features {
                report.count(&format!("feature:{}", f));
            }
            if g.pipelines.len() >= 2 {
                let defaults: Vec<Option<u32>> = g.pipelines.iter().map(|p| p.default_group).collect();
                if defaults.iter().any(|d| *d != defaults[0]) {
                    report.count("feature:pipelines-with-different-DefaultBindGroup");
                }
            }
            if report.want_sample() && index % 211 == 3 {
                report.sample(Json::obj().set("origin", origin.as_str()).set("pipelines", Json::from(g.pipelines.iter().map(|p| format!("{} ({})", p.name, p.kind.name())).collect::<Vec<_>>())).set("text", g.text.as_str()));
            }
        }
    })
}

fn replay(_ctx: &Ctx, witness: &Json) -> Report {
    let mut report = Report::new();
    let Some(text) = witness.get_str("text") else {
        report.inconclusive("witness has no text");
        return report;
    };
    let origin = witness.get_str("origin").unwrap_or("replay");
    let targets: Vec<Tgt> = match witness.get_str("target") {
        Some(t) => vec![Tgt::from_name(t)],
        None => ALL_TARGETS.to_vec(),
    };
    for t in targets {
        examine(text, t, origin, &mut report);
    }
    if std::env::var("VERIF_C17_VERBOSE").is_ok() {
        for (k, v) in &report.counters {
            println!("  {} = {}", k, v);
        }
    }
    report
}
