//! C07 - compilation is deterministic.
//!
//! Differential monitor. The same input (entry file, include contents, defines, target, options) is compiled
//! `THREAD_RUNS` times on fresh threads of this process and `PROCESS_RUNS` times in separate child processes (the
//! harness binary re-executed as `verif-harness worker c07 case <file>`; main.rs must route `worker c07 ...` to
//! `worker_main` below), for every target. Every `HashMap::new()` /
//! `HashSet::new()` of every run has its own random SipHash keys, so every run iterates its hash containers in an
//! independent order. Everything the caller of `compile()` can observe (`Outcome::observable()`: source bytes, stages,
//! metadata, pipeline state, or the rendered diagnostic) must be byte-identical in all runs.
//!
//! The oracle is the property itself (equality of observations); nothing of rssl's implementation is modelled.
//! What is specific to this check is the workload (src/gen/c07_workload.rs), built so that every hash-ordered
//! container of the compiler holds several order-sensitive elements, and the evidence: per input the monitor measures,
//! on the emitted output, how many suffixed names were issued, how many implicit parameters Metal functions got, how
//! many inline constant blocks and argument buffer members exist. A run in which those sizes stay small is inconclusive.

use crate::corpus;
use c07_workload::Info;
use crate::json::{self, Json};
use crate::par;
use crate::report::{Ctx, Report};
use crate::rng::{hash_str, Rng};
use crate::rs::{self, Files, Mode, Opts, Outcome, Tgt, ALL_TARGETS};
use crate::CheckDef;
use std::collections::HashSet;
use std::sync::atomic::{AtomicU64, Ordering};

// The workload generator lives in src/gen/c07_workload.rs; it is pulled in from here so that no other file of the
// harness has to change for this check to build.
#[path = "../gen/c07_workload.rs"]
mod c07_workload;

pub const THREAD_RUNS: usize = 8;
pub const PROCESS_RUNS: usize = 3;
/// Order-sensitive elements a container must hold for an input to count as a strong witness
pub const K: usize = 4;

pub fn def() -> CheckDef {
    CheckDef {
        id: "C07",
        salt: 0xC07,
        rule: "differential monitor: every input is compiled for 4 targets, 8 times on fresh threads and 3 times in freshly started child \
               processes (11 independent hash seeds per container instance), and Outcome::observable() (source bytes, stages, metadata, \
               pipeline state / diagnostic text / panic site) must be byte-identical in all runs. Inputs: (a) generated multi-file programs: \
               5-9 static/groupshared globals and 12-30 resources in 3-5 bind groups (2-3 buffer addresses per group, groups interleaved) \
               reached through 1-3 call chains of depth 3-6; 3-9 naming scopes (root, namespaces, nested and reopened namespaces), each \
               with 3-5 kits (overload sets, function templates instantiated 3x, enum+function of one name, identifiers reserved by a back \
               end) next to user symbols named f_0, f_1, f_0_0; locals named like globals/functions/generated names; 9-11 headers with \
               #pragma once or include guards included repeatedly; 13-25 macros incl. function-like, conditional and redefined ones; \
               command line defines; 1 in 6 with an injected error; modes all / named / no-pipeline, layout validation on/off; (b) the RSSL \
               snippets of the repository's unit tests (accepted and rejected); (c) every tests/basic entry file; (d) capsaicin / ffx_fsr2 \
               entry files (2 threads + 1 process). An unsorted iteration over a container with k >= 4 order-sensitive elements yields \
               k! >= 24 equally likely outputs per run, so 11 independent runs all agree with probability < (1/24)^10 (about 1.6e-14) per \
               input. In the name maps order sensitivity comes in pairs (f with overloads / user symbol f_0): m independent pairs give 2^m \
               outputs and an all-agree probability of 2^(-10 m); the generator emits m >= 9 pairs per input, >= 3 in every scope (pairs \
               built on an identifier that only one back end reserves count on that back end only; see histogram input-neutral-pairs). \
               evaluations = compile() executions observed; distinct_nontrivial = distinct inputs (content hash of files, entry, defines, \
               options) whose full set of runs was observed on all targets. The run is inconclusive unless enough inputs reached k >= 4 in \
               every measured container (suffixed names per back end incl. a double suffix, implicit Metal parameters on >= 4 functions, \
               inline constant blocks, argument buffer members, Metal helper table, include graph), enough rejected inputs and enough child \
               process runs were observed. Generator avoids (other properties' findings): resource subscripts inside larger expressions \
               (Metal back end rejects them), the identifier `select` and two-level qualified names NA::Inner::f (type checker panics, \
               C08), spelling one #pragma once header in two ways (#pragma once is keyed on the spelling, C12), bind group >= 4 only in \
               1 of 8 inputs (Metal back end panics, C08; the panic text is compared like any other outcome).",
        assumptions: &[
            "std::collections::hash_map::RandomState draws fresh keys per thread and per process and changes them per map instance (documented std behaviour), so 11 runs are 11 independent iteration orders",
            "a 64 bit FNV-1a hash plus the length identifies the observable text of a child process run (the full text is exchanged only on mismatch)",
            "the emitted-output measurements (suffix counts, implicit parameter counts) are textual heuristics; they gate conclusiveness, not the verdict",
            "the in-memory include handler of the harness is deterministic",
        ],
        min_distinct: (220, 2000),
        deadline_s: (60.0, 600.0),
        run,
        replay,
    }
}

// ------------------------------------------------------------------------------------------------
// Cases
// ------------------------------------------------------------------------------------------------

#[derive(Clone, Debug)]
pub struct Case {
    pub kind: String,
    pub files: Files,
    pub entry: String,
    pub defines: Vec<(String, String)>,
    pub mode: Mode,
    pub validate_layout: bool,
    pub thread_runs: usize,
    pub process_runs: usize,
    /// set when `files` is a whole corpus directory (then only the entry file is stored in witnesses)
    pub corpus_set: String,
    pub info: Option<Info>,
}

impl Case {
    fn text(&self) -> &str {
        self.files.0.iter().find(|f| f.0 == self.entry).map(|f| f.1.as_str()).unwrap_or("")
    }

    fn content_hash(&self) -> u64 {
        let mut h = hash_str(&self.entry) ^ hash_str(&self.mode.name()).rotate_left(7) ^ (self.validate_layout as u64);
        for (n, c) in &self.files.0 {
            h = h.rotate_left(5) ^ hash_str(n) ^ hash_str(c).rotate_left(13);
        }
        for (a, b) in &self.defines {
            h = h.rotate_left(3) ^ hash_str(a) ^ hash_str(b).rotate_left(29);
        }
        h
    }

    fn opts(&self, target: Tgt) -> Opts {
        let mut o = Opts::new(target, self.mode.clone());
        o.validate_layout = self.validate_layout;
        o.defines = self.defines.clone();
        o
    }

    fn to_json(&self, full_files: bool) -> Json {
        let files = if full_files || self.corpus_set.is_empty() { self.files.to_json() } else { Files(vec![(self.entry.clone(), self.text().to_string())]).to_json() };
        Json::obj()
            .set("kind", &self.kind)
            .set("entry", &self.entry)
            .set("files", files)
            .set("corpus_set", if full_files { "" } else { self.corpus_set.as_str() })
            .set("defines", Json::Arr(self.defines.iter().map(|(a, b)| Json::Arr(vec![Json::str(a), Json::str(b)])).collect()))
            .set("mode", self.mode.name())
            .set("validate_layout", self.validate_layout)
            .set("thread_runs", self.thread_runs)
            .set("process_runs", self.process_runs)
    }

    fn from_json(j: &Json) -> Case {
        let mut files = Files::from_json(j.get("files").unwrap_or(&Json::Null));
        let set = j.get_str("corpus_set").unwrap_or("").to_string();
        if !set.is_empty() {
            if let Some(cs) = corpus::load().into_iter().find(|s| s.name == set) {
                let mut all = cs.files;
                for f in files.0 {
                    all.0.retain(|x| x.0 != f.0);
                    all.0.push(f);
                }
                files = all;
            }
        }
        let mut defines = Vec::new();
        if let Some(d) = j.get("defines").and_then(|d| d.as_arr()) {
            for kv in d {
                if let Some(kv) = kv.as_arr() {
                    if kv.len() == 2 {
                        defines.push((kv[0].as_str().unwrap_or("").to_string(), kv[1].as_str().unwrap_or("").to_string()));
                    }
                }
            }
        }
        Case {
            kind: j.get_str("kind").unwrap_or("replay").to_string(),
            files,
            entry: j.get_str("entry").unwrap_or("main.rssl").to_string(),
            defines,
            mode: Mode::from_name(j.get_str("mode").unwrap_or("all")),
            validate_layout: j.get("validate_layout").and_then(|v| v.as_bool()).unwrap_or(false),
            thread_runs: j.get("thread_runs").and_then(|v| v.as_i64()).unwrap_or(THREAD_RUNS as i64).clamp(1, 64) as usize,
            process_runs: j.get("process_runs").and_then(|v| v.as_i64()).unwrap_or(PROCESS_RUNS as i64).clamp(0, 16) as usize,
            corpus_set: set,
            info: None,
        }
    }
}

pub struct Corpus {
    pub sets: Vec<corpus::CorpusSet>,
    pub snippets: Vec<String>,
}

/// What a run consists of: how many cases of each family, in this order
struct Plan {
    /// (set index, entry) of big corpus files, compiled 2 + 1 times
    big: Vec<(usize, String)>,
    /// (set index, entry) of tests/basic files, compiled 8 + 3 times
    basic: Vec<(usize, String)>,
    generated: u64,
    snippets: u64,
    snippet_start: usize,
}

impl Plan {
    fn new(ctx: &Ctx, corpus: &Corpus) -> Plan {
        let mut rng = Rng::for_case(ctx.seed, 0xC07_0001, 0);
        let mut big = Vec::new();
        let mut basic = Vec::new();
        for (si, set) in corpus.sets.iter().enumerate() {
            if set.has_pipelines {
                for e in &set.entries {
                    basic.push((si, e.clone()));
                }
            } else if !set.entries.is_empty() {
                let take = ctx.tier.pick(1, set.entries.len() as u64) as usize;
                let mut entries = set.entries.clone();
                rng.shuffle(&mut entries);
                for e in entries.into_iter().take(take) {
                    big.push((si, e));
                }
            }
        }
        let n_snip = corpus.snippets.len() as u64;
        Plan {
            big,
            basic,
            generated: ctx.tier.pick(160, 2400),
            snippets: ctx.tier.pick(160.min(n_snip), n_snip),
            snippet_start: if n_snip == 0 { 0 } else { rng.below(n_snip as usize) },
        }
    }
    fn total(&self) -> u64 {
        (self.big.len() + self.basic.len()) as u64 + self.generated + self.snippets
    }
}

fn corpus_case(corpus: &Corpus, si: usize, entry: &str, big: bool) -> Case {
    let set = &corpus.sets[si];
    Case {
        kind: format!("corpus:{}:{}", set.name, entry),
        files: set.files.clone(),
        entry: entry.to_string(),
        defines: set.defines.clone(),
        mode: if set.has_pipelines { Mode::All } else { Mode::NoPipeline },
        validate_layout: false,
        thread_runs: if big { 2 } else { THREAD_RUNS },
        process_runs: if big { 1 } else { PROCESS_RUNS },
        corpus_set: set.name.clone(),
        info: None,
    }
}

pub fn generated_case(seed: u64, index: u64) -> Case {
    let mut rng = Rng::for_case(seed, 0xC07_0002, index);
    let w = c07_workload::generate(&mut rng);
    Case {
        kind: if w.info.injected_error.is_some() { "generated-with-error".to_string() } else { "generated".to_string() },
        files: Files(w.files),
        entry: w.entry,
        defines: w.defines,
        mode: Mode::from_name(&w.mode),
        validate_layout: w.validate_layout,
        thread_runs: THREAD_RUNS,
        process_runs: PROCESS_RUNS,
        corpus_set: String::new(),
        info: Some(w.info),
    }
}

/// The case for (seed, index): a pure function of both (and of the repository's corpus)
fn make_case(seed: u64, index: u64, corpus: &Corpus, plan: &Plan) -> Case {
    let mut i = index as usize;
    if i < plan.big.len() {
        return corpus_case(corpus, plan.big[i].0, &plan.big[i].1, true);
    }
    i -= plan.big.len();
    if i < plan.basic.len() {
        return corpus_case(corpus, plan.basic[i].0, &plan.basic[i].1, false);
    }
    i -= plan.basic.len();
    // generated programs and snippets interleaved in proportion
    let rest = i as u64;
    let total = (plan.generated + plan.snippets).max(1);
    let snippets_before = rest * plan.snippets / total;
    let snippets_after = (rest + 1) * plan.snippets / total;
    if snippets_after > snippets_before && !corpus.snippets.is_empty() {
        let text = corpus.snippets[(plan.snippet_start + snippets_before as usize) % corpus.snippets.len()].clone();
        let has_pipeline = text.contains("Pipeline ") && text.contains("Shader");
        Case {
            kind: "snippet".to_string(),
            files: Files::single("main.rssl", &text),
            entry: "main.rssl".to_string(),
            defines: Vec::new(),
            mode: if has_pipeline { Mode::All } else { Mode::NoPipeline },
            validate_layout: false,
            thread_runs: THREAD_RUNS,
            process_runs: PROCESS_RUNS,
            corpus_set: String::new(),
            info: None,
        }
    } else {
        generated_case(seed, rest - snippets_before)
    }
}

// ------------------------------------------------------------------------------------------------
// Observation of one run
// ------------------------------------------------------------------------------------------------

/// Sizes of the order-sensitive sets as seen in the emitted output of one input
#[derive(Clone, Debug, Default)]
pub struct Sizes {
    pub classes: Vec<&'static str>,
    /// distinct identifiers `<name>_<n>` in the DirectX / Metal source which do not occur in the input
    pub suffixes_hlsl: usize,
    pub suffixes_msl: usize,
    /// of those, names with two numeric suffixes (`f_0_0`): a generated name had to avoid a user name of generated form
    pub double_suffixes: usize,
    /// Metal: largest number of implicit (address space qualified / resource typed) parameters on one function, and how many functions have >= K
    pub msl_max_implicit: usize,
    pub msl_functions_k: usize,
    /// Vulkan + buffer address: bind groups with an inline constant block, and the largest number of 8 byte members
    pub inline_blocks: usize,
    pub inline_members_max: usize,
    /// Metal: argument buffers and the largest number of members
    pub argument_buffers: usize,
    pub argument_members_max: usize,
    /// Metal helper namespace: structs and functions emitted
    pub helper_structs: usize,
    pub helper_functions: usize,
    /// input side: include directives, `#pragma once` files, macro definitions
    pub includes: usize,
    pub pragma_once: usize,
    pub macros: usize,
}

impl Sizes {
    fn to_json(&self) -> Json {
        Json::obj()
            .set("outcome_per_target", Json::from(self.classes.iter().map(|c| c.to_string()).collect::<Vec<_>>()))
            .set("suffixed_names_hlsl", self.suffixes_hlsl)
            .set("suffixed_names_msl", self.suffixes_msl)
            .set("double_suffixed_names", self.double_suffixes)
            .set("msl_max_implicit_parameters", self.msl_max_implicit)
            .set("msl_functions_with_k_implicit_parameters", self.msl_functions_k)
            .set("inline_constant_blocks", self.inline_blocks)
            .set("inline_constant_members_max", self.inline_members_max)
            .set("argument_buffers", self.argument_buffers)
            .set("argument_buffer_members_max", self.argument_members_max)
            .set("helper_structs", self.helper_structs)
            .set("helper_functions", self.helper_functions)
            .set("include_directives", self.includes)
            .set("pragma_once_files", self.pragma_once)
            .set("macro_definitions", self.macros)
    }
}

fn identifiers(text: &str) -> HashSet<&str> {
    let b = text.as_bytes();
    let mut out = HashSet::new();
    let mut i = 0;
    while i < b.len() {
        let c = b[i];
        if c.is_ascii_alphabetic() || c == b'_' {
            let s = i;
            while i < b.len() && (b[i].is_ascii_alphanumeric() || b[i] == b'_') {
                i += 1;
            }
            out.insert(&text[s..i]);
        } else if c.is_ascii_digit() {
            // number with suffix letters: not an identifier
            while i < b.len() && (b[i].is_ascii_alphanumeric() || b[i] == b'_' || b[i] == b'.') {
                i += 1;
            }
        } else {
            i += 1;
        }
    }
    out
}

fn numeric_suffix(id: &str) -> Option<&str> {
    let (stem, digits) = id.rsplit_once('_')?;
    if stem.is_empty() || digits.is_empty() || !digits.bytes().all(|c| c.is_ascii_digit()) {
        return None;
    }
    Some(stem)
}

/// (suffixed names not present in the input, those with a double suffix)
fn issued_suffixes(source: &str, input_ids: &HashSet<&str>) -> (usize, usize) {
    let mut n = 0;
    let mut double = 0;
    for id in identifiers(source) {
        if input_ids.contains(id) {
            continue;
        }
        if let Some(stem) = numeric_suffix(id) {
            n += 1;
            if numeric_suffix(stem).is_some() {
                double += 1;
            }
        }
    }
    (n, double)
}

fn split_top_level(params: &str) -> Vec<&str> {
    let mut out = Vec::new();
    let mut depth = 0i32;
    let mut start = 0;
    for (i, c) in params.char_indices() {
        match c {
            '(' | '[' | '<' => depth += 1,
            ')' | ']' | '>' => depth -= 1,
            ',' if depth == 0 => {
                out.push(params[start..i].trim());
                start = i + 1;
            }
            _ => {}
        }
    }
    let last = params[start..].trim();
    if !last.is_empty() {
        out.push(last);
    }
    out
}

/// Metal source: per function header outside the helper namespace and the entry point wrappers, the number of
/// parameters that carry an address space or a resource type (what the generator adds for required globals)
fn msl_implicit_parameters(source: &str) -> Vec<usize> {
    let mut out = Vec::new();
    let mut in_helper = false;
    for line in source.lines() {
        let t = line.trim();
        if t.starts_with("namespace helper") {
            in_helper = true;
        } else if t.starts_with("} // namespace helper") {
            in_helper = false;
        }
        if in_helper || !t.ends_with(") {") || t.contains("[[") {
            continue;
        }
        let first = t.split(|c: char| !c.is_ascii_alphanumeric() && c != '_').next().unwrap_or("");
        if matches!(first, "if" | "for" | "while" | "switch" | "else" | "do" | "return") || t.starts_with('}') {
            continue;
        }
        let Some(open) = t.find('(') else { continue };
        let params = &t[open + 1..t.len() - 3];
        let mut n = 0;
        for p in split_top_level(params) {
            let p = p.strip_prefix("const ").unwrap_or(p);
            if p.starts_with("thread ") || p.starts_with("threadgroup ") || p.starts_with("constant ") || p.starts_with("device ") || p.starts_with("helper::") || p.starts_with("metal::") {
                n += 1;
            }
        }
        out.push(n);
    }
    out
}

fn helper_table(source: &str) -> (usize, usize) {
    let mut structs = 0;
    let mut functions = 0;
    let mut in_helper = false;
    for line in source.lines() {
        let t = line.trim();
        if t.starts_with("namespace helper") {
            in_helper = true;
            continue;
        }
        if t.starts_with("} // namespace helper") {
            break;
        }
        if in_helper {
            if t.starts_with("struct ") {
                structs += 1;
            } else if t.ends_with(") {") || t.ends_with(") const {") {
                let first = t.split(|c: char| !c.is_ascii_alphanumeric() && c != '_').next().unwrap_or("");
                if !matches!(first, "if" | "for" | "while" | "switch" | "else" | "do" | "return") {
                    functions += 1;
                }
            }
        }
    }
    (structs, functions)
}

fn measure(case: &Case, outcomes: &[Outcome]) -> Sizes {
    let mut s = Sizes::default();
    let mut input_ids: HashSet<&str> = HashSet::new();
    for (_, text) in &case.files.0 {
        input_ids.extend(identifiers(text));
        for line in text.lines() {
            let l = line.trim_start();
            if let Some(rest) = l.strip_prefix('#') {
                let rest = rest.trim_start();
                if rest.starts_with("include") {
                    s.includes += 1;
                } else if rest.starts_with("define") {
                    s.macros += 1;
                } else if rest.starts_with("pragma") && rest.contains("once") {
                    s.pragma_once += 1;
                }
            }
        }
    }
    for (t, o) in ALL_TARGETS.iter().zip(outcomes) {
        s.classes.push(o.class());
        let Some(pipes) = o.ok() else { continue };
        for p in pipes {
            match t {
                Tgt::Dx => {
                    let (n, d) = issued_suffixes(&p.source, &input_ids);
                    s.suffixes_hlsl = s.suffixes_hlsl.max(n);
                    s.double_suffixes = s.double_suffixes.max(d);
                }
                Tgt::Vk => {}
                Tgt::VkBa => {
                    let blocks = p.metadata.bind_groups.iter().filter(|g| g.inline_constants.is_some()).count();
                    s.inline_blocks = s.inline_blocks.max(blocks);
                    for g in &p.metadata.bind_groups {
                        if let Some(ic) = &g.inline_constants {
                            s.inline_members_max = s.inline_members_max.max(ic.size_in_bytes as usize / 8);
                        }
                    }
                }
                Tgt::Msl => {
                    let (n, d) = issued_suffixes(&p.source, &input_ids);
                    s.suffixes_msl = s.suffixes_msl.max(n);
                    s.double_suffixes = s.double_suffixes.max(d);
                    let implicit = msl_implicit_parameters(&p.source);
                    s.msl_max_implicit = s.msl_max_implicit.max(implicit.iter().copied().max().unwrap_or(0));
                    s.msl_functions_k = s.msl_functions_k.max(implicit.iter().filter(|n| **n >= K).count());
                    s.argument_buffers = s.argument_buffers.max(p.metadata.bind_groups.iter().filter(|g| !g.bindings.is_empty()).count());
                    s.argument_members_max = s.argument_members_max.max(p.metadata.bind_groups.iter().map(|g| g.bindings.len()).max().unwrap_or(0));
                    let (hs, hf) = helper_table(&p.source);
                    s.helper_structs = s.helper_structs.max(hs);
                    s.helper_functions = s.helper_functions.max(hf);
                }
            }
        }
    }
    s
}

struct RunObs {
    /// Outcome::observable() per target
    texts: Vec<String>,
    sizes: Option<Sizes>,
}

fn observe_all_targets(case: &Case, want_sizes: bool) -> RunObs {
    let mut outcomes = Vec::new();
    for t in ALL_TARGETS {
        outcomes.push(rs::compile(&case.files, &case.entry, &case.opts(t)));
    }
    let texts = outcomes.iter().map(|o| o.observable()).collect();
    let sizes = if want_sizes { Some(measure(case, &outcomes)) } else { None };
    RunObs { texts, sizes }
}

/// One run on a thread that did not exist before (fresh hash keys), with a large stack like all harness workers
fn run_on_fresh_thread(case: &Case, want_sizes: bool) -> Result<RunObs, String> {
    std::thread::scope(|scope| {
        let h = std::thread::Builder::new()
            .stack_size(par::WORKER_STACK)
            .spawn_scoped(scope, || observe_all_targets(case, want_sizes))
            .map_err(|e| format!("cannot spawn thread: {}", e))?;
        h.join().map_err(|_| "observer thread panicked".to_string())
    })
}

// ------------------------------------------------------------------------------------------------
// Child process runs
// ------------------------------------------------------------------------------------------------

static SCRATCH_COUNTER: AtomicU64 = AtomicU64::new(0);

fn hex(h: u64) -> String {
    format!("{:016x}", h)
}

/// `verif-harness worker c07 ...` (main.rs dispatches here).
///   case <file>        child protocol: compile the case of <file> for every target, print one JSON document
///   gen <seed> <index> developer aid: print the generated input and what the monitor measures on it
///   try <file.rssl>    developer aid: compile one file for every target
pub fn worker_main(args: &[String]) {
    par::install_panic_hook();
    let cmd = args.first().map(|s| s.as_str()).unwrap_or("");
    match cmd {
        "case" => {
            let path = args.get(1).cloned().unwrap_or_default();
            let text = match std::fs::read_to_string(&path) {
                Ok(t) => t,
                Err(e) => {
                    eprintln!("cannot read {}: {}", path, e);
                    std::process::exit(3);
                }
            };
            let j = match json::parse(&text) {
                Ok(j) => j,
                Err(e) => {
                    eprintln!("cannot parse {}: {}", path, e);
                    std::process::exit(3);
                }
            };
            let case = Case::from_json(&j);
            let obs = match run_on_fresh_thread(&case, false) {
                Ok(o) => o,
                Err(e) => {
                    eprintln!("{}", e);
                    std::process::exit(4);
                }
            };
            let expect = j.get("expect").and_then(|e| e.as_arr()).map(|a| a.to_vec()).unwrap_or_default();
            let mut results = Vec::new();
            for (i, t) in ALL_TARGETS.iter().enumerate() {
                let text = &obs.texts[i];
                let h = hex(hash_str(text));
                let mut r = Json::obj().set("target", t.name()).set("len", text.len()).set("hash", h.as_str());
                let same = expect.get(i).map(|e| e.get_str("hash") == Some(h.as_str()) && e.get("len").and_then(|l| l.as_i64()) == Some(text.len() as i64)).unwrap_or(false);
                if !same {
                    // the parent wants to see what this process produced
                    r.put("text", text.as_str());
                }
                results.push(r);
            }
            println!("{}", Json::obj().set("results", Json::Arr(results)).to_string_compact());
        }
        "gen" | "try" => {
            let case = if cmd == "gen" {
                let seed: u64 = args.get(1).and_then(|s| s.parse().ok()).unwrap_or(1);
                let index: u64 = args.get(2).and_then(|s| s.parse().ok()).unwrap_or(0);
                generated_case(seed ^ 0xC07, index)
            } else {
                let path = args.get(1).cloned().unwrap_or_default();
                let text = std::fs::read_to_string(&path).unwrap_or_default();
                let mut c = generated_case(1, 0);
                c.kind = "file".into();
                c.files = Files::single("main.rssl", &text);
                c.entry = "main.rssl".into();
                c.defines.clear();
                c.mode = Mode::from_name(args.get(2).map(|s| s.as_str()).unwrap_or("all"));
                c.info = None;
                c
            };
            let show = args.iter().any(|a| a == "--show");
            if cmd == "gen" {
                for (n, c) in &case.files.0 {
                    println!("//////// {} ////////\n{}", n, c);
                }
                println!("//////// defines {:?} mode {} validate_layout {}", case.defines, case.mode.name(), case.validate_layout);
                println!("//////// info {:?}", case.info);
            }
            let mut outcomes = Vec::new();
            for t in ALL_TARGETS {
                let o = rs::compile(&case.files, &case.entry, &case.opts(t));
                println!("//////// {} => {}", t.name(), o.brief());
                if let Outcome::Diag(d) = &o {
                    println!("{}", d);
                }
                if show {
                    if let Some(p) = o.ok() {
                        for p in p {
                            println!("{}", p.observable());
                        }
                    }
                }
                outcomes.push(o);
            }
            println!("//////// sizes {}", measure(&case, &outcomes).to_json().to_string_compact());
        }
        _ => {
            eprintln!("usage: verif-harness worker c07 case <file> | gen <seed> <index> [--show] | try <file> [mode] [--show]");
            std::process::exit(2);
        }
    }
}

enum ChildResult {
    /// per target: (len, hash, text if it differed from what the parent expected)
    Done(Vec<(usize, String, Option<String>)>),
    SpawnFailed(String),
    Died(String),
    TimedOut,
}

const CHILD_TIMEOUT_S: u64 = 300;

fn run_child(case_path: &std::path::Path, out_path: &std::path::Path) -> ChildResult {
    let exe = match std::env::current_exe() {
        Ok(e) => e,
        Err(e) => return ChildResult::SpawnFailed(e.to_string()),
    };
    let out_file = match std::fs::File::create(out_path) {
        Ok(f) => f,
        Err(e) => return ChildResult::SpawnFailed(format!("cannot create {}: {}", out_path.display(), e)),
    };
    let mut child = match std::process::Command::new(exe)
        .arg("worker")
        .arg("c07")
        .arg("case")
        .arg(case_path)
        .stdin(std::process::Stdio::null())
        .stdout(std::process::Stdio::from(out_file))
        .stderr(std::process::Stdio::null())
        .spawn()
    {
        Ok(c) => c,
        Err(e) => return ChildResult::SpawnFailed(e.to_string()),
    };
    let start = std::time::Instant::now();
    let status = loop {
        match child.try_wait() {
            Ok(Some(s)) => break s,
            Ok(None) => {
                if start.elapsed().as_secs() > CHILD_TIMEOUT_S {
                    let _ = child.kill();
                    let _ = child.wait();
                    return ChildResult::TimedOut;
                }
                std::thread::sleep(std::time::Duration::from_millis(if start.elapsed().as_millis() < 50 { 1 } else { 5 }));
            }
            Err(e) => return ChildResult::Died(format!("wait failed: {}", e)),
        }
    };
    if !status.success() {
        use std::os::unix::process::ExitStatusExt;
        return ChildResult::Died(match status.signal() {
            Some(sig) => format!("signal {}", sig),
            None => format!("exit {}", status.code().unwrap_or(-1)),
        });
    }
    let text = std::fs::read_to_string(out_path).unwrap_or_default();
    let j = match json::parse(text.trim()) {
        Ok(j) => j,
        Err(e) => return ChildResult::Died(format!("unreadable result: {}", e)),
    };
    let mut out = Vec::new();
    for r in j.get("results").and_then(|r| r.as_arr()).unwrap_or(&[]) {
        out.push((r.get("len").and_then(|l| l.as_i64()).unwrap_or(-1) as usize, r.get_str("hash").unwrap_or("").to_string(), r.get_str("text").map(|s| s.to_string())));
    }
    if out.len() != ALL_TARGETS.len() {
        return ChildResult::Died("incomplete result".to_string());
    }
    ChildResult::Done(out)
}

// ------------------------------------------------------------------------------------------------
// The monitor
// ------------------------------------------------------------------------------------------------

/// Which part of the observation differs, and what kind of difference it is
fn classify(reference: &str, other: &str) -> (String, String, usize, String, String) {
    let class = |s: &str| -> &'static str {
        if s.starts_with("OK ") {
            "ok"
        } else if s.starts_with("DIAG ") {
            "diagnostic"
        } else if s.starts_with("PANIC ") {
            "panic"
        } else {
            "budget"
        }
    };
    let (ca, cb) = (class(reference), class(other));
    let mut la = reference.lines();
    let mut lb = other.lines();
    let mut n = 0;
    let (a, b) = loop {
        n += 1;
        match (la.next(), lb.next()) {
            (Some(x), Some(y)) if x == y => continue,
            (x, y) => break (x.unwrap_or("<end of output>").to_string(), y.unwrap_or("<end of output>").to_string()),
        }
    };
    if ca != cb {
        return ("outcome-class".to_string(), format!("{}-vs-{}", ca, cb), n, a, b);
    }
    if ca != "ok" {
        return (ca.to_string(), "text".to_string(), n, a, b);
    }
    let component = if a.starts_with("--stages") || b.starts_with("--stages") {
        "stages"
    } else if a.starts_with("--metadata") || b.starts_with("--metadata") {
        "metadata"
    } else if a.starts_with("--state") || b.starts_with("--state") {
        "pipeline-state"
    } else if n == 1 {
        "pipeline-count"
    } else {
        "source"
    };
    let mut ta: Vec<&str> = identifiers_in_order(&a);
    let mut tb: Vec<&str> = identifiers_in_order(&b);
    let header = a.trim_end().ends_with(") {") || b.trim_end().ends_with(") {");
    let what = if a.contains("InlineDescriptor") || b.contains("InlineDescriptor") || a.contains("vk::offset") || a.contains("InlineConstant") {
        "inline-constants"
    } else if a.contains("[[id(") || b.contains("[[id(") || a.contains("ArgumentBuffer") || b.contains("ArgumentBuffer") {
        "argument-buffer"
    } else {
        let same_order_insensitive = {
            ta.sort();
            tb.sort();
            ta == tb
        };
        if same_order_insensitive && header {
            "parameter-order"
        } else if same_order_insensitive {
            "order"
        } else {
            // do the two lines differ only in numeric suffixes?
            let strip = |v: &Vec<&str>| -> Vec<String> {
                v.iter()
                    .map(|id| {
                        let mut s: &str = id;
                        while let Some(stem) = numeric_suffix(s) {
                            s = stem;
                        }
                        s.to_string()
                    })
                    .collect()
            };
            if strip(&ta) == strip(&tb) {
                "name-suffix"
            } else if header {
                "function-signature"
            } else {
                "content"
            }
        }
    };
    (component.to_string(), what.to_string(), n, a, b)
}

fn identifiers_in_order(line: &str) -> Vec<&str> {
    let b = line.as_bytes();
    let mut out = Vec::new();
    let mut i = 0;
    while i < b.len() {
        if b[i].is_ascii_alphanumeric() || b[i] == b'_' {
            let s = i;
            while i < b.len() && (b[i].is_ascii_alphanumeric() || b[i] == b'_') {
                i += 1;
            }
            out.push(&line[s..i]);
        } else {
            i += 1;
        }
    }
    out
}

fn excerpt(text: &str, line: usize) -> String {
    if text.len() <= 48 * 1024 {
        return text.to_string();
    }
    let from = line.saturating_sub(25);
    text.lines().skip(from).take(50).collect::<Vec<_>>().join("\n")
}

fn bucket(n: usize) -> &'static str {
    match n {
        0 => "0",
        1 => "1",
        2..=3 => "2-3",
        4..=7 => "4-7",
        8..=15 => "8-15",
        16..=31 => "16-31",
        _ => "32+",
    }
}

fn report_difference(case: &Case, target: Tgt, other_run: &str, reference: &str, other: &str, report: &mut Report) {
    let (component, what, line, a, b) = classify(reference, other);
    let signature = format!("nondeterministic:{}:{}:{}", target.name(), component, what);
    let summary = format!(
        "{} input {}: {} differs from thread#0 for target {} at line {} of the observation: `{}` vs `{}`",
        case.kind,
        case.entry,
        other_run,
        target.name(),
        line,
        a.trim().chars().take(160).collect::<String>(),
        b.trim().chars().take(160).collect::<String>()
    );
    let witness = case
        .to_json(false)
        .set("target", target.name())
        .set("reference_run", "thread#0")
        .set("other_run", other_run)
        .set("component", component.as_str())
        .set("difference", what.as_str())
        .set("first_difference_line", line)
        .set("reference_line", a.as_str())
        .set("other_line", b.as_str())
        .set("reference_observation", excerpt(reference, line))
        .set("other_observation", excerpt(other, line));
    report.violation(&signature, &summary, witness);
}

/// Observe all runs of one case and compare them. Returns the sizes measured on the reference run.
pub fn examine(case: &Case, report: &mut Report) -> Option<Sizes> {
    let family = case.kind.split(':').next().unwrap_or("").to_string();
    report.count(&format!("input:{}", family));
    // ---- runs on fresh threads -------------------------------------------------------------------
    let reference = match run_on_fresh_thread(case, true) {
        Ok(r) => r,
        Err(e) => {
            report.inconclusive(&format!("reference run failed: {}", e));
            return None;
        }
    };
    report.evaluations += ALL_TARGETS.len() as u64;
    let mut reported = [false; 4];
    for run in 1..case.thread_runs {
        let obs = match run_on_fresh_thread(case, false) {
            Ok(r) => r,
            Err(e) => {
                report.inconclusive(&format!("thread run failed: {}", e));
                return None;
            }
        };
        report.evaluations += ALL_TARGETS.len() as u64;
        for (i, t) in ALL_TARGETS.iter().enumerate() {
            if obs.texts[i] != reference.texts[i] && !reported[i] {
                reported[i] = true;
                report_difference(case, *t, &format!("thread#{}", run), &reference.texts[i], &obs.texts[i], report);
            }
        }
    }
    report.count_n("runs:fresh-thread", case.thread_runs as u64);

    // ---- runs in child processes -----------------------------------------------------------------
    let mut complete = true;
    if case.process_runs > 0 {
        let dir = crate::verif_dir().join("replays");
        let _ = std::fs::create_dir_all(&dir);
        let tag = format!("c07-{}-{}", std::process::id(), SCRATCH_COUNTER.fetch_add(1, Ordering::Relaxed));
        let case_path = dir.join(format!("{}.case.tmp", tag));
        let out_path = dir.join(format!("{}.out.tmp", tag));
        let expect: Vec<Json> = ALL_TARGETS.iter().enumerate().map(|(i, t)| Json::obj().set("target", t.name()).set("len", reference.texts[i].len()).set("hash", hex(hash_str(&reference.texts[i])))).collect();
        let doc = case.to_json(true).set("expect", Json::Arr(expect));
        if std::fs::write(&case_path, doc.to_string_compact()).is_err() {
            report.inconclusive("cannot write the scratch file for the child process runs");
            complete = false;
        } else {
            for run in 0..case.process_runs {
                // a failed start or an abnormal end is retried once (the machine may be short of processes or memory)
                let mut result = run_child(&case_path, &out_path);
                if matches!(result, ChildResult::SpawnFailed(_) | ChildResult::Died(_)) {
                    report.count("child:retried");
                    std::thread::sleep(std::time::Duration::from_millis(200));
                    result = run_child(&case_path, &out_path);
                }
                match result {
                    ChildResult::Done(results) => {
                        report.evaluations += ALL_TARGETS.len() as u64;
                        report.count("runs:child-process");
                        for (i, t) in ALL_TARGETS.iter().enumerate() {
                            let (len, hash, text) = &results[i];
                            let same = *len == reference.texts[i].len() && *hash == hex(hash_str(&reference.texts[i]));
                            if !same && !reported[i] {
                                reported[i] = true;
                                let other = text.clone().unwrap_or_else(|| format!("<child reported length {} hash {} without text>", len, hash));
                                report_difference(case, *t, &format!("process#{}", run), &reference.texts[i], &other, report);
                            }
                        }
                    }
                    ChildResult::SpawnFailed(e) => {
                        report.inconclusive(&format!("cannot start a child process: {}", e));
                        complete = false;
                    }
                    ChildResult::Died(what) => {
                        // the same input did not kill the in-process runs (big stack thread in both); attribute nothing, but do not claim the comparison
                        report.count("child:died");
                        report.inconclusive(&format!("a child process run ended abnormally ({}) on a {} input", what, family));
                        complete = false;
                    }
                    ChildResult::TimedOut => {
                        report.count("child:timeout");
                        report.inconclusive(&format!("a child process run produced no result within {} s on a {} input", CHILD_TIMEOUT_S, family));
                        complete = false;
                    }
                }
            }
        }
        let _ = std::fs::remove_file(&case_path);
        let _ = std::fs::remove_file(&out_path);
    }

    // ---- evidence ----------------------------------------------------------------------------------
    let sizes = reference.sizes.clone().unwrap_or_default();
    for (t, c) in ALL_TARGETS.iter().zip(&sizes.classes) {
        report.count(&format!("outcome:{}:{}", t.name(), c));
    }
    let accepted_somewhere = sizes.classes.iter().any(|c| *c == "ok");
    let rejected_everywhere = sizes.classes.iter().all(|c| *c == "diagnostic");
    report.count(if accepted_somewhere {
        "inputs:accepted-on-some-target"
    } else if rejected_everywhere {
        "inputs:rejected-on-all-targets"
    } else {
        "inputs:panic-or-budget"
    });
    if complete {
        report.distinct(case.content_hash());
    }
    if accepted_somewhere {
        report.count(&format!("hist:{}:suffixed-names-hlsl:{}", family, bucket(sizes.suffixes_hlsl)));
        report.count(&format!("hist:{}:suffixed-names-msl:{}", family, bucket(sizes.suffixes_msl)));
        report.count(&format!("hist:{}:double-suffixed-names:{}", family, bucket(sizes.double_suffixes)));
        report.count(&format!("hist:{}:msl-max-implicit-parameters:{}", family, bucket(sizes.msl_max_implicit)));
        report.count(&format!("hist:{}:inline-constant-blocks:{}", family, bucket(sizes.inline_blocks)));
        report.count(&format!("hist:{}:argument-buffer-members-max:{}", family, bucket(sizes.argument_members_max)));
        report.count(&format!("hist:{}:helper-functions:{}", family, bucket(sizes.helper_functions)));
        report.count(&format!("hist:{}:include-directives:{}", family, bucket(sizes.includes)));
        report.max("max:suffixed-names-hlsl", sizes.suffixes_hlsl as u64);
        report.max("max:suffixed-names-msl", sizes.suffixes_msl as u64);
        report.max("max:msl-implicit-parameters", sizes.msl_max_implicit as u64);
        report.max("max:inline-constant-blocks", sizes.inline_blocks as u64);
        report.max("max:inline-constant-members", sizes.inline_members_max as u64);
        report.max("max:argument-buffer-members", sizes.argument_members_max as u64);
        report.max("max:helper-functions", sizes.helper_functions as u64);
        // strong witnesses: containers with >= K order-sensitive elements, as seen in the output
        let strong: [(&str, bool); 8] = [
            ("strong:names-hlsl(>=4 suffixed names, >=1 double suffix)", sizes.suffixes_hlsl >= K && sizes.double_suffixes >= 1),
            ("strong:names-msl(>=4 suffixed names)", sizes.suffixes_msl >= K),
            ("strong:usage-sets(>=4 implicit parameters on >=4 Metal functions)", sizes.msl_max_implicit >= K && sizes.msl_functions_k >= K),
            ("strong:inline-constant-blocks(>=4 groups)", sizes.inline_blocks >= K),
            ("strong:inline-constant-blocks(>=3 groups)", sizes.inline_blocks >= 3),
            ("strong:argument-buffers(>=4 members in one buffer)", sizes.argument_members_max >= K),
            ("strong:helper-table(>=2 structs and >=4 functions)", sizes.helper_structs >= 2 && sizes.helper_functions >= K),
            ("strong:include-graph(>=4 pragma-once files, >=8 includes, >=12 macros)", sizes.pragma_once >= K && sizes.includes >= 8 && sizes.macros >= 12),
        ];
        for (k, v) in strong {
            if v {
                report.count(k);
            }
        }
    }
    if let Some(info) = &case.info {
        report.max("max:generated:conflict-pairs", info.conflict_pairs as u64);
        report.count(&format!("hist:generated:input-conflict-pairs:{}", bucket(info.conflict_pairs)));
        report.count(&format!("hist:generated:input-min-pairs-per-scope:{}", bucket(info.min_pairs_per_scope)));
        report.count(&format!("hist:generated:input-neutral-pairs:{}", bucket(info.neutral_pairs)));
        report.count(&format!("hist:generated:input-scopes:{}", bucket(info.scopes)));
        report.count(&format!("hist:generated:input-bind-groups:{}", info.groups));
        report.count(&format!("hist:generated:input-chain-depth:{}", info.chain_depth));
        report.count(&format!("hist:generated:input-statics:{}", info.statics));
        if info.graphics_interpolators > 0 {
            report.count(&format!("generated:vertex-pixel-workload:interpolators:{}", info.graphics_interpolators));
        }
        if info.mesh_payload_types > 0 {
            report.count(&format!("generated:task-mesh-workload:payload-types:{}", info.mesh_payload_types));
        }
        if let Some(e) = info.injected_error {
            report.count(&format!("generated:injected-error:{}", e));
            if accepted_somewhere {
                report.count("generated:injected-error-but-accepted");
            }
        } else if !accepted_somewhere {
            report.count("generated:meant-to-be-accepted-but-rejected");
        } else if sizes.classes.iter().any(|c| *c != "ok") {
            report.count("generated:accepted-on-some-targets-only");
        }
    }
    // samples: generated inputs written out in full (corpus files and snippets are in the repository)
    if report.want_sample() && case.info.is_some() && (accepted_somewhere || report.samples.is_empty()) {
        report.sample(
            Json::obj()
                .set("kind", &case.kind)
                .set("entry", &case.entry)
                .set("files", case.files.to_json())
                .set("defines", Json::Arr(case.defines.iter().map(|(a, b)| Json::str(format!("{}={}", a, b))).collect()))
                .set("mode", case.mode.name())
                .set("validate_layout", case.validate_layout)
                .set("runs", format!("{} fresh threads + {} child processes, 4 targets each", case.thread_runs, case.process_runs))
                .set("measured_on_output", sizes.to_json())
                .set("generator_info", case.info.as_ref().map(|i| Json::str(format!("{:?}", i))).unwrap_or(Json::Null)),
        );
    }
    Some(sizes)
}

// ------------------------------------------------------------------------------------------------
// Driver entry points
// ------------------------------------------------------------------------------------------------

fn run(ctx: &Ctx) -> Report {
    let corpus = Corpus { sets: corpus::load(), snippets: corpus::test_snippets() };
    let plan = Plan::new(ctx, &corpus);
    let n = plan.total();
    let seed = ctx.seed;
    let mut report = par::run_cases(ctx, n, |index, report| {
        let case = make_case(seed, index, &corpus, &plan);
        examine(&case, report);
    });
    report.count_n("plan:generated", plan.generated);
    report.count_n("plan:snippets", plan.snippets);
    report.count_n("plan:corpus-basic", plan.basic.len() as u64);
    report.count_n("plan:corpus-big", plan.big.len() as u64);
    if corpus.snippets.len() < 50 {
        report.inconclusive("could not read the unit-test snippets from the repository");
    }
    if plan.basic.len() < 5 || plan.big.is_empty() {
        report.inconclusive("could not read the tests/ corpus from the repository");
    }
    // the sizes gate: enough inputs must have put >= K elements into every measured container
    let need = ctx.tier.pick(50, 700);
    let get = |r: &Report, k: &str| r.counters.get(k).copied().unwrap_or(0);
    for key in [
        "strong:names-hlsl(>=4 suffixed names, >=1 double suffix)",
        "strong:names-msl(>=4 suffixed names)",
        "strong:usage-sets(>=4 implicit parameters on >=4 Metal functions)",
        "strong:inline-constant-blocks(>=4 groups)",
        "strong:argument-buffers(>=4 members in one buffer)",
        "strong:helper-table(>=2 structs and >=4 functions)",
        "strong:include-graph(>=4 pragma-once files, >=8 includes, >=12 macros)",
    ] {
        let have = get(&report, key);
        if have < need {
            report.inconclusive(&format!("only {} inputs reached `{}` (need {}): the containers stayed too small to expose an unsorted iteration", have, key, need));
        }
    }
    let rejected = get(&report, "inputs:rejected-on-all-targets");
    if rejected < ctx.tier.pick(30, 400) {
        report.inconclusive(&format!("only {} rejected inputs were observed: diagnostics were hardly compared", rejected));
    }
    if get(&report, "runs:child-process") < ctx.tier.pick(600, 6000) {
        report.inconclusive("too few child process runs were observed");
    }
    report
}

fn replay(_ctx: &Ctx, witness: &Json) -> Report {
    let case = Case::from_json(witness);
    let mut report = Report::new();
    // a witness is a rare event by construction: give it several rounds of 8 + 3 runs
    for _ in 0..3 {
        examine(&case, &mut report);
        if !report.violations.is_empty() {
            break;
        }
    }
    report
}
