//! C07 - not built yet
