//! C09 - not built yet
