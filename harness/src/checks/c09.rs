//! C09 - printing a syntax tree and parsing it back are inverse.
//!
//! Monitor: `oracle::c09_astcmp` (structural tree equality ignoring locations, floats by bits, ambiguous nodes of
//! the re-read tree resolved with the type checker's own selection rule). Every case is an execution of the real
//! `rssl_formatter::format` followed by the real preprocessor + parser on the printed text.
//!
//! Part 1 of this file: round trip primitive, contexts, minimisation, verdicts.
//! Part 2: generators for source (a). Part 3: sources (b) and (c), run and replay.

use crate::corpus;
use crate::json::Json;
use crate::oracle::c09_astcmp::{self as cmp, bloc, ident, loc, Conv, Sx, BIN_OPS, PARSER_MODIFIERS, UNARY_OPS};
use crate::par::{self, Caught};
use crate::report::{Ctx, Report, Tier};
use crate::rng::{hash_str, Rng};
use crate::rs::{self, Files, Front, Mode, Opts, Outcome, Tgt};
use crate::CheckDef;
use rssl::ast;
use rssl::text::{Located, SourceLocation};
use rssl_formatter::Target as FTarget;

pub fn def() -> CheckDef {
    CheckDef {
        id: "C09",
        salt: 0xC09,
        rule: RULE,
        assumptions: &[
            "the comparison resolves ambiguous nodes of the re-read tree with the type checker's selection rule, taking as type names exactly the names that occur in type position (or are defined as struct/enum/template type parameter) in the original tree",
            "generated trees use disjoint pools for type names and variable/function names, except constructor-style calls on type names (as the exporters build them)",
            "rssl::compile's recorded tree (verif-hooks) is the tree that was printed into the returned source",
        ],
        min_distinct: (100_000, 1_000_000),
        deadline_s: (50.0, 540.0),
        run,
        replay,
    }
}

const RULE: &str = "sources: (a) trees built from the public ast types: exhaustive (outer operator slot x inner operator) pairs over 10 unary ops (prefix/postfix inc/dec, + - ! ~ * &), 30 binary ops (incl. all assignments and the comma), ternary, subscript, member, call (with/without template args), C cast, sizeof(expr), in return and initialiser context; every operator at the top of each of 18 contexts (return, expression statement, initialiser, aggregate initialiser, global initialiser, conditions of if/while/do/switch, for init/cond/inc, case label, array size, attribute argument, enum value, default parameter, template argument); all 316028 depth-3 nestings (complete in thorough, seed dependent sample of 30000 in quick) and all 4096 unary/cast/postfix chains of depth 3; random expressions to depth 6 over all node kinds + sizeof(type) in the same 18 contexts; literal sweep over all literal kinds with extreme values (0, 2^31, 2^32, 2^63, 2^64-1, f16/f32/f64 max, min normal, denormals, 17 digit values, values >= 2^63, infinities) in 8 positions; random statements (all statement forms, [attributes], nested if/else shapes, switch/case/default chains, for with declaration/expression/empty init, multiple declarators, aggregate initialisers) and random declarations (globals, structs with methods, cbuffers, enums, namespaces, functions with templates/attributes/semantics/registers/default arguments, declarators with arrays/pointers/references/[[attributes]], types with template arguments and every one of the 27 type modifiers the parser has syntax for); each printed with Target::Rssl, Hlsl and Msl (Msl skipped for trees holding an infinity or FLT_MAX, which that target spells as identifiers). (b) the trees the HLSL exporter built (verif hook) for every unit-test snippet and every tests/ corpus entry, for HlslForDirectX and HlslForVulkan in no-pipeline mode: parse(emitted text) must equal the recorded tree; a negative literal of an exporter tree is compared as unary minus of its magnitude (see assumptions). (c) every root definition the parser produces from the same corpora that contains no ambiguous node and no excluded node: print (Hlsl, Rssl), parse, compare. Excluded (stated by the property / no parser syntax): typedef, pipeline, static sampler, template defaults, packoffset; Metal address-space modifiers, function const/volatile qualifiers, braced-init expressions `T { }` and parenthesised declarators `(*a)[n]`/`(&a)[n]` (MSL exporter only - the RSSL parser has no syntax for any of them, and MSL text is not read back at all); literals without a spelling (negative values, -0.0, NaN); IfElse(If-without-else, ..) without a block, which neither the parser nor the exporters (they always emit blocks) can build; `& &x` reference-to-reference declarators and member access directly on an unsuffixed integer literal with a name not starting with x (`1.m` does not lex; only `1 .m` would); for-init declarations with template types or pointer declarators (the parser's documented tie rule reads those texts as expressions); more than 5 C casts per random expression (the parser tries 2^k readings; texts exceeding the logical step budget are counted as skipped, C08 owns that). Generator avoidances for open findings (each is still produced by an enumeration / sweep, which yields the finding's narrow signature): random streams never place an operator looser than + - directly under sizeof(..) or at the top of a template argument, and never use half literals >= 2^63. evaluations = format+parse executions observed (including those of witness minimisation); distinct_nontrivial = distinct original trees (content hash of the location-free tree + target) that were printed, re-read and compared equal";

// ------------------------------------------------------------------------------------------------
// Round trip primitive
// ------------------------------------------------------------------------------------------------

#[derive(Clone, Copy, PartialEq, Eq, Debug)]
pub enum Ft {
    Rssl,
    Hlsl,
    Msl,
}

impl Ft {
    fn name(self) -> &'static str {
        match self {
            Ft::Rssl => "Rssl",
            Ft::Hlsl => "Hlsl",
            Ft::Msl => "Msl",
        }
    }
    fn from_name(s: &str) -> Ft {
        match s {
            "Rssl" => Ft::Rssl,
            "Msl" => Ft::Msl,
            _ => Ft::Hlsl,
        }
    }
    fn real(self) -> FTarget {
        match self {
            Ft::Rssl => FTarget::Rssl,
            Ft::Hlsl => FTarget::Hlsl,
            Ft::Msl => FTarget::Msl,
        }
    }
}

pub enum Rt {
    Same { text: String, resolved: u32, orig: Sx },
    /// The formatter refused (ambiguous node) - not an event of this property
    FormatErr(String),
    FormatPanic(Caught),
    ParseDiag { text: String, diag: String },
    ParsePanic { text: String, caught: Caught },
    Diff { text: String, diff: cmp::Diff },
}

impl Rt {
    fn class(&self) -> &'static str {
        match self {
            Rt::Same { .. } => "same",
            Rt::FormatErr(_) => "format-error",
            Rt::FormatPanic(_) => "format-panic",
            Rt::ParseDiag { .. } => "reparse-error",
            Rt::ParsePanic { .. } => "reparse-panic",
            Rt::Diff { .. } => "tree-diff",
        }
    }
    fn is_failure(&self) -> bool {
        matches!(self, Rt::ParseDiag { .. } | Rt::Diff { .. })
    }
}

/// Compare a tree with the tree read back from `text`
/// Logical step budget for re-reading one printed text (normal cost is a few thousand steps per KB). Texts whose
/// reading explodes (`(a)(b)(c)...` costs 2^n readings) are C08's business: counted, not judged here.
const REPARSE_BUDGET: u64 = 100_000;

fn compare_with_text(original: &ast::Module, text: String, exporter_tree: bool, report: &mut Report) -> Rt {
    rssl::text::verif::reset(REPARSE_BUDGET + 40 * text.len() as u64);
    let parsed = rs::parse_text(&text);
    report.max("max:reparse_steps", rssl::text::verif::ticks());
    rssl::text::verif::reset(u64::MAX);
    match parsed {
        Front::Ok(reread) => {
            let mut c1 = Conv::new();
            c1.negative_literal_as_minus = exporter_tree;
            let a = c1.module(original);
            if c1.negative_literals > 0 {
                report.count_n("exporter:negative-literal-compared-as-unary-minus-of-magnitude", c1.negative_literals as u64);
            }
            let types = c1.types;
            let mut c2 = Conv::resolving(&types);
            let b = c2.module(&reread);
            match cmp::first_diff(&a, &b) {
                None => Rt::Same { text, resolved: c2.ambiguous, orig: a },
                Some(diff) => Rt::Diff { text, diff },
            }
        }
        Front::Diag(diag) => Rt::ParseDiag { text, diag },
        Front::Panic(caught) => Rt::ParsePanic { text, caught },
    }
}

/// format (real) -> text -> preprocess + parse (real) -> compare
pub fn round_trip(module: &ast::Module, target: Ft) -> Rt {
    let mut scratch = Report::new();
    let printed = par::guard(|| rssl_formatter::format(module, target.real()));
    let text = match printed {
        Ok(Ok(t)) => t,
        Ok(Err(e)) => return Rt::FormatErr(format!("{:?}", e)),
        Err(c) => return Rt::FormatPanic(c),
    };
    compare_with_text(module, text, false, &mut scratch)
}

fn normalise_diag(diag: &str) -> String {
    // first line that carries the reason, without file:line:col and digits
    let line = diag.lines().find(|l| l.contains("error")).unwrap_or(diag.lines().next().unwrap_or(""));
    let line = match line.find("error") {
        Some(i) => &line[i..],
        None => line,
    };
    let mut out = String::new();
    let mut last_digit = false;
    for c in line.chars().take(90) {
        if c.is_ascii_digit() {
            if !last_digit {
                out.push('N');
            }
            last_digit = true;
        } else {
            last_digit = false;
            out.push(c);
        }
    }
    out
}

// ------------------------------------------------------------------------------------------------
// Small builders
// ------------------------------------------------------------------------------------------------

fn st(kind: ast::StatementKind) -> ast::Statement {
    ast::Statement {
        kind,
        location: SourceLocation::UNKNOWN,
        attributes: Vec::new(),
    }
}

fn lname(s: &str) -> Located<String> {
    Located::none(s.to_string())
}

fn simple_type(name: &str) -> ast::Type {
    ast::Type {
        layout: ast::TypeLayout(ident(name), Default::default()),
        modifiers: ast::TypeModifierSet::new(),
        location: SourceLocation::UNKNOWN,
    }
}

fn id(name: &str) -> ast::Expression {
    ast::Expression::Identifier(ident(name))
}

fn int_lit(v: u64) -> ast::Expression {
    ast::Expression::Literal(ast::Literal::IntUntyped(v))
}

fn function(name: &str, ret: ast::Type, params: Vec<ast::FunctionParam>, body: Option<Vec<ast::Statement>>) -> ast::FunctionDefinition {
    ast::FunctionDefinition {
        name: lname(name),
        returntype: ast::FunctionReturn {
            return_type: ret,
            location_annotations: Vec::new(),
        },
        template_params: ast::TemplateParamList(Vec::new()),
        params,
        is_const: false,
        is_volatile: false,
        body,
        attributes: Vec::new(),
    }
}

fn module_of(defs: Vec<ast::RootDefinition>) -> ast::Module {
    ast::Module { root_definitions: defs }
}

fn body_module(body: Vec<ast::Statement>) -> ast::Module {
    module_of(vec![ast::RootDefinition::Function(function("f", simple_type("void"), Vec::new(), Some(body)))])
}

fn one_declarator(name: &str, init: Option<ast::Initializer>) -> ast::InitDeclarator {
    ast::InitDeclarator {
        declarator: ast::Declarator::Identifier(ident(name), Vec::new()),
        location_annotations: Vec::new(),
        init,
    }
}

// ------------------------------------------------------------------------------------------------
// Expression contexts
// ------------------------------------------------------------------------------------------------

pub const CONTEXTS: [&str; 17] = [
    "return", "init", "exprstmt", "aggregate", "global", "if", "while", "dowhile", "switch", "for-init", "for-cond", "for-inc", "case", "arraysize", "attribute", "enumvalue",
    "defaultparam",
];
pub const CTX_TEMPLATE_ARG: &str = "templatearg";

/// Put an expression into a module at the named position
pub fn wrap(e: &ast::Expression, context: &str) -> ast::Module {
    let le = || loc(e.clone());
    let block = || Box::new(st(ast::StatementKind::Block(Vec::new())));
    match context {
        "init" => body_module(vec![st(ast::StatementKind::Var(ast::VarDef {
            local_type: simple_type("T0"),
            defs: vec![one_declarator("v", Some(ast::Initializer::Expression(le())))],
        }))]),
        "exprstmt" => body_module(vec![st(ast::StatementKind::Expression(e.clone()))]),
        "aggregate" => body_module(vec![st(ast::StatementKind::Var(ast::VarDef {
            local_type: simple_type("T0"),
            defs: vec![one_declarator(
                "v",
                Some(ast::Initializer::Aggregate(vec![
                    ast::Initializer::Expression(le()),
                    ast::Initializer::Aggregate(vec![ast::Initializer::Expression(le()), ast::Initializer::Expression(loc(int_lit(1)))]),
                ])),
            )],
        }))]),
        "global" => module_of(vec![ast::RootDefinition::GlobalVariable(ast::GlobalVariable {
            global_type: ast::Type {
                modifiers: ast::TypeModifierSet::from(&[Located::none(ast::TypeModifier::Static), Located::none(ast::TypeModifier::Const)]),
                ..simple_type("int")
            },
            defs: vec![one_declarator("g", Some(ast::Initializer::Expression(le())))],
            attributes: Vec::new(),
        })]),
        "if" => body_module(vec![st(ast::StatementKind::If(le(), block()))]),
        "while" => body_module(vec![st(ast::StatementKind::While(le(), block()))]),
        "dowhile" => body_module(vec![st(ast::StatementKind::DoWhile(block(), le()))]),
        "switch" => body_module(vec![st(ast::StatementKind::Switch(le(), block()))]),
        "for-init" => body_module(vec![st(ast::StatementKind::For(ast::InitStatement::Expression(le()), None, None, block()))]),
        "for-cond" => body_module(vec![st(ast::StatementKind::For(ast::InitStatement::Empty, Some(le()), None, block()))]),
        "for-inc" => body_module(vec![st(ast::StatementKind::For(ast::InitStatement::Empty, None, Some(le()), block()))]),
        "case" => body_module(vec![st(ast::StatementKind::Switch(
            loc(id("s")),
            Box::new(st(ast::StatementKind::Block(vec![st(ast::StatementKind::CaseLabel(le(), Box::new(st(ast::StatementKind::Break))))]))),
        ))]),
        "arraysize" => body_module(vec![st(ast::StatementKind::Var(ast::VarDef {
            local_type: simple_type("int"),
            defs: vec![ast::InitDeclarator {
                declarator: ast::Declarator::Array(ast::ArrayDeclarator {
                    inner: Box::new(ast::Declarator::Identifier(ident("arr"), Vec::new())),
                    array_size: Some(Box::new(le())),
                    attributes: Vec::new(),
                }),
                location_annotations: Vec::new(),
                init: None,
            }],
        }))]),
        "attribute" => {
            let mut s = st(ast::StatementKind::While(loc(id("c")), block()));
            s.attributes.push(ast::Attribute {
                name: vec![lname("unroll")],
                arguments: vec![le(), loc(int_lit(2))],
                two_square_brackets: false,
            });
            body_module(vec![s])
        }
        "enumvalue" => module_of(vec![ast::RootDefinition::Enum(ast::EnumDefinition {
            name: lname("E0"),
            values: vec![
                ast::EnumValue {
                    name: lname("A"),
                    value: Some(le()),
                },
                ast::EnumValue { name: lname("B"), value: None },
            ],
        })]),
        "defaultparam" => module_of(vec![ast::RootDefinition::Function(function(
            "f",
            simple_type("void"),
            vec![ast::FunctionParam {
                param_type: simple_type("int"),
                declarator: ast::Declarator::Identifier(ident("p"), Vec::new()),
                location_annotations: Vec::new(),
                default_expr: Some(e.clone()),
            }],
            Some(Vec::new()),
        ))]),
        "templatearg" => body_module(vec![st(ast::StatementKind::Var(ast::VarDef {
            local_type: ast::Type {
                layout: ast::TypeLayout(ident("Tpl"), vec![ast::ExpressionOrType::Expression(le()), ast::ExpressionOrType::Type(ast::TypeId::from(simple_type("float")))].into_boxed_slice()),
                modifiers: ast::TypeModifierSet::new(),
                location: SourceLocation::UNKNOWN,
            },
            defs: vec![one_declarator("v", None)],
        }))]),
        _ => body_module(vec![st(ast::StatementKind::Return(Some(le())))]),
    }
}

// ------------------------------------------------------------------------------------------------
// Expression structure access (for minimisation)
// ------------------------------------------------------------------------------------------------

fn children(e: &ast::Expression) -> Vec<ast::Expression> {
    use ast::Expression as E;
    match e {
        E::UnaryOperation(_, x) | E::Member(x, _) | E::Cast(_, x) => vec![x.node.clone()],
        E::BinaryOperation(_, l, r) | E::ArraySubscript(l, r) => vec![l.node.clone(), r.node.clone()],
        E::TernaryConditional(a, b, c) => vec![a.node.clone(), b.node.clone(), c.node.clone()],
        E::Call(f, _, args) => {
            let mut v = vec![f.node.clone()];
            v.extend(args.iter().map(|a| a.node.clone()));
            v
        }
        E::SizeOf(v) => match &**v {
            ast::ExpressionOrType::Expression(x) => vec![x.node.clone()],
            _ => Vec::new(),
        },
        _ => Vec::new(),
    }
}

fn with_child(e: &ast::Expression, index: usize, new: ast::Expression) -> ast::Expression {
    use ast::Expression as E;
    let mut out = e.clone();
    match &mut out {
        E::UnaryOperation(_, x) | E::Member(x, _) | E::Cast(_, x) => x.node = new,
        E::BinaryOperation(_, l, r) | E::ArraySubscript(l, r) => {
            if index == 0 {
                l.node = new
            } else {
                r.node = new
            }
        }
        E::TernaryConditional(a, b, c) => match index {
            0 => a.node = new,
            1 => b.node = new,
            _ => c.node = new,
        },
        E::Call(f, _, args) => {
            if index == 0 {
                f.node = new
            } else {
                args[index - 1].node = new
            }
        }
        E::SizeOf(v) => {
            if let ast::ExpressionOrType::Expression(x) = &mut **v {
                x.node = new
            }
        }
        _ => {}
    }
    out
}

fn is_leaf(e: &ast::Expression) -> bool {
    matches!(e, ast::Expression::Identifier(_))
}

fn expr_size(e: &ast::Expression) -> usize {
    1 + children(e).iter().map(expr_size).sum::<usize>()
}

/// Other simplifications of a node that keep its kind: drop template arguments / call arguments, plain cast type
fn simplifications(e: &ast::Expression) -> Vec<ast::Expression> {
    use ast::Expression as E;
    let mut out = Vec::new();
    match e {
        E::Call(f, targs, args) => {
            if !targs.is_empty() {
                out.push(E::Call(f.clone(), Vec::new(), args.clone()));
            }
            for i in 0..args.len() {
                let mut a = args.clone();
                a.remove(i);
                out.push(E::Call(f.clone(), targs.clone(), a));
            }
        }
        E::Cast(t, x) => {
            let plain = ast::TypeId::from(simple_type("T0"));
            if **t != plain {
                out.push(E::Cast(Box::new(plain), x.clone()));
            }
        }
        E::Identifier(i) => {
            if i.identifiers.len() > 1 || i.base == ast::ScopedIdentifierBase::Absolute {
                out.push(id("x"));
            }
        }
        E::Member(x, name) => {
            if name.identifiers.len() > 1 {
                out.push(E::Member(x.clone(), ident("m")));
            }
        }
        _ => {}
    }
    out
}

/// Greedy minimisation of a failing expression in a fixed context and target; keeps the failure class
pub fn minimise(e: &ast::Expression, context: &str, target: Ft, class: &str, evaluations: &mut u64) -> ast::Expression {
    let mut fails = |c: &ast::Expression| -> bool {
        *evaluations += 1;
        let _ = class;
        round_trip(&wrap(c, context), target).is_failure()
    };
    let mut cur = e.clone();
    let mut budget = 400;
    'outer: loop {
        if budget == 0 {
            break;
        }
        // 1. replace by a child
        for c in children(&cur) {
            budget -= 1;
            if fails(&c) {
                cur = c;
                continue 'outer;
            }
        }
        // 2. simplify somewhere inside (pre-order positions)
        let mut paths = Vec::new();
        collect_paths(&cur, &mut Vec::new(), &mut paths);
        for p in paths {
            if p.is_empty() {
                for s in simplifications(&cur) {
                    budget -= 1;
                    if fails(&s) {
                        cur = s;
                        continue 'outer;
                    }
                }
                continue;
            }
            let sub = get_path(&cur, &p);
            let mut candidates: Vec<ast::Expression> = Vec::new();
            if !is_leaf(&sub) {
                candidates.push(id("x"));
                candidates.extend(children(&sub));
                // canonical stand-in for "an operand that is printed in parentheses"
                if matches!(&sub, ast::Expression::BinaryOperation(..) | ast::Expression::TernaryConditional(..)) {
                    candidates.push(ast::Expression::BinaryOperation(ast::BinOp::Sequence, bloc(id("x")), bloc(id("x"))));
                }
            }
            candidates.extend(simplifications(&sub));
            for c in candidates {
                if expr_size(&c) > expr_size(&sub) || c == sub {
                    continue;
                }
                let cand = set_path(&cur, &p, c);
                budget -= 1;
                if budget <= 0 {
                    break 'outer;
                }
                if fails(&cand) {
                    cur = cand;
                    continue 'outer;
                }
            }
        }
        break;
    }
    cur
}

fn collect_paths(e: &ast::Expression, prefix: &mut Vec<usize>, out: &mut Vec<Vec<usize>>) {
    out.push(prefix.clone());
    for (i, c) in children(e).iter().enumerate() {
        prefix.push(i);
        collect_paths(c, prefix, out);
        prefix.pop();
    }
}

fn get_path(e: &ast::Expression, path: &[usize]) -> ast::Expression {
    match path.split_first() {
        None => e.clone(),
        Some((i, rest)) => get_path(&children(e)[*i], rest),
    }
}

fn set_path(e: &ast::Expression, path: &[usize], new: ast::Expression) -> ast::Expression {
    match path.split_first() {
        None => new,
        Some((i, rest)) => {
            let child = children(e)[*i].clone();
            with_child(e, *i, set_path(&child, rest, new))
        }
    }
}

/// Skeleton of an expression with literal classes, used in signatures
fn expr_skeleton(e: &ast::Expression) -> String {
    use ast::Expression as E;
    match e {
        E::Literal(l) => {
            let mut c = Conv::new();
            format!("{}[{}]", c.literal(l).kind, cmp::literal_class(l))
        }
        E::Identifier(_) => "Id".to_string(),
        E::SizeOf(v) if !matches!(**v, ast::ExpressionOrType::Expression(_)) => "SizeOf(type)".to_string(),
        _ => {
            let mut c = Conv::new();
            let kind = c.expr(e).kind;
            let kids: Vec<String> = children(e).iter().map(expr_skeleton).collect();
            let extra = match e {
                E::Call(_, targs, _) if !targs.is_empty() => "<>",
                _ => "",
            };
            format!("{}{}({})", kind, extra, kids.join(","))
        }
    }
}

// ------------------------------------------------------------------------------------------------
// Part 2: generators for source (a)
// ------------------------------------------------------------------------------------------------

const VARS: [&str; 13] = ["a", "b", "c", "x", "y", "i", "n", "idx", "foo", "bar_1", "ns::g", "::h", "A::B::c"];
const MEMBERS: [&str; 6] = ["x", "xyz", "m", "field_1", "rgba", "w"];
const TYPES: [&str; 13] = ["float", "int", "uint", "half", "double", "bool", "float3", "float4x4", "uint2", "T0", "S1", "ns::T2", "::G3"];
const FUNCS: [&str; 8] = ["f", "g", "max", "dot", "ns::func", "float3", "int", "T0"];

/// Constructs the random generators leave out because a recorded finding covers them (see RULE). Every one of
/// them is still produced by an enumeration / sweep / directed family, which yields the finding's narrow signature.
#[derive(Clone, Copy)]
pub struct Avoid {
    /// half literals >= 2^63 (printed without fraction)
    pub huge_half: bool,
    /// operands of sizeof(..) and template arguments whose top operator is looser than + and - (printed without parentheses)
    pub loose_in_type_list: bool,
}

pub const AVOID_KNOWN: Avoid = Avoid {
    huge_half: true,
    loose_in_type_list: true,
};

/// Top operator looser than additive: shift, relational, equality, bitwise, logical, conditional, assignment, sequence
fn is_loose(e: &ast::Expression) -> bool {
    use ast::BinOp::*;
    match e {
        ast::Expression::BinaryOperation(op, _, _) => !matches!(op, Add | Subtract | Multiply | Divide | Modulus),
        ast::Expression::TernaryConditional(..) => true,
        _ => false,
    }
}

fn count_casts(e: &ast::Expression) -> usize {
    (if matches!(e, ast::Expression::Cast(..)) { 1 } else { 0 }) + children(e).iter().map(count_casts).sum::<usize>()
}

fn is_assignment(op: &ast::BinOp) -> bool {
    use ast::BinOp::*;
    matches!(
        op,
        Assignment | SumAssignment | DifferenceAssignment | ProductAssignment | QuotientAssignment | RemainderAssignment | LeftShiftAssignment | RightShiftAssignment | BitwiseAndAssignment | BitwiseOrAssignment | BitwiseXorAssignment
    )
}

/// Interesting values per literal kind (all have a spelling: non-negative, not NaN, not -0.0)
fn literal_pool(allow_inf: bool) -> Vec<ast::Literal> {
    use ast::Literal as L;
    let mut v = vec![L::Bool(true), L::Bool(false), L::String("abc".to_string()), L::String("a b, c;".to_string()), L::String(String::new()),
        // the lexer has no escape sequences: a backslash is a character like any other, and so are comment openers and `#`
        L::String("shaders\\common".to_string()), L::String("a\\\\b\\n".to_string()), L::String("\\".to_string()), L::String("x // y /* z */ #w".to_string()), L::String("'".to_string())];
    for x in [0u64, 1, 7, 8, 9, 10, 255, (1 << 31) - 1, 1 << 31, (1 << 32) - 1, 1 << 32, (1 << 63) - 1, 1 << 63, u64::MAX] {
        v.push(L::IntUntyped(x));
        v.push(L::IntUnsigned32(x));
        v.push(L::IntUnsigned64(x));
        if x <= i64::MAX as u64 {
            v.push(L::IntSigned64(x as i64));
        }
    }
    let f64s = [
        0.0,
        1.0,
        2.0,
        0.5,
        0.1,
        0.1 + 0.2,
        1.0 / 3.0,
        0.0031308,
        0.055,
        1e-7,
        1e15,
        1e16,
        1e21,
        1e22,
        1e23,
        9007199254740992.0,
        9007199254740993.0,
        9223372036854775807.0,
        9223372036854775808.0,
        18446744073709551615.0,
        18446744073709551616.0,
        1e300,
        f64::MAX,
        f64::MIN_POSITIVE,
        5e-324,
        2.2250738585072009e-308,
        1.7976931348623157e308,
        123456789.12345678,
        0.12345678901234567,
        f32::MAX as f64,
        65504.0,
        16777216.0,
        16777217.0,
        3.14159265358979323846,
    ];
    for x in f64s {
        v.push(L::FloatUntyped(x));
        v.push(L::Float64(x));
    }
    let f32s = [
        0.0f32,
        1.0,
        2.0,
        0.5,
        0.1,
        1.0 / 3.0,
        0.0031308,
        1e-7,
        1e10,
        16777216.0,
        9.223372e18,
        1.8446744e19,
        f32::MAX,
        f32::MIN_POSITIVE,
        1e-45,
        1.1754942e-38,
        3.4028233e38,
        123456.79,
        65504.0,
        6.1035156e-5,
        5.9604645e-8,
        0.33325195,
        1.5,
        0.000123,
    ];
    for x in f32s {
        v.push(L::Float32(x));
        v.push(L::Float16(x));
    }
    if allow_inf {
        v.push(L::FloatUntyped(f64::INFINITY));
        v.push(L::Float64(f64::INFINITY));
        v.push(L::Float32(f32::INFINITY));
        v.push(L::Float16(f32::INFINITY));
    }
    v
}

/// Literals the Msl target spells as identifiers (INFINITY, FLT_MAX): not readable as literals by design
fn has_msl_only_spelling(sx: &Sx) -> bool {
    let mut found = false;
    sx.visit(&mut |n| {
        if n.kind.starts_with("Lit:Float") && (n.val.contains("(inf)") || (n.kind == "Lit:Float32" && n.val.starts_with("bits:0x7f7fffff"))) {
            found = true;
        }
    });
    found
}

pub struct Gen<'r> {
    pub rng: &'r mut Rng,
    pub avoid: Option<Avoid>,
    pub allow_inf: bool,
}

impl Gen<'_> {
    fn var(&mut self) -> ast::Expression {
        id(*self.rng.pick(&VARS))
    }

    pub fn literal(&mut self) -> ast::Literal {
        use ast::Literal as L;
        loop {
            let l = if self.rng.chance(1, 2) {
                let pool = literal_pool(self.allow_inf);
                pool[self.rng.below(pool.len())].clone()
            } else {
                // random finite non-negative values of every kind
                match self.rng.below(8) {
                    0 => L::IntUntyped(self.rng.next_u64() >> self.rng.below(64)),
                    1 => L::IntUnsigned32(self.rng.next_u32() as u64),
                    2 => L::IntUnsigned64(self.rng.next_u64() >> self.rng.below(64)),
                    3 => L::IntSigned64((self.rng.next_u64() >> (1 + self.rng.below(63))) as i64),
                    4 => L::FloatUntyped(f64::from_bits(self.rng.next_u64() & 0x7fef_ffff_ffff_ffff)),
                    5 => L::Float64(f64::from_bits(self.rng.next_u64() & 0x7fef_ffff_ffff_ffff)),
                    6 => L::Float32(f32::from_bits(self.rng.next_u32() & 0x7f7f_ffff)),
                    _ => {
                        // a value representable in binary16: 11 significant bits, exponent -24..15
                        let m = (self.rng.below(2048) + 1) as f32;
                        let e = self.rng.range(-24, 5) as i32;
                        L::Float16(m * (2.0f32).powi(e))
                    }
                }
            };
            let finite_ok = match &l {
                L::FloatUntyped(v) | L::Float64(v) => !v.is_nan() && (self.allow_inf || v.is_finite()),
                L::Float16(v) | L::Float32(v) => !v.is_nan() && (self.allow_inf || v.is_finite()),
                _ => true,
            };
            if !finite_ok {
                continue;
            }
            if self.avoid.map(|a| a.huge_half).unwrap_or(false) && matches!(&l, L::Float16(v) if *v >= 9.2e18) {
                continue;
            }
            return l;
        }
    }

    pub fn ty(&mut self, depth: u32) -> ast::Type {
        let mut t = if depth > 0 && self.rng.chance(1, 4) {
            let (name, args): (&str, Vec<ast::ExpressionOrType>) = match self.rng.below(6) {
                0 => ("Texture2D", vec![self.targ_type(depth - 1)]),
                1 => ("RWStructuredBuffer", vec![self.targ_type(depth - 1)]),
                2 => ("vector", vec![self.targ_type(0), self.targ_expr()]),
                3 => ("matrix", vec![self.targ_type(0), self.targ_expr(), self.targ_expr()]),
                4 => ("ns::Tpl", vec![self.targ_expr(), self.targ_type(depth - 1)]),
                _ => ("Tpl", vec![self.targ_type(depth - 1), self.targ_type(depth - 1), self.targ_expr()]),
            };
            ast::Type {
                layout: ast::TypeLayout(ident(name), args.into_boxed_slice()),
                modifiers: ast::TypeModifierSet::new(),
                location: SourceLocation::UNKNOWN,
            }
        } else {
            simple_type(*self.rng.pick(&TYPES))
        };
        if self.rng.chance(1, 3) {
            for _ in 0..1 + self.rng.below(3) {
                t.modifiers.modifiers.push(Located::none(*self.rng.pick(&PARSER_MODIFIERS)));
            }
        }
        t
    }

    fn targ_type(&mut self, depth: u32) -> ast::ExpressionOrType {
        let base = self.ty(depth);
        ast::ExpressionOrType::Type(ast::TypeId {
            base,
            abstract_declarator: ast::Declarator::Empty,
        })
    }

    /// Template argument expressions: literals, names and `>`-free arithmetic (general expressions are probed in the "templatearg" context)
    fn targ_expr(&mut self) -> ast::ExpressionOrType {
        let e = match self.rng.below(5) {
            0 => id(*self.rng.pick(&["N", "K", "ns::N"])),
            1 => ast::Expression::BinaryOperation(ast::BinOp::Add, bloc(id("N")), bloc(int_lit(1))),
            2 => ast::Expression::Literal(ast::Literal::IntUnsigned32(self.rng.below(64) as u64)),
            3 => ast::Expression::Literal(ast::Literal::Bool(self.rng.chance(1, 2))),
            _ => int_lit(self.rng.below(9) as u64),
        };
        ast::ExpressionOrType::Expression(loc(e))
    }

    pub fn type_id(&mut self, depth: u32) -> ast::TypeId {
        let base = self.ty(depth);
        let abstract_declarator = match self.rng.below(10) {
            0 => ast::Declarator::Array(ast::ArrayDeclarator {
                inner: Box::new(ast::Declarator::Empty),
                array_size: Some(bloc(int_lit(1 + self.rng.below(8) as u64))),
                attributes: Vec::new(),
            }),
            1 => ast::Declarator::Array(ast::ArrayDeclarator {
                inner: Box::new(ast::Declarator::Empty),
                array_size: None,
                attributes: Vec::new(),
            }),
            2 => ast::Declarator::Pointer(ast::PointerDeclarator {
                attributes: Vec::new(),
                qualifiers: ast::TypeModifierSet::new(),
                inner: Box::new(ast::Declarator::Empty),
            }),
            _ => ast::Declarator::Empty,
        };
        ast::TypeId { base, abstract_declarator }
    }

    fn leaf(&mut self) -> ast::Expression {
        if self.rng.chance(1, 2) {
            self.var()
        } else {
            ast::Expression::Literal(self.literal())
        }
    }

    /// Random expression over every node kind
    pub fn expr(&mut self, depth: u32) -> ast::Expression {
        use ast::Expression as E;
        if depth == 0 || self.rng.chance(1, 8) {
            return self.leaf();
        }
        let d = depth - 1;
        let avoid = self.avoid;
        match self.rng.below(20) {
            0..=3 => {
                let op = self.rng.pick(&UNARY_OPS).clone();
                E::UnaryOperation(op, bloc(self.expr(d)))
            }
            4..=9 => {
                let op = self.rng.pick(&BIN_OPS).clone();
                E::BinaryOperation(op, bloc(self.expr(d)), bloc(self.expr(d)))
            }
            10 => {
                let c = self.expr(d);
                let a = self.expr(d);
                let b = self.expr(d);
                E::TernaryConditional(bloc(c), bloc(a), bloc(b))
            }
            11 => E::ArraySubscript(bloc(self.expr(d)), bloc(self.expr(d))),
            12 | 13 => {
                let object = self.expr(d);
                // `1.m` does not lex (only `1.x...` is special cased by the lexer), see RULE
                let name = if matches!(&object, E::Literal(ast::Literal::IntUntyped(_))) {
                    *self.rng.pick(&["x", "xyz", "xx"])
                } else if self.rng.chance(1, 12) {
                    "Base::m"
                } else {
                    *self.rng.pick(&MEMBERS)
                };
                E::Member(bloc(object), ident(name))
            }
            14 | 15 => {
                let callee = if self.rng.chance(3, 4) { id(*self.rng.pick(&FUNCS)) } else { self.expr(d) };
                let targs = if self.rng.chance(1, 4) {
                    (0..1 + self.rng.below(2)).map(|_| if self.rng.chance(1, 2) { self.targ_type(1) } else { self.targ_expr() }).collect()
                } else {
                    Vec::new()
                };
                let args = (0..self.rng.below(4)).map(|_| loc(self.expr(d))).collect();
                E::Call(bloc(callee), targs, args)
            }
            16 | 17 => E::Cast(Box::new(self.type_id(1)), bloc(self.expr(d))),
            18 => {
                let mut operand = self.expr(d);
                if avoid.map(|a| a.loose_in_type_list).unwrap_or(false) {
                    while is_loose(&operand) {
                        operand = self.expr(d);
                    }
                }
                E::SizeOf(Box::new(ast::ExpressionOrType::Expression(loc(operand))))
            }
            _ => E::SizeOf(Box::new(ast::ExpressionOrType::Type(self.type_id(1)))),
        }
    }
}

// ---- exhaustive operator nestings ----------------------------------------------------------------

#[derive(Clone, Debug, PartialEq)]
pub enum Form {
    Un(usize),
    Bin(usize),
    Ternary,
    Subscript,
    Member,
    Call,
    CallT,
    Cast,
    SizeOfE,
}

pub fn all_forms() -> Vec<Form> {
    let mut v = Vec::new();
    for i in 0..UNARY_OPS.len() {
        v.push(Form::Un(i));
    }
    for i in 0..BIN_OPS.len() {
        v.push(Form::Bin(i));
    }
    v.extend([Form::Ternary, Form::Subscript, Form::Member, Form::Call, Form::CallT, Form::Cast, Form::SizeOfE]);
    v
}

impl Form {
    fn slots(&self) -> &'static [&'static str] {
        match self {
            Form::Un(_) | Form::Member | Form::Cast | Form::SizeOfE => &["operand"],
            Form::Bin(_) => &["left", "right"],
            Form::Ternary => &["cond", "true", "false"],
            Form::Subscript => &["object", "index"],
            Form::Call | Form::CallT => &["callee", "arg"],
        }
    }
    fn name(&self) -> String {
        match self {
            Form::Un(i) => format!("{:?}", UNARY_OPS[*i]),
            Form::Bin(i) => format!("{:?}", BIN_OPS[*i]),
            other => format!("{:?}", other),
        }
    }
    /// A chain form has one operand on its spine (unary, postfix, cast)
    fn is_chain(&self) -> bool {
        !matches!(self, Form::Bin(_) | Form::Ternary)
    }
    /// Build the node with `inner` in slot `slot` and distinct leaves (named after `level`) elsewhere
    fn build(&self, slot: usize, inner: Option<ast::Expression>, level: usize) -> ast::Expression {
        use ast::Expression as E;
        let names = [["a", "b", "c"], ["p", "q", "r"], ["u", "v", "w"]][level % 3];
        let mut inner = inner;
        let mut arg = |i: usize| -> Box<Located<ast::Expression>> {
            if i == slot {
                if let Some(e) = inner.take() {
                    return bloc(e);
                }
            }
            bloc(id(names[i]))
        };
        match self {
            Form::Un(i) => E::UnaryOperation(UNARY_OPS[*i].clone(), arg(0)),
            Form::Bin(i) => {
                let l = arg(0);
                let r = arg(1);
                E::BinaryOperation(BIN_OPS[*i].clone(), l, r)
            }
            Form::Ternary => {
                let c = arg(0);
                let a = arg(1);
                let b = arg(2);
                E::TernaryConditional(c, a, b)
            }
            Form::Subscript => {
                let o = arg(0);
                let i = arg(1);
                E::ArraySubscript(o, i)
            }
            Form::Member => E::Member(arg(0), ident("m")),
            Form::Call => {
                let f = arg(0);
                let a = arg(1);
                E::Call(f, Vec::new(), vec![*a, loc(id("z"))])
            }
            Form::CallT => {
                let f = arg(0);
                let a = arg(1);
                E::Call(f, vec![ast::ExpressionOrType::Type(ast::TypeId::from(simple_type("float"))), ast::ExpressionOrType::Expression(loc(int_lit(3)))], vec![*a])
            }
            Form::Cast => E::Cast(Box::new(ast::TypeId::from(simple_type("T0"))), arg(0)),
            Form::SizeOfE => E::SizeOf(Box::new(ast::ExpressionOrType::Expression(*arg(0)))),
        }
    }
}

/// (form, slot) pairs
pub fn all_slots() -> Vec<(Form, usize)> {
    let mut v = Vec::new();
    for f in all_forms() {
        for s in 0..f.slots().len() {
            v.push((f.clone(), s));
        }
    }
    v
}

/// Depth 2: outer slot x inner form
pub fn nest2(index: usize) -> Option<(ast::Expression, String)> {
    let slots = all_slots();
    let forms = all_forms();
    if index >= slots.len() * forms.len() {
        return None;
    }
    let (outer, slot) = &slots[index / forms.len()];
    let inner = &forms[index % forms.len()];
    let e = outer.build(*slot, Some(inner.build(usize::MAX, None, 1)), 0);
    Some((e, format!("{}.{}<-{}", outer.name(), outer.slots()[*slot], inner.name())))
}

/// Depth 3: outer slot x middle slot x inner form
pub fn nest3_count() -> usize {
    let s = all_slots().len();
    s * s * all_forms().len()
}

pub fn nest3(index: usize, slots: &[(Form, usize)], forms: &[Form]) -> (ast::Expression, String) {
    let inner = &forms[index % forms.len()];
    let rest = index / forms.len();
    let (mid, mslot) = &slots[rest % slots.len()];
    let (outer, oslot) = &slots[(rest / slots.len()) % slots.len()];
    let e = outer.build(*oslot, Some(mid.build(*mslot, Some(inner.build(usize::MAX, None, 2)), 1)), 0);
    (e, format!("{}.{}<-{}.{}<-{}", outer.name(), outer.slots()[*oslot], mid.name(), mid.slots()[*mslot], inner.name()))
}

/// Chains of depth 3 over the forms with a single spine operand
pub fn chain_forms() -> Vec<Form> {
    all_forms().into_iter().filter(|f| f.is_chain()).collect()
}

pub fn chain3(index: usize) -> Option<(ast::Expression, String)> {
    let forms = chain_forms();
    let n = forms.len();
    if index >= n * n * n {
        return None;
    }
    let (a, b, c) = (&forms[index / (n * n)], &forms[(index / n) % n], &forms[index % n]);
    let e = a.build(0, Some(b.build(0, Some(c.build(0, None, 2)), 1)), 0);
    Some((e, format!("{}<-{}<-{}", a.name(), b.name(), c.name())))
}

// ---- statements and declarations -----------------------------------------------------------------

const SEMANTICS: [ast::Semantic; 12] = [
    ast::Semantic::DispatchThreadId,
    ast::Semantic::GroupId,
    ast::Semantic::GroupIndex,
    ast::Semantic::GroupThreadId,
    ast::Semantic::VertexId,
    ast::Semantic::InstanceId,
    ast::Semantic::PrimitiveId,
    ast::Semantic::Position,
    ast::Semantic::Target(3),
    ast::Semantic::Depth,
    ast::Semantic::DepthGreaterEqual,
    ast::Semantic::DepthLessEqual,
];

/// An else-less `if` at the end of a statement would capture a following `else`: such a tree cannot come from the
/// parser and the exporters always emit blocks, so the generator wraps these in a block (see RULE)
fn ends_with_open_if(s: &ast::Statement) -> bool {
    use ast::StatementKind as K;
    match &s.kind {
        K::If(..) => true,
        K::IfElse(_, _, e) => ends_with_open_if(e),
        K::For(_, _, _, b) | K::While(_, b) | K::Switch(_, b) => ends_with_open_if(b),
        K::CaseLabel(_, n) | K::DefaultLabel(n) => ends_with_open_if(n),
        _ => false,
    }
}

impl Gen<'_> {
    fn small_expr(&mut self) -> ast::Expression {
        let d = self.rng.below(3) as u32;
        self.expr(d)
    }

    /// Expression for a position where a top level comma would be a separator (the printer gets these through the
    /// "init"/"arraysize"/... contexts of the expression streams; here they stay comma free)
    fn noseq_expr(&mut self) -> ast::Expression {
        loop {
            let e = self.small_expr();
            if !matches!(&e, ast::Expression::BinaryOperation(ast::BinOp::Sequence, _, _)) {
                return e;
            }
        }
    }

    fn attribute(&mut self, double_only: bool) -> ast::Attribute {
        let two = double_only || self.rng.chance(1, 3);
        let (name, nargs): (Vec<&str>, usize) = match self.rng.below(7) {
            0 => (vec!["unroll"], 0),
            1 => (vec!["unroll"], 1),
            2 => (vec!["loop"], 0),
            3 => (vec!["branch"], 0),
            4 => (vec!["vk", "binding"], 2),
            5 => (vec!["numthreads"], 3),
            _ => (vec!["ns", "inner", "attr"], 1),
        };
        ast::Attribute {
            name: name.into_iter().map(lname).collect(),
            arguments: (0..nargs).map(|_| loc(self.noseq_expr())).collect(),
            two_square_brackets: two,
        }
    }

    fn attributes(&mut self, double_only: bool, one_in: u32) -> Vec<ast::Attribute> {
        if self.rng.chance(1, one_in) {
            (0..1 + self.rng.below(2)).map(|_| self.attribute(double_only)).collect()
        } else {
            Vec::new()
        }
    }

    fn annotations(&mut self, one_in: u32) -> Vec<ast::LocationAnnotation> {
        if !self.rng.chance(1, one_in) {
            return Vec::new();
        }
        let a = match self.rng.below(4) {
            0 => ast::LocationAnnotation::Semantic(self.rng.pick(&SEMANTICS).clone()),
            1 => ast::LocationAnnotation::Semantic(ast::Semantic::User(self.rng.pick(&["TEXCOORD0", "COLOR", "my_semantic"]).to_string())),
            _ => {
                let slot = if self.rng.chance(3, 4) {
                    Some(ast::RegisterSlot {
                        slot_type: *self.rng.pick(&[ast::RegisterType::T, ast::RegisterType::U, ast::RegisterType::S, ast::RegisterType::B]),
                        index: *self.rng.pick(&[0u32, 1, 7, 128, u32::MAX]),
                    })
                } else {
                    None
                };
                let space = if slot.is_none() || self.rng.chance(1, 2) { Some(*self.rng.pick(&[0u32, 1, 5, u32::MAX])) } else { None };
                ast::LocationAnnotation::Register(ast::Register { slot, space })
            }
        };
        vec![a]
    }

    /// Declarator the parser has syntax for: `*`/`&` prefixes outermost, then the name, then array dimensions
    fn declarator(&mut self, name: &str) -> ast::Declarator {
        let mut d = ast::Declarator::Identifier(ident(name), self.attributes(true, 10));
        for _ in 0..[0usize, 0, 0, 1, 1, 2][self.rng.below(6)] {
            let array_size = if self.rng.chance(1, 6) { None } else { Some(bloc(self.noseq_expr())) };
            d = ast::Declarator::Array(ast::ArrayDeclarator {
                inner: Box::new(d),
                array_size,
                attributes: self.attributes(true, 12),
            });
        }
        for _ in 0..[0usize, 0, 0, 0, 0, 1, 1, 2][self.rng.below(8)] {
            if self.rng.chance(1, 2) || matches!(d, ast::Declarator::Reference(_)) {
                let mut qualifiers = ast::TypeModifierSet::new();
                for _ in 0..self.rng.below(3) {
                    qualifiers.modifiers.push(Located::none(*self.rng.pick(&[ast::TypeModifier::Const, ast::TypeModifier::Volatile])));
                }
                d = ast::Declarator::Pointer(ast::PointerDeclarator {
                    attributes: self.attributes(false, 10),
                    qualifiers,
                    inner: Box::new(d),
                });
            } else {
                d = ast::Declarator::Reference(ast::ReferenceDeclarator {
                    attributes: self.attributes(false, 10),
                    inner: Box::new(d),
                });
            }
        }
        d
    }

    fn initializer(&mut self, depth: u32) -> ast::Initializer {
        if depth > 0 && self.rng.chance(1, 4) {
            let n = 1 + self.rng.below(3);
            ast::Initializer::Aggregate((0..n).map(|_| self.initializer(depth - 1)).collect())
        } else {
            ast::Initializer::Expression(loc(self.noseq_expr()))
        }
    }

    fn init_declarators(&mut self, annotations_one_in: u32) -> Vec<ast::InitDeclarator> {
        let n = [1usize, 1, 1, 2, 3][self.rng.below(5)];
        (0..n)
            .map(|i| {
                let name = ["v", "w1", "_u", "data", "k9"][(i + self.rng.below(5)) % 5];
                ast::InitDeclarator {
                    declarator: self.declarator(name),
                    location_annotations: self.annotations(annotations_one_in),
                    init: if self.rng.chance(1, 2) { Some(self.initializer(2)) } else { None },
                }
            })
            .collect()
    }

    fn vardef(&mut self) -> ast::VarDef {
        ast::VarDef {
            local_type: self.ty(2),
            defs: self.init_declarators(12),
        }
    }

    pub fn statement(&mut self, depth: u32) -> ast::Statement {
        use ast::StatementKind as K;
        let d = depth.saturating_sub(1);
        let pick = if depth == 0 { self.rng.below(8) } else { self.rng.below(20) };
        let kind = match pick {
            0 => K::Empty,
            1 | 2 => K::Expression(self.small_expr()),
            3 | 4 => K::Var(self.vardef()),
            5 => self.rng.pick(&[K::Break, K::Continue, K::Discard]).clone(),
            6 => K::Return(None),
            7 => K::Return(Some(loc(self.small_expr()))),
            8 | 9 => K::Block((0..self.rng.below(4)).map(|_| self.statement(d)).collect()),
            10 => K::If(loc(self.small_expr()), Box::new(self.statement(d))),
            11 | 12 => {
                let mut then = self.statement(d);
                if ends_with_open_if(&then) {
                    then = st(K::Block(vec![then]));
                }
                K::IfElse(loc(self.small_expr()), Box::new(then), Box::new(self.statement(d)))
            }
            13 | 14 => {
                let init = match self.rng.below(3) {
                    0 => ast::InitStatement::Empty,
                    1 => ast::InitStatement::Expression(loc(self.small_expr())),
                    _ => ast::InitStatement::Declaration(self.for_vardef()),
                };
                let cond = if self.rng.chance(3, 4) { Some(loc(self.small_expr())) } else { None };
                let inc = if self.rng.chance(3, 4) { Some(loc(self.small_expr())) } else { None };
                K::For(init, cond, inc, Box::new(self.statement(d)))
            }
            15 => K::While(loc(self.small_expr()), Box::new(self.statement(d))),
            16 => K::DoWhile(Box::new(self.statement(d)), loc(self.small_expr())),
            17 | 18 => {
                // switch with label chains
                let mut items = Vec::new();
                for _ in 0..1 + self.rng.below(3) {
                    let mut s = self.statement(d);
                    for _ in 0..1 + self.rng.below(2) {
                        s = if self.rng.chance(1, 4) { st(K::DefaultLabel(Box::new(s))) } else { st(K::CaseLabel(loc(self.small_expr()), Box::new(s))) };
                    }
                    items.push(s);
                    if self.rng.chance(1, 2) {
                        items.push(st(K::Break));
                    }
                }
                let body = if self.rng.chance(5, 6) { st(K::Block(items)) } else { items.remove(0) };
                K::Switch(loc(self.small_expr()), Box::new(body))
            }
            _ => K::CaseLabel(loc(self.small_expr()), Box::new(self.statement(d))),
        };
        ast::Statement {
            kind,
            location: SourceLocation::UNKNOWN,
            attributes: self.attributes(false, 8),
        }
    }

    /// Declaration in a for-init: plain (non template) type name and no pointer/reference declarator - for those texts
    /// the parser's for-init prefers the expression reading on a tie, which is its documented "longest parse, first
    /// alternative wins" rule and not a property of the printer
    fn for_vardef(&mut self) -> ast::VarDef {
        let mut t = simple_type(*self.rng.pick(&TYPES));
        if self.rng.chance(1, 4) {
            t.modifiers.modifiers.push(Located::none(ast::TypeModifier::Const));
        }
        let n = 1 + self.rng.below(2);
        ast::VarDef {
            local_type: t,
            defs: (0..n).map(|i| one_declarator(["i", "j"][i], Some(ast::Initializer::Expression(loc(self.noseq_expr()))))).collect(),
        }
    }

    fn template_params(&mut self) -> ast::TemplateParamList {
        if !self.rng.chance(1, 4) {
            return ast::TemplateParamList(Vec::new());
        }
        let n = 1 + self.rng.below(3);
        ast::TemplateParamList(
            (0..n)
                .map(|i| {
                    let name = if self.rng.chance(5, 6) { Some(lname(["TA", "TB", "TC"][i])) } else { None };
                    if self.rng.chance(1, 2) {
                        ast::TemplateParam::Type(ast::TemplateTypeParam { name, default: None })
                    } else {
                        ast::TemplateParam::Value(ast::TemplateValueParam {
                            value_type: simple_type(*self.rng.pick(&["uint", "int", "bool"])),
                            name,
                            default: None,
                        })
                    }
                })
                .collect(),
        )
    }

    fn function_def(&mut self, name: &str, body_depth: u32) -> ast::FunctionDefinition {
        let nparams = self.rng.below(4);
        let params = (0..nparams)
            .map(|i| ast::FunctionParam {
                param_type: self.ty(2),
                declarator: self.declarator(["p0", "p1", "p2"][i]),
                location_annotations: self.annotations(5),
                default_expr: if self.rng.chance(1, 6) { Some(self.noseq_expr()) } else { None },
            })
            .collect();
        let template_params = self.template_params();
        ast::FunctionDefinition {
            name: lname(name),
            returntype: ast::FunctionReturn {
                return_type: self.ty(2),
                location_annotations: self.annotations(6),
            },
            // the parser reads `template<..>` before attributes and the printer writes attributes first: the
            // combination is probed by its own directed case, not mixed into every random function
            attributes: if template_params.0.is_empty() { self.attributes(false, 4) } else { Vec::new() },
            template_params,
            params,
            is_const: false,
            is_volatile: false,
            body: if self.rng.chance(1, 8) { None } else { Some((0..self.rng.below(4)).map(|_| self.statement(body_depth)).collect()) },
        }
    }

    pub fn root_definition(&mut self, depth: u32) -> ast::RootDefinition {
        match self.rng.below(if depth == 0 { 8 } else { 9 }) {
            0 | 1 => ast::RootDefinition::GlobalVariable(ast::GlobalVariable {
                global_type: self.ty(2),
                defs: self.init_declarators(3),
                attributes: self.attributes(false, 5),
            }),
            2 => {
                let n = self.rng.below(4);
                let mut members = Vec::new();
                for i in 0..n {
                    if self.rng.chance(1, 4) {
                        members.push(ast::StructEntry::Method(self.function_def(["method", "get", "set_1", "op"][i], 1)));
                    } else {
                        members.push(ast::StructEntry::Variable(ast::StructMember {
                            ty: self.ty(2),
                            defs: self.init_declarators(4),
                            attributes: self.attributes(false, 6),
                        }));
                    }
                }
                ast::RootDefinition::Struct(ast::StructDefinition {
                    name: lname(*self.rng.pick(&["S1", "T0", "Data"])),
                    base_types: Vec::new(),
                    template_params: self.template_params(),
                    members,
                })
            }
            3 => {
                let n = self.rng.below(4);
                ast::RootDefinition::Enum(ast::EnumDefinition {
                    name: lname("E0"),
                    values: (0..n)
                        .map(|i| ast::EnumValue {
                            name: lname(["A", "B", "C"][i]),
                            value: if self.rng.chance(1, 2) { Some(loc(self.noseq_expr())) } else { None },
                        })
                        .collect(),
                })
            }
            4 => {
                let n = self.rng.below(4);
                ast::RootDefinition::ConstantBuffer(ast::ConstantBuffer {
                    name: lname("CB0"),
                    location_annotations: self.annotations(2),
                    members: (0..n)
                        .map(|_| ast::ConstantVariable {
                            ty: self.ty(2),
                            defs: self.init_declarators(8),
                        })
                        .collect(),
                    attributes: self.attributes(false, 5),
                })
            }
            5..=7 => ast::RootDefinition::Function({ let name = *self.rng.pick(&["f", "main", "CSMain", "helper_2"]); self.function_def(name, 2) }),
            _ => {
                let n = self.rng.below(3);
                ast::RootDefinition::Namespace(lname(*self.rng.pick(&["ns", "detail", ""])), (0..n).map(|_| self.root_definition(depth - 1)).collect())
            }
        }
    }
}

// ------------------------------------------------------------------------------------------------
// Verdicts
// ------------------------------------------------------------------------------------------------

pub struct Meta<'a> {
    pub stream: &'a str,
    pub seed: u64,
    pub index: u64,
    pub desc: String,
}

impl Meta<'_> {
    fn json(&self) -> Json {
        Json::obj().set("source", "generated").set("stream", self.stream).set("seed", Json::str(self.seed.to_string())).set("index", self.index).set("shape", self.desc.as_str())
    }
}

fn sx_hash(sx: &Sx, target: Ft) -> u64 {
    hash_str(&sx.to_text(usize::MAX)) ^ (target as u64).wrapping_mul(0x9E37_79B9_7F4A_7C15)
}

fn observe_same(orig: &Sx, resolved: u32, target: Ft, histogram: bool, report: &mut Report) {
    report.distinct(sx_hash(orig, target));
    report.count("roundtrip:same");
    if resolved > 0 {
        report.count("roundtrip:same-after-resolving-ambiguous-reading");
    }
    if histogram {
        orig.visit(&mut |n| {
            if !n.kind.contains('[') || n.kind.starts_with("Attribute") {
                report.count(&format!("node:{}", n.kind));
            }
        });
        report.max("max:tree_depth", orig.depth() as u64);
        report.max("max:tree_nodes", orig.node_count() as u64);
    }
}

const TEMPLATE_CALL_FAMILY: &str = "LessThan..GreaterThan(parenthesised operand) read as template call";

/// `x < y > (z)`: a `<` ... `> (` sequence on one line, which the parser prefers to read as the template call `x<y>(z)`
fn looks_like_template_call(printed: &str) -> bool {
    printed.lines().any(|l| match l.find("> (") {
        Some(i) => l[..i].contains(" < "),
        None => false,
    })
}

fn parse_panic_key(c: &Caught) -> String {
    match c.budget_site {
        Some(site) => format!("skipped:reparse-step-budget-exceeded(C08):site{}", site),
        None => format!("skipped:reparse-panic(C08):{}", c.signature()),
    }
}

fn failure_json(rt: &Rt) -> Json {
    match rt {
        Rt::ParseDiag { text, diag } => Json::obj().set("class", "reparse-error").set("printed", text.as_str()).set("diagnostic", diag.as_str()),
        Rt::Diff { text, diff } => Json::obj()
            .set("class", "tree-diff")
            .set("printed", text.as_str())
            .set("first_difference_path", diff.path.as_str())
            .set("original_node", diff.left.as_str())
            .set("reread_node", diff.right.as_str()),
        Rt::FormatPanic(c) => Json::obj().set("class", "format-panic").set("location", c.location.as_str()).set("message", c.message.as_str()),
        _ => Json::obj().set("class", rt.class()),
    }
}

/// One expression in one context, printed for every target
pub fn check_expr(e: &ast::Expression, context: &str, meta: &Meta, histogram: bool, report: &mut Report) {
    let mut probe = Conv::new();
    let esx = probe.expr(e);
    for target in [Ft::Hlsl, Ft::Rssl, Ft::Msl] {
        if target == Ft::Msl && has_msl_only_spelling(&esx) {
            report.count("skipped:msl-target-spells-literal-as-identifier");
            continue;
        }
        let module = wrap(e, context);
        let rt = round_trip(&module, target);
        report.evaluations += 1;
        report.count(&format!("context:{}", context));
        match &rt {
            Rt::Same { orig, resolved, text } => {
                observe_same(orig, *resolved, target, histogram && target == Ft::Hlsl, report);
                if report.want_sample() && meta.index % 997 == 3 {
                    report.sample(meta.json().set("target", target.name()).set("context", context).set("original_tree", esx.to_text(200)).set("printed", text.as_str()).set("verdict", "same tree"));
                }
            }
            Rt::FormatErr(err) => report.count(&format!("skipped:format-error:{}", err)),
            Rt::ParsePanic { caught, .. } => report.count(&parse_panic_key(caught)),
            Rt::FormatPanic(c) => {
                let sig = format!("format-panic:{}", c.signature());
                let mut lossy = false;
                report.violation(
                    &sig,
                    &format!("formatter panicked on a tree inside the property: {} at {}", c.message, c.location),
                    meta.json().set("target", target.name()).set("context", context).set("expr", cmp::expr_to_json(e, &mut lossy)).set("failure", failure_json(&rt)),
                );
            }
            Rt::ParseDiag { .. } | Rt::Diff { .. } => {
                let class = rt.class();
                let minimal = minimise(e, context, target, class, &mut report.evaluations);
                let mrt = round_trip(&wrap(&minimal, context), target);
                // the context is part of the signature only when the expression reads back fine in a plain `return`
                let ctx_tag = if context == "return" {
                    String::new()
                } else {
                    report.evaluations += 1;
                    if round_trip(&wrap(&minimal, "return"), target).is_failure() {
                        String::new()
                    } else {
                        format!("@{}", context)
                    }
                };
                let mut skeleton = expr_skeleton(&minimal);
                if skeleton.len() > 120 {
                    skeleton.truncate(120);
                }
                // `x < y > (z)`: the parser prefers the template call reading `x<y>(z)`; one signature for the family
                let mprinted = match &mrt {
                    Rt::ParseDiag { text, .. } | Rt::Diff { text, .. } => text.as_str(),
                    _ => "",
                };
                if skeleton.contains("Bin:LessThan") && skeleton.contains("Bin:GreaterThan") && looks_like_template_call(mprinted) {
                    skeleton = TEMPLATE_CALL_FAMILY.to_string();
                }
                let sig = format!("mismatch:expr:{}{}", skeleton, ctx_tag);
                let mut lossy = false;
                let ej = cmp::expr_to_json(e, &mut lossy);
                let mut mlossy = false;
                let mj = cmp::expr_to_json(&minimal, &mut mlossy);
                let mut c = Conv::new();
                let msx = c.expr(&minimal);
                let printed = match &mrt {
                    Rt::ParseDiag { text, .. } | Rt::Diff { text, .. } | Rt::Same { text, .. } => text.clone(),
                    _ => String::new(),
                };
                let summary = format!(
                    "{} [{}]: tree {} printed as `{}` {}",
                    class,
                    target.name(),
                    msx.to_text(30),
                    printed.lines().map(|l| l.trim()).filter(|l| !l.is_empty() && *l != "void f() {" && *l != "}").collect::<Vec<_>>().join(" "),
                    match &mrt {
                        Rt::Diff { diff, .. } => format!("reads back with {} where the original has {}", diff.right, diff.left),
                        Rt::ParseDiag { diag, .. } => format!("does not parse: {}", normalise_diag(diag)),
                        _ => String::new(),
                    }
                );
                let mut w = meta.json().set("target", target.name()).set("context", context).set("failure", failure_json(&rt)).set("minimal_failure", failure_json(&mrt)).set("minimal_tree", msx.to_text(200));
                if !lossy {
                    w.put("expr", ej);
                }
                if !mlossy {
                    w.put("minimal", mj);
                }
                report.violation(&sig, &summary, w);
            }
        }
    }
}

/// A whole module (statements / declarations / corpus trees): no minimisation, the signature names the first differing node
pub fn check_module(module: &ast::Module, targets: &[Ft], origin: &str, witness: &Json, histogram: bool, report: &mut Report) {
    for &target in targets {
        if target == Ft::Msl {
            let mut c = Conv::new();
            if has_msl_only_spelling(&c.module(module)) {
                report.count("skipped:msl-target-spells-literal-as-identifier");
                continue;
            }
        }
        let rt = round_trip(module, target);
        report.evaluations += 1;
        verdict_module(&rt, target, origin, witness, histogram && target == targets[0], report);
    }
}

fn strip_count(kind: &str) -> String {
    // "bases[2]" -> "bases[n]"
    match kind.find('[') {
        Some(i) if kind.ends_with(']') && kind[i + 1..kind.len() - 1].chars().all(|c| c.is_ascii_digit()) && i + 2 < kind.len() => format!("{}[n]", &kind[..i]),
        _ => kind.to_string(),
    }
}

fn last_segment(path: &str) -> String {
    // "Kind:field#i" of the parent, without the index
    let seg = path.rsplit('/').next().unwrap_or("");
    let seg = seg.split('#').next().unwrap_or("");
    match seg.rsplit_once(':') {
        Some((kind, field)) => format!("{}:{}", strip_count(kind), field),
        None => seg.to_string(),
    }
}

pub fn verdict_module(rt: &Rt, target: Ft, origin: &str, witness: &Json, histogram: bool, report: &mut Report) {
    match rt {
        Rt::Same { orig, resolved, text } => {
            observe_same(orig, *resolved, target, histogram, report);
            if report.want_sample() && (text.len() % 13 == 5) {
                let mut t = text.clone();
                t.truncate(1500);
                report.sample(witness.clone().set("target", target.name()).set("original_tree", orig.to_text(150)).set("printed", t).set("verdict", "same tree"));
            }
        }
        Rt::FormatErr(err) => report.count(&format!("skipped:format-error:{}", err)),
        Rt::ParsePanic { caught, .. } => report.count(&parse_panic_key(caught)),
        Rt::FormatPanic(c) => {
            report.violation(
                &format!("format-panic:{}:{}", origin, c.signature()),
                &format!("formatter panicked on a tree inside the property: {} at {}", c.message, c.location),
                witness.clone().set("target", target.name()).set("failure", failure_json(rt)),
            );
        }
        Rt::ParseDiag { text, diag } => {
            let line = failing_line(text, diag);
            let reason = if looks_like_template_call(&line) { TEMPLATE_CALL_FAMILY.to_string() } else { normalise_diag(diag) };
            report.violation(
                &(if reason == TEMPLATE_CALL_FAMILY { format!("mismatch:expr:{}", TEMPLATE_CALL_FAMILY) } else { format!("reparse-error:{}:{}", origin, reason) }),
                &format!("[{}] printed text does not parse: {} | near `{}`", target.name(), normalise_diag(diag), line.chars().take(160).collect::<String>()),
                witness.clone().set("target", target.name()).set("failure", failure_json(rt)),
            );
        }
        Rt::Diff { diff, .. } => {
            let family = diff.right.contains("Call") && diff.left.contains("Bin:LessThan") && diff.left.contains("Bin:GreaterThan") && diff.left_kind != "Call";
            let sig = if family {
                format!("mismatch:expr:{}", TEMPLATE_CALL_FAMILY)
            } else {
                format!("tree-diff:{}:{}->{}@{}", origin, strip_count(&diff.left_kind), strip_count(&diff.right_kind), last_segment(&diff.path))
            };
            report.violation(
                &sig,
                &format!("[{}] re-read tree differs at {}: original {} | re-read {}", target.name(), diff.path, diff.left, diff.right),
                witness.clone().set("target", target.name()).set("failure", failure_json(rt)),
            );
        }
    }
}

/// The source line a diagnostic points at (diagnostics print `file(line)` or `file:line`)
fn failing_line(text: &str, diag: &str) -> String {
    let first = diag.lines().next().unwrap_or("");
    let digits: String = first.chars().skip_while(|c| !c.is_ascii_digit()).take_while(|c| c.is_ascii_digit()).collect();
    if let Ok(n) = digits.parse::<usize>() {
        if let Some(l) = text.lines().nth(n.saturating_sub(1)) {
            return l.trim().to_string();
        }
    }
    String::new()
}

// ------------------------------------------------------------------------------------------------
// Part 3: streams, sources (b) and (c), run, replay
// ------------------------------------------------------------------------------------------------

const LITERAL_SHAPES: usize = 8;

fn literal_case(index: u64) -> Option<(ast::Expression, &'static str, String)> {
    use ast::Expression as E;
    let pool = literal_pool(true);
    let li = (index as usize) / LITERAL_SHAPES;
    if li >= pool.len() {
        return None;
    }
    let l = E::Literal(pool[li].clone());
    let (e, ctx, shape): (ast::Expression, &'static str, &str) = match (index as usize) % LITERAL_SHAPES {
        0 => (l, "return", "alone"),
        1 => (l, "init", "alone"),
        2 => (E::UnaryOperation(ast::UnaryOp::Minus, bloc(l)), "return", "negated"),
        3 => (E::BinaryOperation(ast::BinOp::Subtract, bloc(l.clone()), bloc(l)), "global", "a-a"),
        4 => (E::Call(bloc(id("f")), Vec::new(), vec![loc(l.clone()), loc(l)]), "exprstmt", "arguments"),
        5 => (E::ArraySubscript(bloc(id("a")), bloc(l)), "return", "index"),
        6 => (E::Cast(Box::new(ast::TypeId::from(simple_type("float"))), bloc(l)), "return", "cast"),
        _ => (l, "templatearg", "template argument"),
    };
    let mut c = Conv::new();
    let kind = c.expr(&E::Literal(pool[li].clone()));
    Some((e, ctx, format!("{}={} {}", kind.kind, kind.val, shape)))
}

/// Directed shapes next to the enumerations: combinations the random streams reach rarely
fn directed_case(index: u64) -> Option<(ast::Module, String)> {
    use ast::Expression as E;
    let ret = |e: ast::Expression| wrap(&e, "return");
    let m = match index {
        // relational chain followed by a parenthesised operand
        0 => (ret(E::BinaryOperation(ast::BinOp::GreaterThan, bloc(E::BinaryOperation(ast::BinOp::LessThan, bloc(id("a")), bloc(id("b")))), bloc(E::BinaryOperation(ast::BinOp::Add, bloc(id("c")), bloc(int_lit(1)))))), "a < b > (c + 1)"),
        // member access on literals
        1 => (ret(E::Member(bloc(int_lit(1)), ident("xxx"))), "1.xxx"),
        2 => (ret(E::Member(bloc(E::Literal(ast::Literal::FloatUntyped(0.5))), ident("xxxx"))), "0.5.xxxx"),
        3 => (ret(E::Member(bloc(E::Literal(ast::Literal::Float32(2.0))), ident("xx"))), "2.0f.xx"),
        // nested template closing brackets
        4 => {
            let inner = ast::Type {
                layout: ast::TypeLayout(ident("Texture2D"), vec![ast::ExpressionOrType::Type(ast::TypeId::from(simple_type("float4")))].into_boxed_slice()),
                modifiers: ast::TypeModifierSet::new(),
                location: SourceLocation::UNKNOWN,
            };
            let outer = ast::Type {
                layout: ast::TypeLayout(ident("Tpl"), vec![ast::ExpressionOrType::Type(ast::TypeId::from(inner))].into_boxed_slice()),
                modifiers: ast::TypeModifierSet::new(),
                location: SourceLocation::UNKNOWN,
            };
            (
                body_module(vec![st(ast::StatementKind::Var(ast::VarDef {
                    local_type: outer.clone(),
                    defs: vec![one_declarator("v", Some(ast::Initializer::Expression(loc(E::Cast(Box::new(ast::TypeId::from(outer)), bloc(id("x")))))))],
                }))]),
                "Tpl<Texture2D<float4>> v = (Tpl<Texture2D<float4>>)x",
            )
        }
        // shifts next to template brackets
        5 => (ret(E::Call(bloc(id("f")), vec![ast::ExpressionOrType::Expression(loc(E::BinaryOperation(ast::BinOp::LeftShift, bloc(int_lit(1)), bloc(int_lit(2)))))], vec![loc(id("x"))])), "f<1 << 2>(x)"),
        // if / else chains the parser produces
        6 => {
            let leaf = |n: &str| Box::new(st(ast::StatementKind::Expression(id(n))));
            let chain = st(ast::StatementKind::IfElse(
                loc(id("a")),
                leaf("s1"),
                Box::new(st(ast::StatementKind::IfElse(loc(id("b")), leaf("s2"), Box::new(st(ast::StatementKind::If(loc(id("c")), leaf("s3"))))))),
            ));
            let inner_else = st(ast::StatementKind::If(loc(id("a")), Box::new(st(ast::StatementKind::IfElse(loc(id("b")), leaf("s1"), leaf("s2"))))));
            let in_loop = st(ast::StatementKind::While(loc(id("a")), Box::new(st(ast::StatementKind::IfElse(loc(id("b")), leaf("s1"), Box::new(st(ast::StatementKind::If(loc(id("c")), leaf("s2")))))))));
            (body_module(vec![chain, inner_else, in_loop]), "else-if chains")
        }
        // empty function body, empty block, lone semicolons, empty struct / enum / cbuffer / namespace
        7 => (
            module_of(vec![
                ast::RootDefinition::Function(function("f", simple_type("void"), Vec::new(), Some(Vec::new()))),
                ast::RootDefinition::Function(function("g", simple_type("void"), Vec::new(), None)),
                ast::RootDefinition::Struct(ast::StructDefinition {
                    name: lname("S1"),
                    base_types: Vec::new(),
                    template_params: ast::TemplateParamList(Vec::new()),
                    members: Vec::new(),
                }),
                ast::RootDefinition::Enum(ast::EnumDefinition { name: lname("E0"), values: Vec::new() }),
                ast::RootDefinition::ConstantBuffer(ast::ConstantBuffer {
                    name: lname("CB0"),
                    location_annotations: Vec::new(),
                    members: Vec::new(),
                    attributes: Vec::new(),
                }),
                ast::RootDefinition::Namespace(lname("ns"), Vec::new()),
                ast::RootDefinition::Function(function("h", simple_type("void"), Vec::new(), Some(vec![st(ast::StatementKind::Empty), st(ast::StatementKind::Block(Vec::new()))]))),
            ]),
            "empty definitions",
        ),
        _ => return None,
    };
    Some((m.0, m.1.to_string()))
}

/// One generated case of source (a); a pure function of (stream, seed, index)
pub fn generated_case(stream: &str, seed: u64, index: u64, report: &mut Report) {
    let histogram = index % 16 == 0;
    let meta = |desc: String| Meta { stream, seed, index, desc };
    match stream {
        "nest2" => {
            let n = (all_slots().len() * all_forms().len()) as u64;
            let context = if index < n { "return" } else { "init" };
            if let Some((e, desc)) = nest2((index % n) as usize) {
                report.count("shape:operator-pair");
                check_expr(&e, context, &meta(desc), histogram, report);
            }
        }
        "ctxforms" => {
            // every operator form at the top of every context
            let forms = all_forms();
            let ci = (index as usize) / forms.len();
            let context = if ci < CONTEXTS.len() { CONTEXTS[ci] } else { CTX_TEMPLATE_ARG };
            let form = &forms[(index as usize) % forms.len()];
            report.count("shape:operator-in-context");
            check_expr(&form.build(usize::MAX, None, 0), context, &meta(format!("{} in {}", form.name(), context)), histogram, report);
        }
        "chain3" => {
            if let Some((e, desc)) = chain3(index as usize) {
                report.count("shape:chain-depth-3");
                check_expr(&e, "return", &meta(desc), histogram, report);
            }
        }
        "nest3" => {
            let slots = all_slots();
            let forms = all_forms();
            let (e, desc) = nest3(index as usize, &slots, &forms);
            report.count("shape:operator-triple");
            check_expr(&e, "return", &meta(desc), histogram, report);
        }
        "literal" => {
            if let Some((e, ctx, desc)) = literal_case(index) {
                report.count("shape:literal-sweep");
                check_expr(&e, ctx, &meta(desc), histogram, report);
            }
        }
        "random" => {
            let mut rng = Rng::for_case(seed, 0xA1, index);
            let depth = 1 + (index % 6) as u32;
            let context = if rng.chance(2, 5) {
                "return"
            } else if rng.chance(1, 12) {
                CTX_TEMPLATE_ARG
            } else {
                CONTEXTS[rng.below(CONTEXTS.len())]
            };
            let allow_inf = true;
            let mut g = Gen {
                rng: &mut rng,
                avoid: Some(AVOID_KNOWN),
                allow_inf,
            };
            let mut e = g.expr(depth);
            // the parser tries 2^k readings for k cast-like prefixes (C08's bound): keep k small
            while count_casts(&e) > 5 || (context == CTX_TEMPLATE_ARG && is_loose(&e)) {
                e = g.expr(depth);
            }
            if context != "return" && context != "exprstmt" && !context.starts_with("for-") && !matches!(context, "if" | "while" | "dowhile" | "switch" | "case") {
                // positions that end at a comma: a top level sequence is a different construct there (see note in RULE)
                while matches!(&e, ast::Expression::BinaryOperation(ast::BinOp::Sequence, _, _)) || count_casts(&e) > 5 || (context == CTX_TEMPLATE_ARG && is_loose(&e)) {
                    e = g.expr(depth);
                }
            }
            report.count(&format!("shape:random-depth-{}", depth));
            check_expr(&e, context, &meta(format!("random depth {}", depth)), histogram, report);
        }
        "stmt" => {
            let mut rng = Rng::for_case(seed, 0xA2, index);
            let mut g = Gen {
                rng: &mut rng,
                avoid: Some(AVOID_KNOWN),
                allow_inf: false,
            };
            let n = 1 + g.rng.below(4);
            let body: Vec<ast::Statement> = (0..n).map(|_| g.statement(3)).collect();
            let module = body_module(body);
            report.count("shape:random-statements");
            check_module(&module, &[Ft::Hlsl, Ft::Rssl, Ft::Msl], "stmt", &meta("random statements".into()).json(), histogram, report);
        }
        "decl" => {
            let mut rng = Rng::for_case(seed, 0xA3, index);
            let mut g = Gen {
                rng: &mut rng,
                avoid: Some(AVOID_KNOWN),
                allow_inf: false,
            };
            let n = 1 + g.rng.below(3);
            let module = module_of((0..n).map(|_| g.root_definition(2)).collect());
            report.count("shape:random-declarations");
            check_module(&module, &[Ft::Hlsl, Ft::Rssl, Ft::Msl], "decl", &meta("random declarations".into()).json(), histogram, report);
        }
        "directed" => {
            if let Some((module, desc)) = directed_case(index) {
                report.count("shape:directed");
                check_module(&module, &[Ft::Hlsl, Ft::Rssl, Ft::Msl], &format!("directed-{}", index), &meta(desc).json(), true, report);
            }
        }
        _ => {}
    }
}

// ---- sources (b) and (c) ------------------------------------------------------------------------

pub struct Inputs {
    pub snippets: Vec<String>,
    pub sets: Vec<corpus::CorpusSet>,
    /// (set index, entry name)
    pub entries: Vec<(usize, String)>,
}

impl Inputs {
    pub fn load() -> Inputs {
        let sets = corpus::load();
        let mut entries = Vec::new();
        for (i, s) in sets.iter().enumerate() {
            for e in &s.entries {
                entries.push((i, e.clone()));
            }
        }
        Inputs {
            snippets: corpus::test_snippets(),
            sets,
            entries,
        }
    }
    fn count(&self) -> usize {
        self.snippets.len() + self.entries.len()
    }
    /// (files, entry, defines, witness json identifying the input)
    fn get(&self, i: usize) -> (Files, String, Vec<(String, String)>, Json) {
        if i < self.snippets.len() {
            let text = &self.snippets[i];
            (Files::single("main.rssl", text), "main.rssl".to_string(), Vec::new(), Json::obj().set("input", "unit-test snippet").set("text", text.as_str()))
        } else {
            let (si, entry) = &self.entries[i - self.snippets.len()];
            let set = &self.sets[*si];
            (set.files.clone(), entry.clone(), set.defines.clone(), Json::obj().set("input", "corpus").set("corpus_set", set.name.as_str()).set("entry", entry.as_str()))
        }
    }
    fn find(&self, w: &Json) -> Option<(Files, String, Vec<(String, String)>, Json)> {
        if let Some(text) = w.get_str("text") {
            return Some((Files::single("main.rssl", text), "main.rssl".to_string(), Vec::new(), Json::obj().set("input", "unit-test snippet").set("text", text)));
        }
        let set = w.get_str("corpus_set")?;
        let entry = w.get_str("entry")?;
        let s = self.sets.iter().find(|s| s.name == set)?;
        Some((s.files.clone(), entry.to_string(), s.defines.clone(), Json::obj().set("input", "corpus").set("corpus_set", set).set("entry", entry)))
    }
}

/// (b): the tree the HLSL exporter built and printed must be what the parser reads from the emitted text
pub fn exporter_case(files: &Files, entry: &str, defines: &[(String, String)], tgt: Tgt, witness: &Json, report: &mut Report) {
    let mut opts = Opts::new(tgt, Mode::NoPipeline);
    opts.defines = defines.to_vec();
    let outcome = rs::compile(files, entry, &opts);
    let witness = witness.clone().set("source", "exporter").set("compile_target", tgt.name());
    match &outcome {
        Outcome::Ok(pipes) => {
            for p in pipes {
                let Some(tree) = &p.tree else {
                    report.count("skipped:exporter:no-recorded-tree");
                    continue;
                };
                // the recorded tree must be the tree that was printed (assumption)
                match par::guard(|| rssl_formatter::format(tree, FTarget::Hlsl)) {
                    Ok(Ok(t)) if t == p.source => {}
                    _ => {
                        report.count("skipped:exporter:recorded-tree-does-not-print-to-the-returned-source");
                        continue;
                    }
                }
                let rt = compare_with_text(tree, p.source.clone(), true, report);
                report.evaluations += 1;
                report.count(&format!("exporter:{}", tgt.name()));
                verdict_module(&rt, Ft::Hlsl, "exporter", &witness, true, report);
            }
        }
        other => report.count(&format!("skipped:exporter:compile-{}", other.class())),
    }
}

fn parse_files(files: &Files, entry: &str, defines: &[(String, String)]) -> Front<ast::Module> {
    let r = par::guard(|| {
        use rssl::text::CompileErrorExt;
        let mut sm = rssl::text::SourceManager::new();
        let mut handler = rs::FilesHandler::new(files);
        let mut all: Vec<(&str, &str)> = vec![("__HLSL_VERSION", "2021"), ("RSSL_TARGET_HLSL", "1"), ("RSSL_TARGET_MSL", "0")];
        all.extend(defines.iter().map(|(a, b)| (a.as_str(), b.as_str())));
        let tokens = match rssl::preprocess::preprocess(entry, &mut sm, &mut handler, &all) {
            Ok(t) => t,
            Err(e) => return Err(format!("{}", e.display(&sm))),
        };
        let tokens = rssl::preprocess::prepare_tokens(&tokens);
        match rssl::parser::parse(&tokens) {
            Ok(m) => Ok(m),
            Err(e) => Err(format!("{}", e.display(&sm))),
        }
    });
    match r {
        Ok(Ok(m)) => Front::Ok(m),
        Ok(Err(d)) => Front::Diag(d),
        Err(c) => Front::Panic(c),
    }
}

fn parser_definition(def: &ast::RootDefinition, path: &str, witness: &Json, report: &mut Report) {
    let mut c = Conv::new();
    let _ = c.root(def);
    if c.ambiguous > 0 || !c.unsupported.is_empty() {
        if let ast::RootDefinition::Namespace(_, defs) = def {
            // look inside: the members that are printable are still checked
            for (i, d) in defs.iter().enumerate() {
                parser_definition(d, &format!("{}.{}", path, i), witness, report);
            }
            return;
        }
        if c.ambiguous > 0 {
            report.count("skipped:parser-tree:has-ambiguous-node");
        } else {
            report.count(&format!("skipped:parser-tree:excluded-node:{}", c.unsupported[0]));
        }
        return;
    }
    let module = module_of(vec![def.clone()]);
    report.count("parser-tree:definitions-checked");
    check_module(&module, &[Ft::Hlsl, Ft::Rssl], "parser", &witness.clone().set("source", "parser").set("definition", path), true, report);
}

/// (c): every printable root definition the parser produced
pub fn parser_case(files: &Files, entry: &str, defines: &[(String, String)], witness: &Json, report: &mut Report) {
    match parse_files(files, entry, defines) {
        Front::Ok(module) => {
            report.count("parser-tree:inputs-parsed");
            for (i, def) in module.root_definitions.iter().enumerate() {
                parser_definition(def, &i.to_string(), witness, report);
            }
        }
        Front::Diag(_) => report.count("skipped:parser-tree:input-does-not-parse"),
        Front::Panic(c) => report.count(&format!("skipped:parser-tree:panic(C08):{}", c.signature())),
    }
}

// ---- plan ---------------------------------------------------------------------------------------

struct Plan {
    /// (stream, count)
    streams: Vec<(&'static str, u64)>,
}

impl Plan {
    fn new(tier: Tier, corpus_inputs: u64) -> Plan {
        let n2 = (all_slots().len() * all_forms().len()) as u64;
        let c3 = {
            let n = chain_forms().len() as u64;
            n * n * n
        };
        let n3 = nest3_count() as u64;
        Plan {
            streams: vec![
                ("exporter", corpus_inputs * 2),
                ("parser", corpus_inputs),
                ("directed", 8),
                ("literal", (literal_pool(true).len() * LITERAL_SHAPES) as u64),
                ("ctxforms", ((CONTEXTS.len() + 1) * all_forms().len()) as u64),
                ("nest2", n2 * 2),
                ("chain3", c3),
                ("nest3", tier.pick(30_000, n3)),
                ("stmt", tier.pick(8_000, 80_000)),
                ("decl", tier.pick(8_000, 80_000)),
                ("random", tier.pick(60_000, 900_000)),
            ],
        }
    }
    fn total(&self) -> u64 {
        self.streams.iter().map(|s| s.1).sum()
    }
    fn locate(&self, mut index: u64) -> (&'static str, u64) {
        for (name, n) in &self.streams {
            if index < *n {
                return (name, index);
            }
            index -= n;
        }
        ("none", 0)
    }
}

fn run(ctx: &Ctx) -> Report {
    let inputs = Inputs::load();
    let plan = Plan::new(ctx.tier, inputs.count() as u64);
    let n3 = nest3_count() as u64;
    let mut report = par::run_cases(ctx, plan.total(), |index, report| {
        let (stream, i) = plan.locate(index);
        let started = std::time::Instant::now();
        match stream {
            "exporter" => {
                let (files, entry, defines, w) = inputs.get((i / 2) as usize);
                let tgt = if i % 2 == 0 { Tgt::Dx } else { Tgt::Vk };
                exporter_case(&files, &entry, &defines, tgt, &w, report);
            }
            "parser" => {
                let (files, entry, defines, w) = inputs.get(i as usize);
                parser_case(&files, &entry, &defines, &w, report);
            }
            "nest3" => {
                // quick: a seed dependent sample of the enumeration (stride coprime with its size); thorough: all of it
                let pos = if ctx.tier == Tier::Thorough { i } else { (i.wrapping_mul(1_000_003).wrapping_add(ctx.seed % n3)) % n3 };
                generated_case("nest3", ctx.seed, pos, report);
            }
            s => generated_case(s, ctx.seed, i, report),
        }
        let took = started.elapsed().as_secs_f64();
        if took > 2.0 {
            // not a verdict: only tells the reader where the time went
            report.notes.push(format!("slow case: stream {} index {} took {:.1}s", stream, i, took));
        }
    });
    let run = report.counters.get("cases_run").copied().unwrap_or(0);
    if run >= plan.total() {
        // operator pairs, chains (and in thorough the triples) were enumerated completely
        report.exhaustive = Some(true);
        report.notes.push(format!(
            "enumerated completely: {} (outer slot, inner operator) pairs x 2 contexts, {} unary/cast/postfix chains of depth 3{}",
            all_slots().len() * all_forms().len(),
            chain_forms().len().pow(3),
            if ctx.tier == Tier::Thorough { format!(", all {} depth-3 nestings", n3) } else { format!(", sample of 30000 of the {} depth-3 nestings", n3) }
        ));
    }
    if inputs.snippets.len() < 200 || inputs.entries.is_empty() {
        report.inconclusive("the repository corpus (unit-test snippets / tests entries) was not found");
    }
    report
}

fn replay(_ctx: &Ctx, w: &Json) -> Report {
    let mut report = Report::new();
    let source = w.get_str("source").unwrap_or("");
    let seed: u64 = w.get_str("seed").and_then(|s| s.parse().ok()).unwrap_or(0);
    let index = w.get("index").and_then(|i| i.as_i64()).unwrap_or(0) as u64;
    let stream = w.get_str("stream").unwrap_or("").to_string();
    match source {
        "generated" => {
            let context = w.get_str("context").unwrap_or("return").to_string();
            let stored = w.get("minimal").or_else(|| w.get("expr")).and_then(cmp::expr_from_json);
            if let Some(e) = stored {
                let meta = Meta {
                    stream: &stream,
                    seed,
                    index,
                    desc: w.get_str("shape").unwrap_or("").to_string(),
                };
                check_expr(&e, &context, &meta, false, &mut report);
            } else {
                generated_case(&stream, seed, index, &mut report);
            }
        }
        "exporter" | "parser" => {
            let inputs = Inputs::load();
            match inputs.find(w) {
                Some((files, entry, defines, base)) => {
                    if source == "exporter" {
                        exporter_case(&files, &entry, &defines, Tgt::from_name(w.get_str("compile_target").unwrap_or("")), &base, &mut report);
                    } else {
                        parser_case(&files, &entry, &defines, &base, &mut report);
                    }
                }
                None => report.inconclusive("witness input not found"),
            }
        }
        _ => report.inconclusive("witness has no known source"),
    }
    report
}
