//! C19 - not built yet
