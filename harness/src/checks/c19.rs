//! C19 - layout-consistency validation is sound.
//!
//! Reference-model monitor. Every case is a small program that uses generated struct types as element
//! types of `StructuredBuffer<S>` / `RWStructuredBuffer<S>` or in `Load<S>` / `Store` of byte address
//! buffers and buffer addresses. The real `rssl::compile` runs with `validate_layout_consistency(true)`
//! and the monitor compares its verdict with `oracle::c19_reflayout` (HLSL structured-buffer packing
//! and Metal struct layout, written from the language rules):
//!
//! * compile succeeds but the two reference layouts of a used struct differ in total size or in the
//!   offset of any leaf field                                   -> `accepted-inconsistent-layout:<cause>`
//! * compile rejects with the layout diagnostic and the sizes in the message are not the reference's
//!   sizes of the struct the message points at                          -> `wrong-reported-size:<cause>`
//!
//! `<cause>` attributes an established violation to a rule the checker is known to get wrong (see
//! `cause_of_*`); anything that is not explained by one of those is `...:unexplained`. The verdict
//! itself never depends on the attribution.

use crate::json::Json;
// The reference model lives in src/oracle/c19_reflayout.rs; it is included here by path so that the check does not
// depend on a line in src/oracle/mod.rs.
#[path = "../oracle/c19_reflayout.rs"]
mod reflayout;
use reflayout::{compare, layout_of, Base, Decls, Lay, Member, Relax, Rules, Scalar, StructDef, Truth, EXACT, SCALARS};
use crate::report::{Ctx, Report, Tier};
use crate::rng::{hash_str, Rng};
use crate::rs::{self, Mode, Opts, Outcome, Tgt};
use crate::CheckDef;

pub fn def() -> CheckDef {
    CheckDef {
        id: "C19",
        salt: 0xC19,
        rule: "family 'flat': every struct with 1..3 members over {half,int,uint,float,double} x {scalar,2,3,4-vector} (8420 structs; thorough: all of \
               them with each of the 8 uses; quick: the slice struct_index % 10 == seed % 10, one use each). family 'random': structs to nesting \
               depth 3 with 1-6 members over the same 20 types plus enums, nested structs (new or reused) and 1- or 2-dimensional arrays of length \
               1-4, drawn from 6 member-type profiles and steered with the reference (40% unsteered, 30% retried until the two reference layouts \
               agree, 15% until same size but different offsets, 15% until different size); 1 use (85%) or 2 uses (15%, second element type = any \
               generated struct). uses: StructuredBuffer<S>, RWStructuredBuffer<S>, (RW)ByteAddressBuffer.Load<S>, RWByteAddressBuffer.Store, \
               (RW)BufferAddress.Load<S>, RWBufferAddress.Store. Each program is compiled once with validate_layout_consistency(true), \
               no-pipeline mode, target DirectX (random family: 10% each Vulkan / Vulkan+buffer_address / Metal when the struct has no double). \
               evaluations = compile() executions observed; distinct_nontrivial = distinct (struct definitions, uses) by content hash for which \
               the validator gave a verdict (accepted, or rejected with the layout diagnostic) that the monitor compared with the reference",
        assumptions: &[
            "HLSL side: dxc structured-buffer packing with -enable-16bit-types (half = 2 bytes), as the rssl HLSL backend documents",
            "Metal side: the struct is laid out as emitted; the monitor checks on emitted MSL (1 case in 8) that members keep their plain vector types (no packed_*), \
             an unscoped enum is a 4 byte int, and double (absent from Metal) is laid out by the same scalar / power-of-two vector rule",
            "field = leaf scalar / vector / enum member, array elements and nested struct members expanded; a 3-vector's own size (12 vs 16) is not an offset",
            "the diagnostic's location (line) identifies which used struct the reported sizes belong to; reported alignments are recorded but not judged",
        ],
        min_distinct: (15_000, 200_000),
        deadline_s: (45.0, 540.0),
        run,
        replay,
    }
}

// ------------------------------------------------------------------------------------------------
// Cases
// ------------------------------------------------------------------------------------------------

#[derive(Clone, Copy, PartialEq, Eq, Debug)]
pub enum UseKind {
    Structured,
    RwStructured,
    ByteLoad,
    RwByteLoad,
    RwByteStore,
    AddrLoad,
    RwAddrLoad,
    RwAddrStore,
}

const USE_KINDS: [UseKind; 8] = [
    UseKind::Structured,
    UseKind::RwStructured,
    UseKind::ByteLoad,
    UseKind::RwByteLoad,
    UseKind::RwByteStore,
    UseKind::AddrLoad,
    UseKind::RwAddrLoad,
    UseKind::RwAddrStore,
];

impl UseKind {
    fn name(self) -> &'static str {
        match self {
            UseKind::Structured => "StructuredBuffer<S>",
            UseKind::RwStructured => "RWStructuredBuffer<S>",
            UseKind::ByteLoad => "ByteAddressBuffer.Load<S>",
            UseKind::RwByteLoad => "RWByteAddressBuffer.Load<S>",
            UseKind::RwByteStore => "RWByteAddressBuffer.Store(S)",
            UseKind::AddrLoad => "BufferAddress.Load<S>",
            UseKind::RwAddrLoad => "RWBufferAddress.Load<S>",
            UseKind::RwAddrStore => "RWBufferAddress.Store(S)",
        }
    }
    fn from_name(s: &str) -> Option<UseKind> {
        USE_KINDS.iter().copied().find(|k| k.name() == s)
    }
}

#[derive(Clone, Debug)]
pub struct Case {
    pub kind: String,
    pub decls: Decls,
    /// (how, element struct)
    pub uses: Vec<(UseKind, String)>,
    pub target: Tgt,
}

/// The program text, and for every line that a layout diagnostic can point at the struct it stands for
fn render(case: &Case) -> (String, Vec<(u32, String)>) {
    let mut text = String::new();
    let mut lines: Vec<(u32, String)> = Vec::new();
    let mut line = 1u32;
    for e in &case.decls.enums {
        text.push_str(&format!("enum {} {{ {}_A, {}_B, {}_C }};\n", e, e, e, e));
        line += 1;
    }
    for s in &case.decls.structs {
        text.push_str(&format!("struct {} {{", s.name));
        for m in &s.members {
            text.push_str(&format!(" {} {}", m.base.type_name(), m.name));
            for d in &m.dims {
                text.push_str(&format!("[{}]", d));
            }
            text.push(';');
        }
        text.push_str(" };\n");
        // Load<T> / Store diagnostics point at the definition of T
        lines.push((line, s.name.clone()));
        line += 1;
    }
    let mut body = String::new();
    for (i, (kind, root)) in case.uses.iter().enumerate() {
        let g = format!("g_b{}", i);
        // the element type of a structured buffer is sometimes qualified (inline or through a typedef): the same struct, the same
        // layout obligations
        let variant = (hash_str(root) as usize + i + case.decls.structs.len() + case.decls.enums.len()) % 6;
        let mut element = root.clone();
        match (kind, variant) {
            (UseKind::Structured, 2) => element = format!("const {}", root),
            (UseKind::Structured, 3) | (UseKind::RwStructured, 3) => element = format!("volatile {}", root),
            (UseKind::Structured, 4) => {
                text.push_str(&format!("typedef const {} CElem{};\n", root, i));
                line += 1;
                element = format!("CElem{}", i);
            }
            _ => {}
        }
        let (decl, stmt) = match kind {
            UseKind::Structured => (format!("const StructuredBuffer<{}> {} : register(t{});", element, g, i), format!("const {} v{} = {}.Load(0);", root, i, g)),
            UseKind::RwStructured => (format!("const RWStructuredBuffer<{}> {} : register(u{});", element, g, i), format!("{}[1] = {}[0];", g, g)),
            UseKind::ByteLoad => (format!("const ByteAddressBuffer {} : register(t{});", g, i), format!("const {} v{} = {}.Load<{}>(0);", root, i, g, root)),
            UseKind::RwByteLoad => (format!("const RWByteAddressBuffer {} : register(u{});", g, i), format!("const {} v{} = {}.Load<{}>(0);", root, i, g, root)),
            UseKind::RwByteStore => (format!("const RWByteAddressBuffer {} : register(u{});", g, i), format!("{} v{}; {}.Store(0, v{});", root, i, g, i)),
            UseKind::AddrLoad => (format!("const BufferAddress {} : register(t{});", g, i), format!("const {} v{} = {}.Load<{}>(0);", root, i, g, root)),
            UseKind::RwAddrLoad => (format!("const RWBufferAddress {} : register(u{});", g, i), format!("const {} v{} = {}.Load<{}>(0);", root, i, g, root)),
            UseKind::RwAddrStore => (format!("const RWBufferAddress {} : register(u{});", g, i), format!("{} v{}; {}.Store(4, v{});", root, i, g, i)),
        };
        text.push_str(&decl);
        text.push('\n');
        if matches!(kind, UseKind::Structured | UseKind::RwStructured) {
            // structured buffer diagnostics point at the global
            lines.push((line, root.clone()));
        }
        line += 1;
        body.push_str("    ");
        body.push_str(&stmt);
        body.push('\n');
    }
    text.push_str("void test() {\n");
    text.push_str(&body);
    text.push_str("}\n");
    (text, lines)
}

fn member_to_json(m: &Member) -> Json {
    Json::obj()
        .set("name", &m.name)
        .set("type", m.base.type_name())
        .set("dims", Json::Arr(m.dims.iter().map(|d| Json::from(*d)).collect()))
}

fn decls_to_json(d: &Decls) -> Json {
    Json::obj().set("enums", Json::Arr(d.enums.iter().map(Json::str).collect())).set(
        "structs",
        Json::Arr(
            d.structs
                .iter()
                .map(|s| Json::obj().set("name", &s.name).set("members", Json::Arr(s.members.iter().map(member_to_json).collect())))
                .collect(),
        ),
    )
}

fn parse_base(t: &str, enums: &[String]) -> Base {
    if enums.iter().any(|e| e == t) {
        return Base::Enum(t.to_string());
    }
    if let Some(s) = Scalar::from_name(t) {
        return Base::Num(s, 1);
    }
    if let Some(last) = t.chars().last() {
        if let Some(n) = last.to_digit(10) {
            if let Some(s) = Scalar::from_name(&t[..t.len() - 1]) {
                if (2..=4).contains(&n) {
                    return Base::Num(s, n);
                }
            }
        }
    }
    Base::Struct(t.to_string())
}

fn decls_from_json(j: &Json) -> Decls {
    let mut d = Decls::default();
    if let Some(a) = j.get("enums").and_then(|e| e.as_arr()) {
        d.enums = a.iter().filter_map(|e| e.as_str().map(|s| s.to_string())).collect();
    }
    if let Some(a) = j.get("structs").and_then(|e| e.as_arr()) {
        for s in a {
            let mut def = StructDef {
                name: s.get_str("name").unwrap_or("").to_string(),
                members: Vec::new(),
            };
            if let Some(ms) = s.get("members").and_then(|m| m.as_arr()) {
                for m in ms {
                    def.members.push(Member {
                        name: m.get_str("name").unwrap_or("").to_string(),
                        base: parse_base(m.get_str("type").unwrap_or(""), &d.enums),
                        dims: m.get("dims").and_then(|x| x.as_arr()).map(|a| a.iter().filter_map(|v| v.as_i64()).map(|v| v as u32).collect()).unwrap_or_default(),
                    });
                }
            }
            d.structs.push(def);
        }
    }
    d
}

impl Case {
    fn to_json(&self) -> Json {
        Json::obj().set("kind", &self.kind).set("model", decls_to_json(&self.decls)).set(
            "uses",
            Json::Arr(self.uses.iter().map(|(k, r)| Json::obj().set("how", k.name()).set("struct", r)).collect()),
        )
    }
    fn from_json(j: &Json) -> Option<Case> {
        let decls = decls_from_json(j.get("model")?);
        let mut uses = Vec::new();
        for u in j.get("uses")?.as_arr()? {
            uses.push((UseKind::from_name(u.get_str("how")?)?, u.get_str("struct")?.to_string()));
        }
        let target = j.get("opts").and_then(|o| o.get_str("target")).map(Tgt::from_name).unwrap_or(Tgt::Dx);
        Some(Case {
            kind: j.get_str("kind").unwrap_or("replay").to_string(),
            decls,
            uses,
            target,
        })
    }
}

// ------------------------------------------------------------------------------------------------
// Generators
// ------------------------------------------------------------------------------------------------

pub const FLAT_TYPES: u64 = 20;
/// 20 + 20^2 + 20^3
pub const FLAT_STRUCTS: u64 = FLAT_TYPES + FLAT_TYPES * FLAT_TYPES + FLAT_TYPES * FLAT_TYPES * FLAT_TYPES;

fn flat_type(k: u64) -> Base {
    Base::Num(SCALARS[(k / 4) as usize], (k % 4) as u32 + 1)
}

/// The `index`-th struct of the flat family
fn flat_struct(index: u64) -> Decls {
    let (n, mut rest) = if index < FLAT_TYPES {
        (1, index)
    } else if index < FLAT_TYPES + FLAT_TYPES * FLAT_TYPES {
        (2, index - FLAT_TYPES)
    } else {
        (3, index - FLAT_TYPES - FLAT_TYPES * FLAT_TYPES)
    };
    let mut members = Vec::new();
    for i in 0..n {
        members.push(Member {
            name: format!("m{}", i),
            base: flat_type(rest % FLAT_TYPES),
            dims: vec![],
        });
        rest /= FLAT_TYPES;
    }
    Decls {
        enums: vec![],
        structs: vec![StructDef { name: "S".into(), members }],
    }
}

fn flat_case(struct_index: u64, use_index: u64) -> Case {
    Case {
        kind: "flat".into(),
        decls: flat_struct(struct_index),
        uses: vec![(USE_KINDS[(use_index % 8) as usize], "S".into())],
        target: Tgt::Dx,
    }
}

/// Displacement probes: a head whose size differs between the packings (a 3-vector: 12 against 16 bytes for 4 byte scalars),
/// two members of a probe type behind it, and a tail that re-aligns both layouts (8 or 16 byte alignment) - so that only the
/// probe members sit at different offsets while every other field and the total size agree. The probe type runs over the 4 byte
/// scalars, an enum, half / half2, and those again one struct level down and as array elements.
pub const PROBE_CASES: u64 = 3 * 14 * 4;

fn probe_case(index: u64, use_index: u64) -> Case {
    let head = [Scalar::Float, Scalar::Int, Scalar::Uint][(index % 3) as usize];
    let probe = (index / 3) % 14;
    let tail = (index / 42) % 4;
    let mut decls = Decls::default();
    let leaf = |k: u64, decls: &mut Decls| -> Base {
        match k {
            0 => Base::Num(Scalar::Int, 1),
            1 => Base::Num(Scalar::Uint, 1),
            2 => Base::Num(Scalar::Float, 1),
            3 => {
                if decls.enums.is_empty() {
                    decls.enums.push("E0".to_string());
                }
                Base::Enum("E0".to_string())
            }
            4 => Base::Num(Scalar::Half, 2),
            _ => Base::Num(Scalar::Half, 1),
        }
    };
    let mut members = vec![Member { name: "head".into(), base: Base::Num(head, 3), dims: vec![] }];
    if probe < 6 {
        let b = leaf(probe, &mut decls);
        members.push(Member { name: "p0".into(), base: b.clone(), dims: vec![] });
        members.push(Member { name: "p1".into(), base: b, dims: vec![] });
    } else if probe < 10 {
        // one struct level down
        let b = leaf(probe - 6, &mut decls);
        decls.structs.push(StructDef { name: "N".into(), members: vec![Member { name: "x".into(), base: b.clone(), dims: vec![] }, Member { name: "y".into(), base: b, dims: vec![] }] });
        members.push(Member { name: "n".into(), base: Base::Struct("N".into()), dims: vec![] });
    } else {
        // as array elements
        let b = leaf(probe - 10, &mut decls);
        members.push(Member { name: "p".into(), base: b, dims: vec![2] });
    }
    match tail {
        0 => members.push(Member { name: "tail".into(), base: Base::Num(Scalar::Double, 1), dims: vec![] }),
        1 => members.push(Member { name: "tail".into(), base: Base::Num(Scalar::Double, 2), dims: vec![] }),
        2 => members.push(Member { name: "tail".into(), base: Base::Num(Scalar::Float, 4), dims: vec![] }),
        _ => {}
    }
    decls.structs.push(StructDef { name: "S".into(), members });
    Case {
        kind: "displacement-probe".into(),
        decls,
        uses: vec![(USE_KINDS[(use_index % 8) as usize], "S".into())],
        target: Tgt::Dx,
    }
}

struct Gen<'a> {
    rng: &'a mut Rng,
    decls: Decls,
    /// nesting height of each struct in decls.structs (1 = no nested struct)
    heights: Vec<u32>,
    profile: usize,
}

const PROFILES: usize = 6;

impl Gen<'_> {
    fn num(&mut self) -> Base {
        let r = &mut *self.rng;
        match self.profile {
            // every scalar type, every width
            0 => Base::Num(*r.pick(&SCALARS), r.range(1, 4) as u32),
            // no 3-vectors
            1 => Base::Num(*r.pick(&SCALARS), *r.pick(&[1, 1, 2, 4])),
            // 32 bit types, no 3-vectors
            2 => Base::Num(*r.pick(&[Scalar::Int, Scalar::Uint, Scalar::Float]), *r.pick(&[1, 1, 2, 4])),
            // scalars only
            3 => Base::Num(*r.pick(&SCALARS), 1),
            // 16 and 32 bit, all widths
            4 => Base::Num(*r.pick(&[Scalar::Half, Scalar::Half, Scalar::Int, Scalar::Uint, Scalar::Float]), r.range(1, 4) as u32),
            // 32 and 64 bit, scalars and 2-vectors
            _ => Base::Num(*r.pick(&[Scalar::Float, Scalar::Uint, Scalar::Double]), *r.pick(&[1, 1, 2])),
        }
    }

    /// Generate a struct of nesting height <= depth_left + 1 and return its name
    fn gen_struct(&mut self, root: bool, depth_left: u32) -> String {
        let n = *self.rng.pick(&[1usize, 2, 2, 3, 3, 3, 4, 4, 5, 6]);
        let mut members = Vec::new();
        let mut height = 1;
        for i in 0..n {
            let base = if depth_left > 0 && self.rng.chance(1, 4) {
                let reusable: Vec<usize> = (0..self.decls.structs.len()).filter(|k| self.heights[*k] <= depth_left).collect();
                let name = if !reusable.is_empty() && self.rng.chance(1, 3) {
                    let k = *self.rng.pick(&reusable);
                    height = height.max(self.heights[k] + 1);
                    self.decls.structs[k].name.clone()
                } else {
                    let name = self.gen_struct(false, depth_left - 1);
                    height = height.max(self.heights[self.decls.structs.len() - 1] + 1);
                    name
                };
                Base::Struct(name)
            } else if self.rng.chance(1, 12) {
                if self.decls.enums.is_empty() || (self.decls.enums.len() < 2 && self.rng.chance(1, 3)) {
                    let name = format!("E{}", self.decls.enums.len());
                    self.decls.enums.push(name);
                }
                Base::Enum(self.rng.pick(&self.decls.enums).clone())
            } else {
                self.num()
            };
            let mut dims = Vec::new();
            if self.rng.chance(1, 5) {
                dims.push(self.rng.range(1, 4) as u32);
                if self.rng.chance(1, 6) {
                    dims.push(self.rng.range(1, 4) as u32);
                }
            }
            members.push(Member {
                name: format!("m{}", i),
                base,
                dims,
            });
        }
        let name = if root { "S".to_string() } else { format!("N{}", self.decls.structs.len()) };
        self.decls.structs.push(StructDef { name: name.clone(), members });
        self.heights.push(height);
        name
    }
}

fn has_double(d: &Decls) -> bool {
    d.structs.iter().any(|s| s.members.iter().any(|m| matches!(m.base, Base::Num(Scalar::Double, _))))
}

const MAX_LEAVES: usize = 1500;

fn random_case(seed: u64, index: u64) -> Case {
    let mut rng = Rng::for_case(seed, 0x19A, index);
    let steer = match rng.below(20) {
        0..=7 => 0,   // unsteered
        8..=13 => 1,  // want equal layouts
        14..=16 => 2, // want same size, different offsets
        _ => 3,       // want different sizes
    };
    let profile = rng.below(PROFILES);
    let depth_left = *rng.pick(&[0u32, 1, 1, 2, 2]);
    let mut decls = Decls::default();
    for _attempt in 0..16 {
        let mut g = Gen {
            rng: &mut rng,
            decls: Decls::default(),
            heights: Vec::new(),
            profile,
        };
        g.gen_struct(true, depth_left);
        decls = g.decls;
        let (Some(h), Some(m)) = (layout_of(&decls, "S", Rules::Hlsl, EXACT), layout_of(&decls, "S", Rules::Metal, EXACT)) else { continue };
        if h.leaves.len() > MAX_LEAVES {
            continue;
        }
        let t = compare(&h, &m);
        let ok = match steer {
            0 => true,
            1 => t == Truth::Equal,
            2 => matches!(t, Truth::SameSizeOffsetsDiffer(..)),
            _ => matches!(t, Truth::SizeDiffers(..)),
        };
        if ok {
            break;
        }
    }
    let mut uses = vec![(*rng.pick(&USE_KINDS), "S".to_string())];
    if rng.chance(3, 20) {
        let k = rng.below(decls.structs.len());
        uses.push((*rng.pick(&USE_KINDS), decls.structs[k].name.clone()));
        if rng.chance(1, 2) {
            uses.swap(0, 1);
        }
    }
    let mut target = match rng.below(10) {
        0 => Tgt::Vk,
        1 => Tgt::VkBa,
        2 => Tgt::Msl,
        _ => Tgt::Dx,
    };
    if target == Tgt::Msl && has_double(&decls) {
        target = Tgt::Dx;
    }
    Case {
        kind: format!("random:steer{}:profile{}", steer, profile),
        decls,
        uses,
        target,
    }
}

// ------------------------------------------------------------------------------------------------
// Monitor
// ------------------------------------------------------------------------------------------------

/// A rejection by the layout validator. Only the message format is taken from rssl
/// (ir/src/layout_checker.rs): `<file>:<line>:<col>: error: struct has size=X align=A on HLSL but size=Y
/// align=B on Metal`. Any diagnostic whose message starts with "struct " and names both "on HLSL" and
/// "on Metal" is read as a layout rejection; the numbers after `size=` are the reported sizes (HLSL
/// first), those after `align=` the reported alignments.
struct LayoutDiag {
    line: u32,
    sizes: Vec<u32>,
    aligns: Vec<u32>,
}

fn numbers_after(msg: &str, key: &str) -> Vec<u32> {
    let mut out = Vec::new();
    let mut rest = msg;
    while let Some(p) = rest.find(key) {
        rest = &rest[p + key.len()..];
        let digits: String = rest.chars().take_while(|c| c.is_ascii_digit()).collect();
        if let Ok(v) = digits.parse::<u32>() {
            out.push(v);
        }
    }
    out
}

fn parse_layout_diag(d: &str) -> Option<LayoutDiag> {
    let first = d.lines().next()?;
    let pos = first.find("error: struct ")?;
    let msg = &first[pos + "error: ".len()..];
    if !msg.contains("on HLSL") || !msg.contains("on Metal") {
        return None;
    }
    // "<file>:<line>:<col>: "
    let parts: Vec<&str> = first[..pos].split(':').collect();
    let line = if parts.len() >= 3 { parts[1].trim().parse().unwrap_or(0) } else { 0 };
    Some(LayoutDiag {
        line,
        sizes: numbers_after(msg, "size="),
        aligns: numbers_after(msg, "align="),
    })
}

const RELAX_MEMBER: Relax = Relax {
    member_tail: true,
    array_tail: false,
};
const RELAX_ARRAY: Relax = Relax {
    member_tail: false,
    array_tail: true,
};
const RELAX_BOTH: Relax = Relax {
    member_tail: true,
    array_tail: true,
};
const CAUSES: [(&str, Relax); 3] = [
    ("nested-struct-tail-padding", RELAX_MEMBER),
    ("array-stride", RELAX_ARRAY),
    ("nested-struct-tail-padding+array-stride", RELAX_BOTH),
];

fn sizes(d: &Decls, root: &str, relax: Relax) -> Option<(u32, u32)> {
    Some((layout_of(d, root, Rules::Hlsl, relax)?.size, layout_of(d, root, Rules::Metal, relax)?.size))
}

/// Why could a validator have accepted a struct whose reference layouts differ? Attribution only.
/// * totals equal, offsets differ: a comparison of total sizes cannot see it;
/// * totals differ, but become equal when the tail padding of nested structs is forgotten for direct
///   members / for array elements / for both: that forgotten rule;
/// * otherwise unexplained.
fn cause_of_accept(d: &Decls, root: &str, truth: &Truth) -> &'static str {
    if matches!(truth, Truth::SameSizeOffsetsDiffer(..)) {
        return "offset-mismatch-same-total-size";
    }
    for (name, relax) in CAUSES {
        if let Some((h, m)) = sizes(d, root, relax) {
            if h == m {
                return name;
            }
        }
    }
    "unexplained"
}

/// Which forgotten rule (if any) yields exactly the reported sizes? Attribution only.
fn cause_of_wrong_sizes(d: &Decls, root: &str, reported: (u32, u32)) -> &'static str {
    for (name, relax) in CAUSES {
        if sizes(d, root, relax) == Some(reported) {
            return name;
        }
    }
    "unexplained"
}

fn lay_to_json(l: &Lay) -> Json {
    let mut offsets = Vec::new();
    for (p, o, _) in l.leaves.iter().take(48) {
        offsets.push(Json::Arr(vec![Json::str(p), Json::from(*o)]));
    }
    let mut j = Json::obj().set("size", l.size).set("align", l.align).set("offsets", Json::Arr(offsets));
    if l.leaves.len() > 48 {
        j.put("offsets_truncated_of", l.leaves.len());
    }
    j
}

struct RootRef {
    name: String,
    hlsl: Lay,
    metal: Lay,
    truth: Truth,
}

fn features(case: &Case, report: &mut Report) {
    for s in &case.decls.structs {
        report.count(&format!("members:{}", s.members.len()));
        for m in &s.members {
            match &m.base {
                Base::Num(sc, n) => report.count(&format!("member-type:{}{}", sc.name(), if *n == 1 { String::new() } else { n.to_string() })),
                Base::Enum(_) => report.count("member-type:enum"),
                Base::Struct(_) => report.count("member-type:struct"),
            }
            if !m.dims.is_empty() {
                report.count(&format!(
                    "array:{}d-of-{}",
                    m.dims.len(),
                    match &m.base {
                        Base::Num(_, 1) => "scalar",
                        Base::Num(..) => "vector",
                        Base::Enum(_) => "enum",
                        Base::Struct(_) => "struct",
                    }
                ));
            }
        }
    }
    report.count(&format!("structs-per-program:{}", case.decls.structs.len()));
}

/// Does the Metal backend emit the struct members with the types the reference lays out?
/// Compares the member lines of the emitted `struct X { ... };` blocks with the model.
fn check_emitted_msl(case: &Case, text: &str, report: &mut Report) {
    let mut opts = Opts::new(Tgt::Msl, Mode::NoPipeline);
    opts.validate_layout = false;
    let out = rs::compile_text(text, &opts);
    report.evaluations += 1;
    let Outcome::Ok(pipes) = &out else {
        report.count(&format!("msl-emission:skipped:{}", out.class()));
        return;
    };
    let Some(p) = pipes.first() else { return };
    let src = &p.source;
    if src.contains("packed_") {
        report.count("msl-emission:packed-type-seen");
        report.inconclusive("the Metal backend emitted a packed_* type in a program of this workload: the reference lays out plain vector types");
        return;
    }
    for s in &case.decls.structs {
        let header = format!("struct {}\n{{\n", s.name);
        let Some(pos) = src.find(&header) else {
            report.count("msl-emission:struct-not-found");
            report.inconclusive(&format!("emitted MSL has no definition of struct {} in the expected form", s.name));
            return;
        };
        let body = &src[pos + header.len()..];
        let body = &body[..body.find("};").unwrap_or(body.len())];
        let emitted: Vec<String> = body.lines().map(|l| l.trim().to_string()).filter(|l| !l.is_empty()).collect();
        let expected: Vec<String> = s
            .members
            .iter()
            .map(|m| {
                let mut t = format!("{} {}", m.base.type_name(), m.name);
                for d in &m.dims {
                    t.push_str(&format!("[{}]", d));
                }
                t.push(';');
                t
            })
            .collect();
        if emitted != expected {
            report.count("msl-emission:members-differ");
            report.inconclusive(&format!(
                "the Metal backend emits struct {} with members {:?}, the reference lays out {:?}",
                s.name, emitted, expected
            ));
            return;
        }
    }
    report.count("msl-emission:members-as-in-source");
}

fn examine(case: &Case, stored_text: Option<&str>, index: Option<u64>, report: &mut Report) {
    let (rendered, lines) = render(case);
    let (text, lines_valid) = match stored_text {
        Some(t) if t != rendered => (t.to_string(), false),
        _ => (rendered, true),
    };

    // ---- reference ---------------------------------------------------------------------------
    let mut roots: Vec<RootRef> = Vec::new();
    for (_, root) in &case.uses {
        if roots.iter().any(|r| &r.name == root) {
            continue;
        }
        let (Some(h), Some(m)) = (layout_of(&case.decls, root, Rules::Hlsl, EXACT), layout_of(&case.decls, root, Rules::Metal, EXACT)) else {
            report.count("skipped:outside-reference");
            return;
        };
        let truth = compare(&h, &m);
        roots.push(RootRef {
            name: root.clone(),
            hlsl: h,
            metal: m,
            truth,
        });
    }

    // ---- the real validator ------------------------------------------------------------------
    let mut opts = Opts::new(case.target, Mode::NoPipeline);
    opts.validate_layout = true;
    let out = rs::compile_text(&text, &opts);
    report.evaluations += 1;

    let witness = |extra: Json| -> Json {
        let mut w = case.to_json().set("text", &text).set("opts", opts.to_json());
        if let Some(i) = index {
            w.put("index", i);
        }
        w.put(
            "reference",
            Json::Arr(
                roots
                    .iter()
                    .map(|r| {
                        Json::obj()
                            .set("struct", &r.name)
                            .set("relation", r.truth.name())
                            .set("hlsl", lay_to_json(&r.hlsl))
                            .set("metal", lay_to_json(&r.metal))
                    })
                    .collect(),
            ),
        );
        w.put("observed", extra);
        w
    };

    let mut verdict_reached = false;
    match &out {
        Outcome::Ok(_) => {
            verdict_reached = true;
            report.count("verdict:accepted");
            match roots.iter().find(|r| r.truth != Truth::Equal) {
                None => report.count("ok:accepted-and-reference-layouts-equal"),
                Some(r) => {
                    let cause = cause_of_accept(&case.decls, &r.name, &r.truth);
                    let (path, ho, mo) = match &r.truth {
                        Truth::SameSizeOffsetsDiffer(p, a, b) => (p.clone(), *a, *b),
                        Truth::SizeDiffers(Some((p, a, b))) => (p.clone(), *a, *b),
                        _ => (String::new(), 0, 0),
                    };
                    let what = if path.is_empty() {
                        format!("size {} on HLSL but {} on Metal (all offsets equal)", r.hlsl.size, r.metal.size)
                    } else {
                        format!(
                            "size {} on HLSL / {} on Metal, field {}{} at offset {} on HLSL but {} on Metal",
                            r.hlsl.size, r.metal.size, r.name, path, ho, mo
                        )
                    };
                    report.violation(
                        &format!("accepted-inconsistent-layout:{}", cause),
                        &format!("validation accepted struct {} used as {}: {}", r.name, use_of(case, &r.name), what),
                        witness(Json::obj().set("verdict", "accepted").set("cause", cause).set("first_difference", what.clone())),
                    );
                }
            }
        }
        Outcome::Diag(d) => {
            if let Some(diag) = parse_layout_diag(d) {
                verdict_reached = true;
                report.count("verdict:rejected");
                let line = diag.line;
                // which struct is the message about?
                let by_line = if lines_valid { lines.iter().find(|(l, _)| *l == line).and_then(|(_, n)| roots.iter().find(|r| &r.name == n)) } else { None };
                if diag.sizes.len() != 2 {
                    // a rejection that reports no sizes: the property only speaks about reported sizes
                    report.count("rejected:no-sizes-reported");
                    let r = by_line.or(roots.iter().find(|r| r.truth != Truth::Equal)).or(roots.first());
                    match r {
                        Some(r) if r.truth != Truth::Equal => report.count("ok:rejected-without-sizes-and-reference-layouts-differ"),
                        _ => report.count("observed:rejected-without-sizes-although-reference-layouts-equal"),
                    }
                    finish(case, &roots, &text, &out, &witness, report);
                    return;
                }
                let (hs, ms) = (diag.sizes[0], diag.sizes[1]);
                let (ha, ma) = (diag.aligns.first().copied().unwrap_or(0), diag.aligns.get(1).copied().unwrap_or(0));
                let target_root = match by_line {
                    Some(r) => {
                        report.count("rejected:struct-identified-by-line");
                        Some(r)
                    }
                    None => {
                        report.count("rejected:struct-not-identified-by-line");
                        // any used struct whose true sizes are the reported ones explains the message
                        roots.iter().find(|r| (r.hlsl.size, r.metal.size) == (hs, ms)).or(roots.first())
                    }
                };
                let Some(r) = target_root else { return };
                if (r.hlsl.size, r.metal.size) == (hs, ms) {
                    // reported sizes are true and differ (the checker only reports different sizes)
                    report.count("ok:rejected-with-true-sizes");
                    if (r.hlsl.align, r.metal.align) != (ha, ma) {
                        report.count("observed:reported-align-differs-from-reference");
                    }
                    if hs == ms {
                        // cannot happen with the documented message, but would be an unsound rejection text
                        report.count("observed:rejected-with-equal-sizes");
                    }
                } else {
                    let cause = cause_of_wrong_sizes(&case.decls, &r.name, (hs, ms));
                    report.count(&format!("wrong-reported-size:reference-relation:{}", r.truth.name()));
                    report.violation(
                        &format!("wrong-reported-size:{}", cause),
                        &format!(
                            "validation rejected struct {} used as {} reporting size={} on HLSL and size={} on Metal; the sizes are {} and {}",
                            r.name,
                            use_of(case, &r.name),
                            hs,
                            ms,
                            r.hlsl.size,
                            r.metal.size
                        ),
                        witness(
                            Json::obj()
                                .set("verdict", "rejected")
                                .set("cause", cause)
                                .set("message", d.lines().next().unwrap_or(""))
                                .set("reported", Json::obj().set("hlsl_size", hs).set("hlsl_align", ha).set("metal_size", ms).set("metal_align", ma)),
                        ),
                    );
                }
            } else if d.contains("struct has unknown size") {
                report.count("skipped:validator-says-unknown-size");
            } else {
                report.count("skipped:other-diagnostic");
                let first = d.lines().next().unwrap_or("").to_string();
                let msg = first.splitn(4, ':').last().unwrap_or("").trim().to_string();
                report.count(&format!("skipped:other-diagnostic:{}:{}", case.target.name(), msg.chars().take(60).collect::<String>()));
            }
        }
        Outcome::Panic(c) => {
            // totality is C08's property
            report.count("skipped:panic");
            report.count(&format!("skipped:panic:{}", c.signature()));
        }
        Outcome::Budget { .. } => report.count("skipped:step-budget"),
    }

    if verdict_reached {
        finish(case, &roots, &text, &out, &witness, report);
    }
}

/// Coverage bookkeeping of a case for which the validator gave a verdict
fn finish(case: &Case, roots: &[RootRef], text: &str, out: &Outcome, witness: &dyn Fn(Json) -> Json, report: &mut Report) {
    let mut key = String::new();
    for s in &case.decls.structs {
        key.push_str(&format!("{:?}", s));
    }
    key.push_str(&format!("{:?}", case.uses));
    report.distinct(hash_str(&key));
    features(case, report);
    report.count(&format!("target:{}", case.target.name()));
    for (k, _) in &case.uses {
        report.count(&format!("use:{}", k.name()));
    }
    for r in roots {
        report.count(&format!("reference:{}", r.truth.name()));
        report.max("max:leaf-fields", r.hlsl.leaves.len() as u64);
        report.max("max:struct-size-metal", r.metal.size as u64);
    }
    report.count(&format!("family:{}", case.kind.split(':').next().unwrap_or("")));
    if report.want_sample() && (case.kind != "flat" || report.samples.is_empty()) {
        report.sample(witness(Json::obj().set("verdict", out.brief())));
    }
    // 1 in 8: is the emitted Metal struct what the reference lays out?
    if !has_double(&case.decls) && hash_str(text) % 8 == 0 {
        check_emitted_msl(case, text, report);
    }
}

fn use_of(case: &Case, root: &str) -> String {
    case.uses.iter().filter(|(_, r)| r == root).map(|(k, _)| k.name().replace("<S>", &format!("<{}>", root)).replace("(S)", &format!("({})", root))).collect::<Vec<_>>().join(" and ")
}

// ------------------------------------------------------------------------------------------------
// Run / replay
// ------------------------------------------------------------------------------------------------

/// Self test of the reference (not part of the verdict): `C19_EMIT_CXX=<file> [C19_EMIT_N=<n>]` writes
/// the first n random cases as C++ with one static_assert per reference size / leaf offset, the
/// Metal rules against clang's ext_vector_type vectors (what Metal's vector types are) and the HLSL
/// rules against plain C structs whose vectors are scalar arrays. `clang++ -fsyntax-only <file>`
/// (`--target=aarch64-linux-gnu` where the host has no _Float16) must pass. (Done while building the check: 3000 cases, 57 000 assertions, 0 failures;
/// Metal-side structs with double3/double4, which do not exist in Metal, are left out.)
fn emit_cxx(seed: u64, path: &str) {
    let n: u64 = std::env::var("C19_EMIT_N").ok().and_then(|v| v.parse().ok()).unwrap_or(1000);
    let mut out = String::from("#define offsetof __builtin_offsetof\ntypedef _Float16 half; typedef unsigned int uint;\n");
    for sc in SCALARS {
        for w in 2..=4 {
            out.push_str(&format!("typedef {} {}{} __attribute__((ext_vector_type({})));\n", sc.name(), sc.name(), w, w));
        }
    }
    for i in 0..n {
        let case = random_case(seed, i);
        for rules in [Rules::Metal, Rules::Hlsl] {
            let Some(l) = layout_of(&case.decls, "S", rules, EXACT) else { continue };
            // Metal has no double; clang caps the alignment of 32 byte vectors at 16, the reference follows the power-of-two rule
            let wide_double = case.decls.structs.iter().any(|s| s.members.iter().any(|m| matches!(m.base, Base::Num(Scalar::Double, w) if w >= 3)));
            if rules == Rules::Metal && wide_double {
                continue;
            }
            out.push_str(&format!("namespace {}{} {{\n", if rules == Rules::Metal { "m" } else { "h" }, i));
            for e in &case.decls.enums {
                out.push_str(&format!("enum {} {{ {}_A, {}_B }};\n", e, e, e));
            }
            for s in &case.decls.structs {
                out.push_str(&format!("struct {} {{", s.name));
                for m in &s.members {
                    let mut dims: String = m.dims.iter().map(|d| format!("[{}]", d)).collect();
                    let ty = match (&m.base, rules) {
                        (Base::Num(sc, w), Rules::Hlsl) if *w > 1 => {
                            dims.push_str(&format!("[{}]", w));
                            sc.name().to_string()
                        }
                        (b, _) => b.type_name(),
                    };
                    out.push_str(&format!(" {} {}{};", ty, m.name, dims));
                }
                out.push_str(" };\n");
            }
            out.push_str(&format!("static_assert(sizeof(S) == {} && alignof(S) == {}, \"size\");\n", l.size, l.align));
            for (p, o, _) in &l.leaves {
                let tail = if rules == Rules::Hlsl && leaf_is_vector(&case.decls, "S", p) { "[0]" } else { "" };
                out.push_str(&format!("static_assert(offsetof(S, {}{}) == {}, \"offset\");\n", &p[1..], tail, o));
            }
            out.push_str("}\n");
        }
    }
    let _ = std::fs::write(path, out);
}

/// Is the leaf at `path` (".m0[1].m2") of struct `root` a vector?
fn leaf_is_vector(d: &Decls, root: &str, path: &str) -> bool {
    let mut cur = root.to_string();
    let mut last = None;
    for part in path.split('.').filter(|p| !p.is_empty()) {
        let name = part.split('[').next().unwrap_or(part);
        let Some(m) = d.find(&cur).and_then(|s| s.members.iter().find(|m| m.name == name)) else { return false };
        last = Some(m.base.clone());
        if let Base::Struct(n) = &m.base {
            cur = n.clone();
        }
    }
    matches!(last, Some(Base::Num(_, w)) if w > 1)
}

fn run(ctx: &Ctx) -> Report {
    if let Ok(path) = std::env::var("C19_EMIT_CXX") {
        emit_cxx(ctx.seed, &path);
    }
    let thorough = ctx.tier == Tier::Thorough;
    // flat family
    let slice = ctx.seed % 10;
    let flat_cases: u64 = if thorough { FLAT_STRUCTS * 8 } else { (0..FLAT_STRUCTS).filter(|i| i % 10 == slice).count() as u64 };
    let random_cases: u64 = ctx.tier.pick(60_000, 1_000_000);
    let seed = ctx.seed;
    let mut report = crate::par::run_cases(ctx, PROBE_CASES + flat_cases + random_cases, |index, report| {
        if index < PROBE_CASES {
            let case = probe_case(index, index / 3 + seed);
            examine(&case, None, Some(index), report);
            return;
        }
        let index = index - PROBE_CASES;
        if index < flat_cases {
            let case = if thorough {
                flat_case(index / 8, index % 8)
            } else {
                // the index-th struct of the slice
                let si = index * 10 + slice;
                flat_case(si, si / 10 + seed)
            };
            examine(&case, None, Some(index), report);
        } else {
            let i = index - flat_cases;
            let case = random_case(seed, i);
            examine(&case, None, Some(i), report);
        }
    });
    let run = report.counters.get("cases_run").copied().unwrap_or(0);
    if thorough && run >= flat_cases {
        // indices are handed out in order, so the flat family was enumerated completely
        report.exhaustive = Some(true);
        report.notes.push(format!("flat family enumerated completely: {} structs x 8 uses", FLAT_STRUCTS));
    }
    report
}

fn replay(_ctx: &Ctx, witness: &Json) -> Report {
    let mut report = Report::new();
    let Some(case) = Case::from_json(witness) else {
        report.inconclusive("witness has no model / uses");
        return report;
    };
    examine(&case, witness.get_str("text"), None, &mut report);
    report
}
