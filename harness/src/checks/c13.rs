//! C13 - compile-time constant evaluation matches run-time semantics.
//!
//! Reference-model monitor. Constant expression trees are generated together with their reference
//! value (`oracle::c13_refconst`, written from the property text), printed into tiny programs that put
//! the expression into a position that demands (or records) a constant, and the real typer / evaluator
//! is run on them. What the compiler evaluated is read back from the `rssl::ir::Module`
//! (`GlobalVariable.constexpr_value`, the `Array` type layer, `EnumValue.value`, `CaseLabel`, the template
//! arguments of an instantiation, `thread_group_size`) or through the built-in `assert_eval<T>(e, expected)`
//! which makes the compiler itself compare.
//!
//! Verdicts: a panic anywhere is a violation of this property ("evaluation never aborts");
//! a value / type different from the reference is a violation; division or modulus by zero that yields a
//! constant is a violation; "not a constant" for a tree made only of operator/operand-type shapes the
//! evaluator demonstrably supports (learned from benign operands) is a violation; everything the
//! reference can not decide (see the oracle's `NoRef`) or rssl rejects for other reasons is skipped and counted.

use crate::json::Json;
use crate::oracle::c13_refconst::{self as rc, BinOp, Ex, Flags, Res, Ty, UnOp, Val, BIN_OPS, CONSTS, ENUMS, NAMED_TYS, SCALAR_TYS, UN_OPS};
use crate::par;
use crate::report::{Ctx, Report, Tier};
use crate::rng::{hash_str, Rng};
use crate::rs::{self, Front, Mode, Opts, Outcome, Tgt};
use crate::CheckDef;
use rssl::ir;
use std::collections::HashSet;
use std::sync::Mutex;

pub fn def() -> CheckDef {
    CheckDef {
        id: "C13",
        salt: 0xC13,
        rule: "phase 1 learns which operator x operand-type shapes the evaluator supports at all (benign operands 6 and 1 in every scalar type, \
               case-label position); phase 2 enumerates every unary operator, every cast and every binary operator over all pairs of the boundary \
               operands (0, 1, -1, 2, 31, 32, 33, INT_MIN, INT_MAX, UINT_MAX, 2^31, 2^32, 2^63, 2^64-1, large / small / fractional floats) in every \
               scalar type (bool, untyped int literal, int, uint, untyped float literal, half, float, double, an int-based and a uint-based enum, \
               named static const values): 62 operands in the quick tier, 96 in the thorough tier; phase 3 generates typed random trees of depth 2..5 \
               over the full operand set (40% of them re-drawn until free of 32-bit wrap-around, so that deep trees are observed even while overflow \
               still panics). Each tree is observed through assert_eval<T>(e, expected) and one (table) or two (random) further positions in \
               rotation: static const initialiser, local const, array size, enum value with an implicit next enumerator, case label, template value \
               argument, numthreads (typer) and numthreads as reported by compile(). Violations are shrunk to the smallest failing sub-tree and keyed \
               by its operator and operand types. evaluations = type-check / compile executions observed; distinct_nontrivial = distinct program \
               texts for which the oracle had a reference (a value or 'not constant') and rssl gave a decidable outcome. Not generated: 64-bit literal \
               suffixes (C08 finding), an implicit enumerator after a bool-typed one (panics with 'Unexpected constant type', not an overflow: C08), \
               `u`-suffixed literals above UINT_MAX, enum declarations in programs that go through the exporter (INT_MIN enumerator panics there: C08)",
        assumptions: &[
            "the reference evaluator (src/oracle/c13_refconst.rs) is a correct reading of the HLSL rules the property names",
            "evaluation of a trivial expected-value expression such as (int)-5, 7u, -2.5f or (E0)((int)1) is correct (it is the other argument of assert_eval); read-back positions do not depend on it",
            "the instrumented build (overflow checks on) evaluates the same expressions as a release build; silent wrap-around in release is the same defect seen as a panic here",
            "lexing of the decimal literals used is exact (property C10)",
        ],
        min_distinct: (10_000, 100_000),
        deadline_s: (50.0, 540.0),
        run,
        replay,
    }
}

// ------------------------------------------------------------------------------------------------
// Positions
// ------------------------------------------------------------------------------------------------

#[derive(Clone, Copy, PartialEq, Eq, Debug, Hash)]
pub enum Pos {
    Assert,
    Global,
    Local,
    Array,
    Enum,
    Case,
    Template,
    NumThreads,
    /// numthreads observed through the full compile() (reported thread group size)
    NumThreadsCompiled,
}

const ALL_POS: [Pos; 9] = [Pos::Assert, Pos::Global, Pos::Local, Pos::Array, Pos::Enum, Pos::Case, Pos::Template, Pos::NumThreads, Pos::NumThreadsCompiled];

impl Pos {
    fn name(self) -> &'static str {
        match self {
            Pos::Assert => "assert_eval",
            Pos::Global => "static-const",
            Pos::Local => "local-const",
            Pos::Array => "array",
            Pos::Enum => "enum",
            Pos::Case => "case",
            Pos::Template => "template-arg",
            Pos::NumThreads => "numthreads",
            Pos::NumThreadsCompiled => "numthreads-compiled",
        }
    }
    fn from_name(s: &str) -> Option<Pos> {
        ALL_POS.iter().copied().find(|p| p.name() == s)
    }
    /// Positions that only take integer-like values
    fn integer_only(self) -> bool {
        matches!(self, Pos::Array | Pos::Enum | Pos::Template | Pos::NumThreads | Pos::NumThreadsCompiled)
    }
}

fn prelude(e: &Ex, extra_enum: bool) -> String {
    let mut s = String::new();
    if e.uses_enum() || extra_enum {
        for d in &ENUMS {
            s.push_str("enum ");
            s.push_str(d.name);
            s.push_str(" { ");
            for (i, (name, init, _)) in d.values.iter().enumerate() {
                if i > 0 {
                    s.push_str(", ");
                }
                s.push_str(name);
                if !init.is_empty() {
                    s.push_str(" = ");
                    s.push_str(init);
                }
            }
            s.push_str(" };\n");
        }
    }
    if e.uses_const() {
        for c in &CONSTS {
            s.push_str(&format!("static const {} {} = {};\n", c.ty.name(), c.name, c.init));
        }
    }
    s
}

/// The declared type used by the static const / local const positions: the type of the expression when it can be
/// named, else (untyped literals, untypable trees) a type picked by the hash of the text
fn declared_type(e: &Ex, src: &str) -> Ty {
    let h = hash_str(src);
    match rc::type_of(e) {
        Ok(t) if t.is_named() => t,
        Ok(Ty::FLit) => [Ty::Float, Ty::Double, Ty::Half, Ty::Float][(h % 4) as usize],
        Ok(_) => [Ty::Int, Ty::UInt, Ty::Float, Ty::Int, Ty::UInt, Ty::Double, Ty::Bool][(h % 7) as usize],
        Err(_) => [Ty::Int, Ty::UInt, Ty::Float][(h % 3) as usize],
    }
}

// ------------------------------------------------------------------------------------------------
// Observation
// ------------------------------------------------------------------------------------------------

fn from_ir(c: &ir::Constant, m: &ir::Module) -> Option<Val> {
    Some(match c {
        ir::Constant::Bool(b) => Val::Bool(*b),
        ir::Constant::IntLiteral(v) => Val::Lit(*v),
        ir::Constant::Int32(v) => Val::Int(*v),
        ir::Constant::UInt32(v) => Val::UInt(*v),
        ir::Constant::FloatLiteral(v) => Val::FLit(*v),
        ir::Constant::Float16(v) => Val::Half(*v),
        ir::Constant::Float32(v) => Val::Float(*v),
        ir::Constant::Float64(v) => Val::Double(*v),
        ir::Constant::Enum(id, inner) => {
            let name = &m.enum_registry.get_enum_definition(*id).name.node;
            let k = ENUMS.iter().position(|d| d.name == name.as_str())?;
            Val::Enum(k as u8, Box::new(from_ir(inner, m)?))
        }
        _ => return None,
    })
}

fn find_case_label(b: &ir::ScopeBlock) -> Option<ir::Constant> {
    for st in &b.0 {
        let found = match &st.kind {
            ir::StatementKind::CaseLabel(c) => Some(c.clone()),
            ir::StatementKind::Switch(_, inner) | ir::StatementKind::Block(inner) => find_case_label(inner),
            _ => None,
        };
        if found.is_some() {
            return found;
        }
    }
    None
}

/// What one execution showed
#[derive(Clone, Debug)]
enum Seen {
    /// Accepted; the constant read back (None for acceptance-only positions)
    Value(Option<Val>),
    /// Accepted, the initialiser was not folded (static const only)
    Unfolded,
    /// Accepted, array length / thread group size / raw integer read back
    Integer(u64),
    /// enum position: values of EA and (if present) EB
    EnumValues(Val, Option<Val>),
    /// Accepted but the thing to read back was not found (harness problem)
    Lost(String),
    Diag(String),
    Panic(par::Caught),
}

fn observe(text: &str, pos: Pos) -> Seen {
    if pos == Pos::NumThreadsCompiled {
        // the evaluation happens in the typer: a panic there is ours; a panic later (exporter) is C08's business
        match rs::typecheck_text(text) {
            Front::Panic(c) => return Seen::Panic(c),
            Front::Diag(d) => return Seen::Diag(d),
            Front::Ok(_) => {}
        }
        return match rs::compile_text(text, &Opts::new(Tgt::Dx, Mode::All)) {
            Outcome::Ok(pipes) => match pipes.first().and_then(|p| p.stages.first()).and_then(|s| s.thread_group_size) {
                Some((x, 1, 1)) => Seen::Integer(x as u64),
                other => Seen::Lost(format!("thread group size {:?}", other)),
            },
            Outcome::Diag(d) => Seen::Diag(d),
            Outcome::Panic(c) => Seen::Lost(format!("panic-after-typer {}", c.signature())),
            Outcome::Budget { site, ticks } => Seen::Lost(format!("step budget at site {} after {} ticks", site, ticks)),
        };
    }
    let m = match rs::typecheck_text(text) {
        Front::Ok(m) => m,
        Front::Diag(d) => return Seen::Diag(d),
        Front::Panic(c) => return Seen::Panic(c),
    };
    let global = |name: &str| m.global_registry.iter().find(|g| !g.is_intrinsic && g.name.node == name);
    match pos {
        Pos::Assert | Pos::Local => Seen::Value(None),
        Pos::Global => match global("g") {
            Some(g) => match &g.constexpr_value {
                Some(c) => match from_ir(c, &m) {
                    Some(v) => Seen::Value(Some(v)),
                    None => Seen::Lost(format!("constant {:?}", c)),
                },
                None => Seen::Unfolded,
            },
            None => Seen::Lost("global g".into()),
        },
        Pos::Array => match global("a") {
            Some(g) => {
                let t = m.type_registry.remove_modifier(g.type_id);
                match m.type_registry.get_type_layer(t) {
                    ir::TypeLayer::Array(_, Some(len)) => Seen::Integer(len),
                    other => Seen::Lost(format!("type layer {:?}", other)),
                }
            }
            None => Seen::Lost("global a".into()),
        },
        Pos::Enum => {
            let mut ea = None;
            let mut eb = None;
            for i in 0..m.enum_registry.get_enum_count() {
                let id = ir::EnumId(i);
                if m.enum_registry.get_enum_definition(id).name.node != "EE" {
                    continue;
                }
                for v in m.enum_registry.get_values(id) {
                    let ev = m.enum_registry.get_enum_value(*v);
                    match ev.name.node.as_str() {
                        "EA" => ea = from_ir(&ev.value, &m),
                        "EB" => eb = from_ir(&ev.value, &m),
                        _ => {}
                    }
                }
            }
            match ea {
                Some(a) => Seen::EnumValues(a, eb),
                None => Seen::Lost("enum value EA".into()),
            }
        }
        Pos::Case => {
            for id in m.function_registry.iter() {
                if m.function_registry.get_function_name(id) != "f" {
                    continue;
                }
                if let Some(imp) = m.function_registry.get_function_implementation(id) {
                    if let Some(c) = find_case_label(&imp.scope_block) {
                        return match from_ir(&c, &m) {
                            Some(v) => Seen::Value(Some(v)),
                            None => Seen::Lost(format!("constant {:?}", c)),
                        };
                    }
                }
            }
            Seen::Lost("case label".into())
        }
        Pos::Template => {
            for id in m.function_registry.iter() {
                if let Some(d) = m.function_registry.get_template_instantiation_data(id) {
                    if let Some(ir::TypeOrConstant::Constant(c)) = d.template_args.first() {
                        let c = c.clone().unrestrict();
                        return match from_ir(&c, &m) {
                            Some(v) => Seen::Value(Some(v)),
                            None => Seen::Lost(format!("constant {:?}", c)),
                        };
                    }
                }
            }
            Seen::Lost("template instantiation".into())
        }
        Pos::NumThreads => match m.pipelines.first().and_then(|p| p.stages.first()).and_then(|s| s.thread_group_size) {
            Some((x, 1, 1)) => Seen::Integer(x as u64),
            other => Seen::Lost(format!("thread group size {:?}", other)),
        },
        Pos::NumThreadsCompiled => unreachable!(),
    }
}

// ------------------------------------------------------------------------------------------------
// Judging one (expression, position)
// ------------------------------------------------------------------------------------------------

#[derive(Clone, Debug)]
enum Verdict {
    Agree,
    /// reason (histogram key)
    Skip(String),
    Violation {
        /// full signature
        signature: String,
        /// panic | value | type | not-constant | folded-division-by-zero
        class: &'static str,
        detail: String,
    },
}

struct Examined {
    verdict: Verdict,
    text: String,
    expected: String,
    observed: String,
    /// oracle had a reference and rssl gave a decidable outcome
    nontrivial: bool,
}

pub struct Support {
    shapes: HashSet<String>,
}

impl Support {
    fn covers(&self, e: &Ex, extra: Option<String>) -> bool {
        let mut v = Vec::new();
        rc::shapes(e, &mut v);
        if let Some(x) = extra {
            v.push(x);
        }
        v.iter().all(|s| self.shapes.contains(s))
    }
}

fn is_not_constant_diag(d: &str) -> bool {
    d.contains("could not be evaluated as a constant expression") || d.contains("array dimensions must be constant") || d.contains("state requires an integer argument")
}

/// The message of a diagnostic without position and source excerpt
fn diag_msg(d: &str) -> &str {
    let line = d.lines().next().unwrap_or("");
    match line.find("error: ") {
        Some(i) => &line[i + 7..],
        None => line,
    }
}

/// Histogram key of a diagnostic: the message without quoted parts and numbers
fn diag_class(d: &str) -> String {
    let mut out = String::new();
    let mut in_quote = false;
    for c in diag_msg(d).chars().take(80) {
        if c == '\'' {
            in_quote = !in_quote;
        } else if !in_quote && !c.is_ascii_digit() && c != '-' {
            out.push(c);
        }
    }
    out.split_whitespace().collect::<Vec<_>>().join(" ")
}

fn examine(e: &Ex, pos: Pos, sup: &Support) -> Examined {
    let mut flags = Flags::default();
    let res = rc::eval(e, &mut flags);
    let src = e.to_src();
    let shape = rc::root_shape(e);
    let ety = rc::type_of(e).ok();

    // ---- build the program and the expectation ----------------------------------------------
    let decl_ty = declared_type(e, &src);
    let needs_extra_enum = matches!(pos, Pos::Global | Pos::Local) && matches!(decl_ty, Ty::Enum(_));
    let pre = prelude(e, needs_extra_enum);
    // value expected at the observation point (after the implicit conversion of the position, if any)
    let mut expected: Res = res.clone();
    let mut conv_shape: Option<String> = None;
    if matches!(pos, Pos::Global | Pos::Local) {
        if let (Res::Val(v), Some(t)) = (&res, ety) {
            if t != decl_ty {
                conv_shape = Some(format!("cast:{}<-{}", decl_ty.name(), t.name()));
                expected = rc::convert(v, decl_ty);
            }
        }
    }
    let expected_src: Option<String> = match &expected {
        Res::Val(v) => v.to_src(),
        _ => None,
    };
    let mut with_next = false;
    let mut second: Option<i128> = None;
    let text = match pos {
        Pos::Assert => {
            let targ = match (&expected, ety) {
                // a named constant has the type `const T`, which assert_eval<T> does not accept: compare the value only
                (Res::Val(_), Some(t)) if t.is_named() && !matches!(e, Ex::ConstRef(_)) => format!("<{}>", t.name()),
                _ => String::new(),
            };
            let x = expected_src.clone().unwrap_or_else(|| "0".to_string());
            format!("{}void f() {{ assert_eval{}({}, {}); }}\n", pre, targ, src, x)
        }
        Pos::Global => format!("{}static const {} g = {};\n", pre, decl_ty.name(), src),
        Pos::Local => {
            let x = expected_src.clone().unwrap_or_else(|| "0".to_string());
            format!("{}void f() {{ const {} x = {}; assert_eval(x, {}); }}\n", pre, decl_ty.name(), src, x)
        }
        Pos::Array => format!("{}float a[{}];\n", pre, src),
        Pos::Enum => {
            // an implicit enumerator after a bool one panics with 'Unexpected constant type' (not an overflow: C08)
            with_next = !matches!(ety, Some(Ty::Bool) | None);
            // one case in three gives the second enumerator a value of its own from the other end of the 32-bit ranges: the
            // enumeration then has to fit both values into one underlying type, or be rejected
            let h = hash_str(&src);
            if h % 3 == 0 {
                with_next = false;
                let k: i128 = [-1, i32::MIN as i128, u32::MAX as i128, 2147483648, 0, i32::MAX as i128][((h / 3) % 6) as usize];
                second = Some(k);
                format!("{}enum EE {{ EA = {}, EB = {} }};\n", pre, src, k)
            } else {
                format!("{}enum EE {{ EA = {}{} }};\n", pre, src, if with_next { ", EB" } else { "" })
            }
        }
        Pos::Case => format!("{}void f(int s) {{ switch (s) {{ case {}: break; default: break; }} }}\n", pre, src),
        Pos::Template => format!("{}template<int N> void t() {{}}\nvoid f() {{ t<{}>(); }}\n", pre, src),
        Pos::NumThreads | Pos::NumThreadsCompiled => format!("{}[numthreads({}, 1, 1)]\nvoid cs() {{}}\nPipeline P {{ ComputeShader = cs; }}\n", pre, src),
    };

    let seen = observe(&text, pos);
    let observed = match &seen {
        Seen::Value(Some(v)) => v.show(),
        Seen::Value(None) => "accepted".to_string(),
        Seen::Unfolded => "accepted, not folded".to_string(),
        Seen::Integer(n) => format!("{}", n),
        Seen::EnumValues(a, b) => format!("EA={} EB={}", a.show(), b.as_ref().map(|b| b.show()).unwrap_or_else(|| "-".into())),
        Seen::Lost(s) => format!("lost: {}", s),
        Seen::Diag(d) => format!("diagnostic: {}", d.lines().next().unwrap_or("")),
        Seen::Panic(c) => format!("panic at {}: {}", c.location, c.message),
    };
    let expected_text = match &expected {
        Res::Val(v) => v.show(),
        Res::NotConst => "not a constant (division or modulus by zero)".to_string(),
        Res::NoRef(w) => format!("no reference: {}", w),
    };
    let done = |verdict: Verdict, nontrivial: bool| Examined {
        verdict,
        text: text.clone(),
        expected: expected_text.clone(),
        observed: observed.clone(),
        nontrivial,
    };
    let violation = |class: &'static str, signature: String, detail: String| Verdict::Violation { signature, class, detail };

    // ---- a panic is a violation whatever the reference says ---------------------------------
    if let Seen::Panic(c) = &seen {
        return done(violation("panic", format!("panic:{}", c.signature()), format!("{} at {}", c.message, c.location)), true);
    }
    if let Seen::Lost(s) = &seen {
        return done(Verdict::Skip(format!("skipped:lost:{}", s.split(' ').next().unwrap_or(""))), false);
    }

    let supported = sup.covers(e, conv_shape.clone());
    let not_constant = |d: &str| -> Verdict {
        if is_not_constant_diag(d) {
            if supported {
                violation("not-constant", format!("not-constant:{}:{}", pos.name(), shape), format!("every operator/type shape of the tree is supported, yet: {}", diag_msg(d)))
            } else {
                Verdict::Skip("skipped:unsupported-shape".into())
            }
        } else {
            Verdict::Skip(format!("skipped:rejected:{}", diag_class(d)))
        }
    };

    match &expected {
        // ---- no reference: only "does not panic" -------------------------------------------
        Res::NoRef(w) => done(Verdict::Skip(format!("noref:{}", w.split(" (").next().unwrap_or(w))), false),

        // ---- division / modulus by zero must be "not constant" -------------------------------
        Res::NotConst => match &seen {
            Seen::Diag(d) => {
                if is_not_constant_diag(d) {
                    done(Verdict::Agree, true)
                } else if pos == Pos::Assert && d.contains("expected value") {
                    done(violation("folded-division-by-zero", format!("folded-division-by-zero:{}", shape), diag_msg(d).to_string()), true)
                } else {
                    done(Verdict::Skip(format!("skipped:rejected:{}", diag_class(d))), false)
                }
            }
            Seen::Unfolded => done(Verdict::Agree, true),
            _ => done(violation("folded-division-by-zero", format!("folded-division-by-zero:{}", shape), format!("accepted as a constant: {}", observed)), true),
        },

        Res::Val(v) => {
            let n = v.as_integer();
            if pos.integer_only() && n.is_none() {
                return done(Verdict::Skip("skipped:position-needs-integer".into()), false);
            }
            if matches!(pos, Pos::Template | Pos::NumThreads | Pos::NumThreadsCompiled) && matches!(v.ty(), Ty::Enum(_)) {
                // rssl does not take enum typed values as template arguments or thread counts: a rule of the position
                if matches!(seen, Seen::Diag(_)) {
                    return done(Verdict::Skip("skipped:position-rejects-enum-typed-value".into()), false);
                }
            }
            match pos {
                Pos::Assert | Pos::Local => {
                    if expected_src.is_none() {
                        return done(Verdict::Skip("skipped:expected-not-writable".into()), false);
                    }
                    match &seen {
                        Seen::Value(_) => done(Verdict::Agree, true),
                        Seen::Diag(d) if d.contains("expected value") => done(violation("value", format!("value:{}:{}", pos.name(), shape), diag_msg(d).to_string()), true),
                        Seen::Diag(d) if d.contains("expected type") => done(violation("type", format!("type:{}:{}", pos.name(), shape), diag_msg(d).to_string()), true),
                        Seen::Diag(d) => {
                            let vd = not_constant(d);
                            let nt = matches!(vd, Verdict::Violation { .. });
                            done(vd, nt)
                        }
                        _ => done(Verdict::Skip("skipped:unexpected-observation".into()), false),
                    }
                }
                Pos::Global | Pos::Case | Pos::Template => match &seen {
                    Seen::Value(Some(got)) => {
                        if got.same(v) {
                            done(Verdict::Agree, true)
                        } else if got.ty() != v.ty() {
                            done(violation("type", format!("type:{}:{}", pos.name(), shape), format!("expected {} got {}", v.show(), got.show())), true)
                        } else {
                            done(violation("value", format!("value:{}:{}", pos.name(), shape), format!("expected {} got {}", v.show(), got.show())), true)
                        }
                    }
                    Seen::Unfolded => {
                        if supported {
                            done(violation("not-constant", format!("not-constant:{}:{}", pos.name(), shape), "every operator/type shape of the tree is supported, yet the initialiser was not folded".into()), true)
                        } else {
                            done(Verdict::Skip("skipped:unsupported-shape".into()), false)
                        }
                    }
                    Seen::Diag(d) => {
                        let vd = not_constant(d);
                        let nt = matches!(vd, Verdict::Violation { .. });
                        done(vd, nt)
                    }
                    _ => done(Verdict::Skip("skipped:unexpected-observation".into()), false),
                },
                Pos::Array => {
                    let n = n.unwrap();
                    match &seen {
                        Seen::Integer(len) => {
                            if n >= 1 && n == *len as i128 {
                                done(Verdict::Agree, true)
                            } else if n < 0 && v.ty() == Ty::Lit {
                                done(violation("value", "value:array:negative-literal-size-accepted".into(), format!("size {} accepted as an array of {} elements", n, len)), true)
                            } else {
                                done(violation("value", format!("value:array:{}", shape), format!("size {} accepted as an array of {} elements", n, len)), true)
                            }
                        }
                        Seen::Diag(d) => {
                            if n <= 0 || n > u64::MAX as i128 {
                                done(Verdict::Agree, true)
                            } else {
                                let vd = not_constant(d);
                                let nt = matches!(vd, Verdict::Violation { .. });
                                done(vd, nt)
                            }
                        }
                        _ => done(Verdict::Skip("skipped:unexpected-observation".into()), false),
                    }
                }
                Pos::NumThreads | Pos::NumThreadsCompiled => {
                    let n = n.unwrap();
                    let in_range = (0..=u32::MAX as i128).contains(&n);
                    match &seen {
                        Seen::Integer(x) => {
                            if in_range && n == *x as i128 {
                                done(Verdict::Agree, true)
                            } else if n < 0 && v.ty() == Ty::Lit {
                                done(violation("value", "value:numthreads:negative-literal-accepted".into(), format!("thread count {} reported as {}", n, x)), true)
                            } else {
                                done(violation("value", format!("value:numthreads:{}", shape), format!("thread count {} reported as {}", n, x)), true)
                            }
                        }
                        Seen::Diag(d) => {
                            if !in_range {
                                done(Verdict::Agree, true)
                            } else {
                                let vd = not_constant(d);
                                let nt = matches!(vd, Verdict::Violation { .. });
                                done(vd, nt)
                            }
                        }
                        _ => done(Verdict::Skip("skipped:unexpected-observation".into()), false),
                    }
                }
                Pos::Enum => {
                    let n = n.unwrap();
                    match &seen {
                        Seen::EnumValues(a, b) => {
                            if a.as_integer() != Some(n) {
                                return done(violation("value", format!("value:enum:{}", shape), format!("enumerator initialised with {} has value {}", n, a.show())), true);
                            }
                            // the implicit next enumerator is the previous value plus one, exactly: past the range of the initialiser's
                            // type the enumeration continues in a wider type (the C++ rule HLSL 2021 enums follow), it does not wrap;
                            // a range that fits no 32-bit type is rejected (the diagnostic arm below)
                            let next_defined = true;
                            if let Some(k) = second {
                                // both enumerators are explicit: each keeps its value (the diagnostic arm decides whether the pair fits)
                                let fits = (n.min(k) >= i32::MIN as i128 && n.max(k) <= i32::MAX as i128) || (n.min(k) >= 0 && n.max(k) <= u32::MAX as i128);
                                return match b {
                                    _ if !fits => done(violation("value", "value:enum:range-fits-no-type-accepted".into(), format!("enumerators {} and {} fit no 32-bit type but the enumeration is accepted with EA={} EB={}", n, k, a.show(), b.as_ref().map(|b| b.show()).unwrap_or_default())), true),
                                    Some(b) if b.as_integer() == Some(k) => done(Verdict::Agree, true),
                                    Some(b) => done(violation("value", "value:enum:second-explicit".into(), format!("enumerator initialised with {} has value {}", k, b.show())), true),
                                    None => done(Verdict::Skip("skipped:lost:EB".into()), false),
                                };
                            }
                            if with_next && next_defined {
                                match b {
                                    Some(b) if b.as_integer() == n.checked_add(1) => done(Verdict::Agree, true),
                                    Some(b) => done(violation("value", "value:enum:implicit-next".into(), format!("enumerator after {} has value {}", n, b.show())), true),
                                    None => done(Verdict::Skip("skipped:lost:EB".into()), false),
                                }
                            } else {
                                done(Verdict::Agree, true)
                            }
                        }
                        Seen::Diag(d) => {
                            if d.contains("can not fit in any type") {
                                // rssl only has 32-bit enums: a range that fits neither int nor uint is rejected
                                let hi = if with_next { n.saturating_add(1) } else { n };
                                let (lo, hi) = match second {
                                    Some(k) => (n.min(k), n.max(k)),
                                    None => (n, hi),
                                };
                                let fits = (lo >= i32::MIN as i128 && hi <= i32::MAX as i128) || (lo >= 0 && hi <= u32::MAX as i128);
                                if fits {
                                    done(violation("value", format!("value:enum:{}", shape), format!("range {}..{} rejected: {}", n, hi, diag_msg(d))), true)
                                } else {
                                    done(Verdict::Agree, true)
                                }
                            } else {
                                let vd = not_constant(d);
                                let nt = matches!(vd, Verdict::Violation { .. });
                                done(vd, nt)
                            }
                        }
                        _ => done(Verdict::Skip("skipped:unexpected-observation".into()), false),
                    }
                }
            }
        }
    }
}

// ------------------------------------------------------------------------------------------------
// Reporting, shrinking
// ------------------------------------------------------------------------------------------------

fn witness(e: &Ex, pos: Pos, x: &Examined, origin: &str) -> Json {
    Json::obj()
        .set("position", pos.name())
        .set("sexpr", e.to_sexpr())
        .set("expression", e.to_src())
        .set("program", &x.text)
        .set("reference", &x.expected)
        .set("observed", &x.observed)
        .set("origin", origin)
}

/// Smallest sub-tree that still shows a violation of the same class (observed through assert_eval, the static const
/// initialiser or the case label, which take every type)
fn shrink(e: &Ex, pos: Pos, class: &str, sup: &Support, report: &mut Report, budget: &mut u32) -> Option<(Ex, Pos, Examined)> {
    for child in e.children() {
        let mut tried: Vec<Pos> = Vec::new();
        for p in [pos, Pos::Assert, Pos::Case] {
            if tried.contains(&p) {
                continue;
            }
            tried.push(p);
            if *budget == 0 {
                return None;
            }
            *budget -= 1;
            let x = examine(child, p, sup);
            report.evaluations += 1;
            if let Verdict::Violation { class: c, .. } = &x.verdict {
                if *c == class {
                    return Some(shrink(child, p, class, sup, report, budget).unwrap_or((child.clone(), p, x)));
                }
            }
        }
    }
    None
}

/// Observe one expression in one position and record everything
fn run_one(e: &Ex, pos: Pos, sup: &Support, origin: &str, report: &mut Report) {
    let x = examine(e, pos, sup);
    report.evaluations += 1;
    report.count(&format!("pos:{}", pos.name()));
    match &x.verdict {
        Verdict::Agree => {
            report.count("agree");
            report.count(&format!("agree:{}", pos.name()));
        }
        Verdict::Skip(why) => report.count(why),
        Verdict::Violation { .. } => {}
    }
    if x.nontrivial {
        report.distinct(hash_str(&x.text));
        if report.want_sample() && e.node_count() >= 4 {
            report.sample(Json::obj().set("program", &x.text).set("reference", &x.expected).set("observed", &x.observed));
        }
    }
    if let Verdict::Violation { class, .. } = &x.verdict {
        let mut budget = 64u32;
        let (me, mp, mx) = shrink(e, pos, class, sup, report, &mut budget).unwrap_or((e.clone(), pos, x));
        if let Verdict::Violation { signature, detail, .. } = &mx.verdict {
            report.count(&format!("violation-class:{}", signature.split(':').next().unwrap_or("")));
            let summary = format!("{} in {}: `{}` reference {} - {}", signature, mp.name(), me.to_src(), mx.expected, detail);
            report.violation(signature, &summary, witness(&me, mp, &mx, origin));
        }
    }
}

// ------------------------------------------------------------------------------------------------
// Operands
// ------------------------------------------------------------------------------------------------

fn neg(x: Ex) -> Ex {
    Ex::un(UnOp::Minus, x)
}

/// Boundary operands of every scalar type. The quick tier enumerates the core set, the thorough tier the full set.
fn atoms(full: bool) -> Vec<Ex> {
    let mut v = Vec::new();
    let mut add = |core: bool, e: Ex| {
        if core || full {
            v.push(e);
        }
    };
    add(true, Ex::Bool(false));
    add(true, Ex::Bool(true));
    // untyped integer literals
    for (core, x) in [
        (true, 0u64),
        (true, 1),
        (true, 2),
        (true, 31),
        (true, 32),
        (true, 33),
        (false, 63),
        (true, 64),
        (false, 65),
        (true, 127),
        (true, 128),
        (false, 129),
        (true, 200),
        (false, 4294967040),
        (true, 2147483647),
        (true, 2147483648),
        (true, 4294967295),
        (true, 4294967296),
        (false, 9223372036854775807),
        (true, 9223372036854775808),
        (true, 18446744073709551615),
    ] {
        add(core, Ex::Lit(x));
    }
    for (core, x) in [(true, 1u64), (true, 2147483648), (false, 4294967296), (false, 9223372036854775808)] {
        add(core, neg(Ex::Lit(x)));
    }
    for (core, x) in [(true, 0i32), (true, 1), (true, -1), (true, 2), (true, 31), (true, 32), (true, 33), (false, -33), (false, 65536), (true, i32::MAX), (true, i32::MIN), (false, i32::MIN + 1)] {
        add(core, Ex::int(x));
    }
    for (core, x) in [(true, 0u32), (true, 1), (true, 2), (true, 31), (true, 32), (true, 33), (false, 65536), (false, 2147483647), (true, 2147483648), (true, u32::MAX)] {
        add(core, Ex::UInt(x));
    }
    // floats: every value is exactly representable in its type (lexing is C10's business)
    for (core, x) in [
        (true, 0.0f32),
        (true, 1.0),
        (false, 0.5),
        (true, 2.5),
        (false, 31.0),
        (false, 16777216.0),
        (true, 2147483648.0),
        (true, 3e9),
        (true, 4294967296.0),
        (false, 1e10),
        (true, f32::MAX),
        (true, 1e-45),
    ] {
        add(core, Ex::Float(x));
    }
    for (core, x) in [(true, 1.0f32), (false, 2.5), (false, 2147483648.0), (true, 3e9)] {
        add(core, neg(Ex::Float(x)));
    }
    for (core, x) in [(false, 0.0f64), (false, 1.0), (true, 2.5), (false, 2147483647.5), (true, 4294967295.5), (true, 1e300), (false, 5e-324)] {
        add(core, Ex::Double(x));
    }
    add(true, neg(Ex::Double(0.75)));
    for (core, x) in [(false, 0.0f64), (false, 1.0), (true, 0.1), (false, 16777217.0), (true, 1e39)] {
        add(core, Ex::FLit(x));
    }
    add(true, neg(Ex::FLit(1.5)));
    for (core, x) in [(false, 0.0f32), (false, 1.0), (true, 1.5), (true, 65504.0), (true, 5.9604644775390625e-8)] {
        add(core, Ex::Half(x));
    }
    for (k, d) in ENUMS.iter().enumerate() {
        for (i, (name, _, _)) in d.values.iter().enumerate() {
            let core = matches!(*name, "E0_Z" | "E0_N" | "E0_MAX" | "E0_MIN" | "E1_A" | "E1_S" | "E1_ALL");
            add(core, Ex::EnumRef(k as u8, i as u8));
        }
    }
    for (i, c) in CONSTS.iter().enumerate() {
        add(matches!(c.name, "K_I" | "K_U"), Ex::ConstRef(i as u8));
    }
    v
}

fn atoms_of(all: &[Ex], t: Ty) -> Vec<Ex> {
    all.iter().filter(|a| rc::type_of(a) == Ok(t)).cloned().collect()
}

/// Benign operand of a type: first operand 6 (bool: true, enums: 2 and 31), second operand 1 - no operator
/// overflows, divides by zero or shifts out of range on these
fn benign(t: Ty, second: bool) -> Ex {
    let n = if second { 1u32 } else { 6 };
    match t {
        Ty::Bool => Ex::Bool(true),
        Ty::Lit => Ex::Lit(n as u64),
        Ty::Int => Ex::int(n as i32),
        Ty::UInt => Ex::UInt(n),
        Ty::FLit => Ex::FLit(n as f64),
        Ty::Half => Ex::Half(n as f32),
        Ty::Float => Ex::Float(n as f32),
        Ty::Double => Ex::Double(n as f64),
        Ty::Enum(0) => Ex::EnumRef(0, if second { 1 } else { 2 }),
        Ty::Enum(_) => Ex::EnumRef(1, if second { 1 } else { 2 }),
    }
}

// ------------------------------------------------------------------------------------------------
// Phase 1: which shapes does the evaluator support at all?
// ------------------------------------------------------------------------------------------------

fn probe_universe() -> Vec<Ex> {
    let mut v = Vec::new();
    for op in UN_OPS {
        for t in SCALAR_TYS {
            v.push(Ex::un(op, benign(t, false)));
        }
    }
    for to in NAMED_TYS {
        for t in SCALAR_TYS {
            v.push(Ex::cast(to, benign(t, false)));
        }
    }
    for op in BIN_OPS {
        for a in SCALAR_TYS {
            for b in SCALAR_TYS {
                v.push(Ex::bin(op, benign(a, false), benign(b, true)));
            }
        }
    }
    v
}

/// Shapes the repository's own unit tests (typer/tests/evaluator_tests.rs) show to be supported: "not a constant"
/// for one of these with benign operands is a violation, not a gap
fn must_support() -> Vec<String> {
    let mut v = Vec::new();
    for op in BIN_OPS {
        if op.is_logic() {
            v.push(format!("{}:bool,bool", op.name()));
            continue;
        }
        for t in ["literal-int", "int", "uint"] {
            v.push(format!("{}:{},{}", op.name(), t, t));
        }
        v.push(format!("{}:bool,bool", op.name()));
        if op.is_compare() {
            v.push(format!("{}:literal-float,literal-float", op.name()));
        }
    }
    for s in ["plus:int", "plus:uint", "plus:float", "neg:int", "neg:literal-int", "neg:float", "neg:double", "neg:half", "not:bool", "not:int", "not:uint", "bitnot:int", "bitnot:uint", "bitnot:literal-int", "bitnot:bool"] {
        v.push(s.to_string());
    }
    for to in ["int", "uint"] {
        for from in ["literal-int", "int", "uint", "bool"] {
            v.push(format!("cast:{}<-{}", to, from));
        }
    }
    v
}

fn learn_support(ctx: &Ctx, total: &mut Report) -> Support {
    let universe = probe_universe();
    let found: Mutex<HashSet<String>> = Mutex::new(HashSet::new());
    let empty = Support { shapes: HashSet::new() };
    let r = par::run_cases(ctx, universe.len() as u64, |i, report| {
        let e = &universe[i as usize];
        let text = format!("{}void f(int s) {{ switch (s) {{ case {}: break; default: break; }} }}\n", prelude(e, false), e.to_src());
        report.evaluations += 1;
        match observe(&text, Pos::Case) {
            Seen::Value(Some(_)) => {
                report.count("probe:supported");
                found.lock().unwrap().insert(rc::root_shape(e));
            }
            Seen::Panic(c) => {
                // benign operands must not panic either
                let x = examine(e, Pos::Case, &empty);
                report.violation(&format!("panic:{}", c.signature()), &format!("benign operands: `{}` panics: {}", e.to_src(), c.message), witness(e, Pos::Case, &x, "probe"));
            }
            _ => report.count("probe:unsupported"),
        }
    });
    total.merge(r);
    let shapes = found.into_inner().unwrap();
    let sup = Support { shapes };
    for s in must_support() {
        if !sup.shapes.contains(&s) {
            if let Some(e) = universe.iter().find(|e| rc::root_shape(e) == s) {
                let x = examine(e, Pos::Case, &empty);
                total.violation(
                    &format!("not-constant:case:{}", s),
                    &format!("`{}` (benign operands, shape exercised by the repository's own evaluator tests) is reported as not constant", e.to_src()),
                    witness(e, Pos::Case, &x, "probe"),
                );
            }
        }
    }
    total.count_n("supported-shapes", sup.shapes.len() as u64);
    sup
}

// ------------------------------------------------------------------------------------------------
// Phase 2: exhaustive operator x boundary operand table
// ------------------------------------------------------------------------------------------------

/// Positions beyond assert_eval for the i-th case: one in rotation (all that apply for tiny tables)
fn rotation(i: u64) -> Pos {
    if i % 48 == 47 {
        return Pos::NumThreadsCompiled;
    }
    const R: [Pos; 16] = [
        Pos::Global,
        Pos::Case,
        Pos::Array,
        Pos::Enum,
        Pos::Local,
        Pos::Template,
        Pos::Global,
        Pos::NumThreads,
        Pos::Case,
        Pos::Enum,
        Pos::Array,
        Pos::Local,
        Pos::Template,
        Pos::Global,
        Pos::Enum,
        Pos::Case,
    ];
    R[(i % 16) as usize]
}

fn table_case(atoms: &[Ex], index: u64) -> Ex {
    let n = atoms.len() as u64;
    let unary = UN_OPS.len() as u64 * n;
    let casts = NAMED_TYS.len() as u64 * n;
    if index < unary {
        return Ex::un(UN_OPS[(index / n) as usize], atoms[(index % n) as usize].clone());
    }
    let index = index - unary;
    if index < casts {
        return Ex::cast(NAMED_TYS[(index / n) as usize], atoms[(index % n) as usize].clone());
    }
    let index = index - casts;
    let op = BIN_OPS[(index / (n * n)) as usize];
    let rest = index % (n * n);
    Ex::bin(op, atoms[(rest / n) as usize].clone(), atoms[(rest % n) as usize].clone())
}

fn gcd(a: u64, b: u64) -> u64 {
    if b == 0 {
        a
    } else {
        gcd(b, a % b)
    }
}

fn table_size(atoms: &[Ex]) -> u64 {
    let n = atoms.len() as u64;
    (UN_OPS.len() as u64 + NAMED_TYS.len() as u64) * n + BIN_OPS.len() as u64 * n * n
}

fn count_features(e: &Ex, report: &mut Report) {
    let mut fl = Flags::default();
    let res = rc::eval(e, &mut fl);
    report.count(match &res {
        Res::Val(_) => "reference:value",
        Res::NotConst => "reference:not-constant",
        Res::NoRef(_) => "reference:none",
    });
    if fl.wrapped {
        report.count("reference:wraps-around");
    }
    if let Res::Val(v) = &res {
        report.count(&format!("result-type:{}", v.ty().name()));
    }
    report.count(&format!("root:{}", rc::root_shape(e).split(':').next().unwrap_or("")));
    report.max("max:nodes", e.node_count() as u64);
}

// ------------------------------------------------------------------------------------------------
// Phase 3: random trees
// ------------------------------------------------------------------------------------------------

struct Gen<'a> {
    rng: Rng,
    by_type: &'a [(Ty, Vec<Ex>)],
}

impl Gen<'_> {
    fn atom(&mut self, t: Ty) -> Ex {
        let list = &self.by_type.iter().find(|(x, _)| *x == t).unwrap().1;
        self.rng.pick(list).clone()
    }
    fn any_ty(&mut self) -> Ty {
        // integers dominate: that is where the evaluator computes
        const W: [Ty; 20] = [
            Ty::Int,
            Ty::Int,
            Ty::Int,
            Ty::Int,
            Ty::UInt,
            Ty::UInt,
            Ty::UInt,
            Ty::UInt,
            Ty::Lit,
            Ty::Lit,
            Ty::Lit,
            Ty::Bool,
            Ty::Bool,
            Ty::Float,
            Ty::Float,
            Ty::Double,
            Ty::Half,
            Ty::FLit,
            Ty::Enum(0),
            Ty::Enum(1),
        ];
        *self.rng.pick(&W)
    }
    fn arith(&mut self) -> BinOp {
        *self.rng.pick(&[BinOp::Add, BinOp::Sub, BinOp::Mul, BinOp::Div, BinOp::Mod, BinOp::Shl, BinOp::Shr, BinOp::And, BinOp::Or, BinOp::Xor, BinOp::Add, BinOp::Sub, BinOp::Mul, BinOp::Shl])
    }
    fn compare(&mut self) -> BinOp {
        *self.rng.pick(&[BinOp::Lt, BinOp::Le, BinOp::Gt, BinOp::Ge, BinOp::Eq, BinOp::Ne])
    }

    /// A tree of the wanted type (by the oracle's typing rules), at most `depth` operators deep
    fn tree(&mut self, want: Ty, depth: u32) -> Ex {
        if depth == 0 || self.rng.chance(1, 7) {
            return self.atom(want);
        }
        let d = depth - 1;
        let roll = self.rng.below(100);
        match want {
            Ty::Bool => {
                if roll < 45 {
                    let t = self.any_ty();
                    let op = self.compare();
                    let a = self.tree(t, d);
                    let b = self.tree(t, d);
                    Ex::bin(op, a, b)
                } else if roll < 65 {
                    let (ta, tb) = (self.any_ty(), self.any_ty());
                    let op = if self.rng.chance(1, 2) { BinOp::LAnd } else { BinOp::LOr };
                    let a = self.tree(ta, d);
                    let b = self.tree(tb, d);
                    Ex::bin(op, a, b)
                } else if roll < 80 {
                    let t = self.any_ty();
                    Ex::un(UnOp::Not, self.tree(t, d))
                } else if roll < 95 {
                    let t = self.any_ty();
                    Ex::cast(Ty::Bool, self.tree(t, d))
                } else {
                    self.atom(want)
                }
            }
            Ty::Lit => {
                if roll < 75 {
                    let op = self.arith();
                    let a = self.tree(Ty::Lit, d);
                    let b = self.tree(Ty::Lit, d);
                    Ex::bin(op, a, b)
                } else if roll < 95 {
                    let op = *self.rng.pick(&[UnOp::Minus, UnOp::BitNot, UnOp::Plus]);
                    Ex::un(op, self.tree(Ty::Lit, d))
                } else {
                    self.atom(want)
                }
            }
            Ty::Int | Ty::UInt => {
                if roll < 55 {
                    let op = self.arith();
                    // the other operand: same type mostly, sometimes a type of lower rank (implicit conversion)
                    let lower: &[Ty] = if want == Ty::Int { &[Ty::Int, Ty::Int, Ty::Int, Ty::Lit, Ty::Bool, Ty::Enum(0)] } else { &[Ty::UInt, Ty::UInt, Ty::UInt, Ty::Int, Ty::Lit, Ty::Bool, Ty::Enum(1)] };
                    let other = *self.rng.pick(lower);
                    let a = self.tree(want, d);
                    let b = self.tree(other, d);
                    if self.rng.chance(1, 2) || op.is_shift() {
                        Ex::bin(op, a, b)
                    } else {
                        Ex::bin(op, b, a)
                    }
                } else if roll < 62 && want == Ty::Int {
                    let op = self.arith();
                    let a = self.tree(Ty::Bool, d);
                    let b = self.tree(Ty::Bool, d);
                    Ex::bin(op, a, b)
                } else if roll < 75 {
                    let op = *self.rng.pick(&[UnOp::Minus, UnOp::BitNot, UnOp::Plus, UnOp::Minus]);
                    Ex::un(op, self.tree(want, d))
                } else if roll < 96 {
                    let t = self.any_ty();
                    Ex::cast(want, self.tree(t, d))
                } else {
                    self.atom(want)
                }
            }
            Ty::Half | Ty::Float | Ty::Double => {
                if roll < 60 {
                    let t = self.any_ty();
                    Ex::cast(want, self.tree(t, d))
                } else if roll < 85 {
                    let op = if self.rng.chance(3, 4) { UnOp::Minus } else { UnOp::Plus };
                    Ex::un(op, self.tree(want, d))
                } else if roll < 90 {
                    // float arithmetic: no reference, must not panic
                    let op = *self.rng.pick(&[BinOp::Add, BinOp::Sub, BinOp::Mul, BinOp::Div, BinOp::Mod]);
                    let a = self.tree(want, d);
                    let b = self.tree(want, d);
                    Ex::bin(op, a, b)
                } else {
                    self.atom(want)
                }
            }
            Ty::FLit => {
                if roll < 50 {
                    Ex::un(UnOp::Minus, self.tree(Ty::FLit, d))
                } else {
                    self.atom(want)
                }
            }
            Ty::Enum(_) => {
                if roll < 40 {
                    let op = self.arith();
                    let a = self.tree(want, d);
                    let b = self.tree(want, d);
                    Ex::bin(op, a, b)
                } else if roll < 60 {
                    let op = *self.rng.pick(&[UnOp::Minus, UnOp::BitNot, UnOp::Plus]);
                    Ex::un(op, self.tree(want, d))
                } else if roll < 90 {
                    let t = *self.rng.pick(&[Ty::Int, Ty::UInt, Ty::Lit, Ty::Bool, Ty::Int, Ty::UInt, Ty::Float, Ty::Enum(0), Ty::Enum(1)]);
                    Ex::cast(want, self.tree(t, d))
                } else {
                    self.atom(want)
                }
            }
        }
    }
}

fn random_tree(seed: u64, index: u64, by_type: &[(Ty, Vec<Ex>)]) -> Ex {
    let mut g = Gen {
        rng: Rng::for_case(seed, 0xC13_3, index),
        by_type,
    };
    let calm = g.rng.chance(2, 5);
    let depth = 2 + g.rng.below(4) as u32; // 2..=5
    let mut last = None;
    for _ in 0..12 {
        let want = g.any_ty();
        let e = g.tree(want, depth);
        if !calm {
            return e;
        }
        let mut fl = Flags::default();
        let r = rc::eval(&e, &mut fl);
        if matches!(r, Res::Val(_)) && !fl.wrapped && !e.is_leaf() {
            return e;
        }
        last = Some(e);
    }
    last.unwrap()
}

/// All positions that make sense for the tree (integer-only positions only for integer-like references)
fn positions_for(e: &Ex, index: u64, how_many: usize) -> Vec<Pos> {
    let mut out = vec![Pos::Assert];
    let mut fl = Flags::default();
    let integer = match rc::eval(e, &mut fl) {
        Res::Val(v) => v.as_integer().is_some(),
        _ => true,
    };
    let mut i = index;
    let mut guard = 0;
    while out.len() < 1 + how_many && guard < 40 {
        let mut p = rotation(i);
        if p == Pos::NumThreadsCompiled && e.uses_enum() {
            // the exporter panics on the INT_MIN enumerator of the common declarations (C08's finding, not an evaluation)
            p = Pos::NumThreads;
        }
        i += 1;
        guard += 1;
        if p.integer_only() && !integer {
            continue;
        }
        if !out.contains(&p) {
            out.push(p);
        }
    }
    out
}

// ------------------------------------------------------------------------------------------------
// run / replay
// ------------------------------------------------------------------------------------------------

fn sanity(report: &mut Report) -> bool {
    // the declarations every program may start with must mean what the oracle assumes
    let probe = Ex::bin(BinOp::Add, Ex::EnumRef(0, 0), Ex::ConstRef(0));
    let mut text = prelude(&probe, true);
    for (k, d) in ENUMS.iter().enumerate() {
        for (i, (name, _, _)) in d.values.iter().enumerate() {
            text.push_str(&format!("static const {} v_{}_{} = {};\n", d.name, k, i, name));
        }
    }
    report.evaluations += 1;
    let m = match rs::typecheck_text(&text) {
        Front::Ok(m) => m,
        Front::Diag(d) => {
            report.inconclusive(&format!("the common declarations are rejected: {}", d.lines().next().unwrap_or("")));
            return false;
        }
        Front::Panic(c) => {
            report.inconclusive(&format!("the common declarations panic: {}", c.message));
            return false;
        }
    };
    let value_of = |name: &str| m.global_registry.iter().find(|g| !g.is_intrinsic && g.name.node == name).and_then(|g| g.constexpr_value.as_ref()).and_then(|c| from_ir(c, &m));
    let mut ok = true;
    for (i, c) in CONSTS.iter().enumerate() {
        match value_of(c.name) {
            Some(v) if v.same(&rc::const_value(i as u8)) => {}
            other => {
                report.inconclusive(&format!("named constant {} reads back as {:?}", c.name, other));
                ok = false;
            }
        }
    }
    for (k, d) in ENUMS.iter().enumerate() {
        for i in 0..d.values.len() {
            let mut fl = Flags::default();
            let want = rc::eval(&Ex::EnumRef(k as u8, i as u8), &mut fl);
            match (value_of(&format!("v_{}_{}", k, i)), want) {
                (Some(v), Res::Val(w)) if v.same(&w) => {}
                (other, _) => {
                    report.inconclusive(&format!("enumerator {} reads back as {:?}", d.values[i].0, other));
                    ok = false;
                }
            }
        }
    }
    ok
}

/// `sizeof` in the positions that demand a constant: where the evaluator folds it, the value is the size of the type; and a
/// qualifier on the operand type (or naming a constant of that type instead of the type) changes neither the value nor whether
/// the expression counts as constant - the evaluator decides by type, and the type with its qualifiers removed is the same.
fn sizeof_table(report: &mut Report) {
    const PRE: &str = "enum SE { SE_A, SE_B };\nstatic const int SK_int = -7;\nstatic const uint SK_uint = 7u;\nstatic const float SK_float = 0.5f;\nstatic const half SK_half = 0.5h;\nstatic const double SK_double = 0.5L;\nstatic const float3 SK_float3 = float3(1.0f, 2.0f, 3.0f);\nstatic const SE SK_SE = SE_B;\n";
    const TYPES: &[(&str, u64)] = &[("uint", 4), ("int", 4), ("float", 4), ("half", 2), ("double", 8), ("float3", 12), ("SE", 4)];
    let outcome = |operand: &str, position: &str, size: u64| -> (String, Option<u64>) {
        let text = match position {
            "array" => format!("{}float a[sizeof({})];\n", PRE, operand),
            "array-through-constant" => format!("{}static const uint n = sizeof({});\nfloat a[n + 1u - 1u];\n", PRE, operand),
            "enum" => format!("{}enum EE {{ EA = sizeof({}) }};\n", PRE, operand),
            _ => format!("{}void f(uint s) {{ switch (s) {{ case sizeof({}): break; default: break; }} }}\nfloat a[{}];\n", PRE, operand, size),
        };
        match observe(&text, if position == "enum" { Pos::Enum } else { Pos::Array }) {
            Seen::Integer(n) => (if position == "case" { "accepted".to_string() } else { format!("value {}", n) }, if position == "case" { None } else { Some(n) }),
            Seen::EnumValues(a, _) => (format!("value {}", a.show()), a.as_integer().map(|v| v as u64)),
            Seen::Diag(d) => (format!("diagnostic: {}", d.lines().next().unwrap_or("").split(": error: ").last().unwrap_or("")), None),
            Seen::Panic(c) => (format!("panic: {}", c.message), None),
            _ => ("lost".to_string(), None),
        }
    };
    for (ty, size) in TYPES {
        for position in ["array", "array-through-constant", "enum", "case"] {
            let base = outcome(ty, position, *size);
            report.evaluations += 1;
            if let Some(n) = base.1 {
                if n != *size {
                    report.violation(
                        &format!("value:sizeof:{}", position),
                        &format!("sizeof({}) in {} position: reference {} - observed {}", ty, position, size, base.0),
                        Json::obj().set("origin", "sizeof-table").set("operand", *ty).set("position", position).set("reference", format!("{}", size)).set("observed", base.0.as_str()),
                    );
                    continue;
                }
            }
            for variant in [format!("const {}", ty), format!("volatile {}", ty), format!("SK_{}", ty)] {
                let with = outcome(&variant, position, *size);
                report.evaluations += 1;
                if with.0 == base.0 {
                    report.count(&format!("sizeof-table:same-outcome:{}", if base.1.is_some() || base.0 == "accepted" { "folded" } else { "not-folded" }));
                    report.distinct(hash_str(&format!("{}|{}", variant, position)));
                } else {
                    report.violation(
                        &format!("value:sizeof:{}:{}", position, if variant.starts_with("SK_") { "named-constant-of-the-type" } else { "qualified-type" }),
                        &format!("sizeof({}) in {} position gives `{}`, sizeof({}) gives `{}`", ty, position, base.0, variant, with.0),
                        Json::obj().set("origin", "sizeof-table").set("operand", variant.as_str()).set("position", position).set("reference", base.0.as_str()).set("observed", with.0.as_str()),
                    );
                }
            }
        }
    }
}

fn run(ctx: &Ctx) -> Report {
    let mut total = Report::new();
    if !sanity(&mut total) {
        return total;
    }
    sizeof_table(&mut total);
    let sup = learn_support(ctx, &mut total);
    let all = atoms(ctx.tier == Tier::Thorough);
    let everything = atoms(true);
    let by_type: Vec<(Ty, Vec<Ex>)> = SCALAR_TYS.iter().map(|t| (*t, atoms_of(&everything, *t))).collect();
    for (t, list) in &by_type {
        total.count_n(&format!("operands:{}", t.name()), list.len() as u64);
        if list.is_empty() {
            total.inconclusive(&format!("no boundary operand of type {}", t.name()));
        }
    }

    // phase 2: exhaustive table
    // the table may use at most 65% of the time: on an overloaded machine the random trees still get their share
    let n_table = table_size(&all);
    let mut table_ctx = ctx.clone();
    table_ctx.deadline_s = ctx.deadline_s * 0.65;
    // visit the table in a strided order, so that a run cut short by the deadline has still sampled every operator
    let mut stride = 1_000_003u64;
    while gcd(stride, n_table) != 1 {
        stride += 2;
    }
    let mut table = par::run_cases(&table_ctx, n_table, |index, report| {
        let index = ((index as u128 * stride as u128) % n_table as u128) as u64;
        let e = table_case(&all, index);
        count_features(&e, report);
        report.count("table-cases");
        for p in positions_for(&e, index, 1) {
            run_one(&e, p, &sup, "table", report);
        }
    });
    table.exhaustive = Some(table.counters.get("table-cases").copied().unwrap_or(0) == n_table);
    total.merge(table);

    // phase 3: random trees
    let n_random = ctx.tier.pick(70_000, 1_500_000);
    let seed = ctx.seed;
    let random = par::run_cases(ctx, n_random, |index, report| {
        let e = random_tree(seed, index, &by_type);
        count_features(&e, report);
        report.count("random-trees");
        for p in positions_for(&e, index, 2) {
            run_one(&e, p, &sup, "random", report);
        }
    });
    total.merge(random);
    // "cases_run" of the three pools were added up by merge; the note of a shortened pool is kept
    if ctx.tier == Tier::Thorough {
        total.notes.push("thorough tier: same table, 20x more random trees".into());
    }
    total
}

fn replay(ctx: &Ctx, witness: &Json) -> Report {
    let mut report = Report::new();
    let Some(e) = witness.get_str("sexpr").and_then(Ex::from_sexpr) else {
        report.inconclusive("witness has no readable expression (sexpr)");
        return report;
    };
    let Some(pos) = witness.get_str("position").and_then(Pos::from_name) else {
        report.inconclusive("witness has no position");
        return report;
    };
    let mut one = ctx.clone();
    one.start = std::time::Instant::now();
    one.deadline_s = 300.0;
    let mut scratch = Report::new();
    let sup = learn_support(&one, &mut scratch);
    report.evaluations += scratch.evaluations;
    run_one(&e, pos, &sup, "replay", &mut report);
    report
}
