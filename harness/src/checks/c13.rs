//! C13 - not built yet
