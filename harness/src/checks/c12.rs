//! C12 - not built yet
